"""C10 — Power distribution and power analysis are exact on binned spectra (DESIGN.md §5 C10, design.d/C10.md).

Class E correspondence with Driver/C10.lean on the C08 domain family (harmonic RGSpaces 1-3 D with dyadic distances,
LMSpaces), natural and custom binnings, every harmonic sub-space of product domains, integer spectra and integer
(Gaussian-integer) fields: PowerDistributor times / adjoint_times, power_analyze with and without
keep_phase_information, create_power_operator.  Oracle (real code only): (D s)[p] == s[pindex p]; the adjoint sums
over bins and <D s, f> == <s, D^H f>; power_analyze(f) == s whenever |f|^2 == D s; the power operator is the diagonal
of D s.
"""
import glob
import json
import os
from fractions import Fraction

import numpy as np

from core.ctx import VERIF

ID = "C10"
LEAN_MODULES = ["NiftyVerif.Core.Proto", "NiftyVerif.Props.C10"]
DRIVER = "Driver/C10.lean"
OBLIGATIONS = ["NiftyVerif.C10." + t for t in (
    "distribute_spec", "distribute_adj_spec", "distribute_adjoint", "analyze_distributed", "analyze_subspace",
    "natural_bins_nonempty", "analyze_distributed_natural",
    "analyze_phase", "power_analyze_keep_phase", "asFound_guard_inverted", "power_operator_diag")]
RULE = ("harmonic partner: RGSpace 1-3 D (dyadic distances) or LMSpace; binning natural / custom (bounds between or on "
        "k-lengths); product domains with the harmonic space at position 0, 1 or 2 among regular-grid factors; spectra: small "
        "integers (squares for the analysis); fields real or Gaussian-integer complex; non-trivial = at least 3 bins or a product "
        "domain; distinct by canonical case")
TRUSTED_BASE = ["Lean 4.33 kernel; axioms propext/Classical.choice/Quot.sound only (audited every run)",
                "Model/Power.lean hand-written on top of Model/Domains.lean; pindex and dvol are taken from the real PowerSpace "
                "(their correctness is C08's obligation); tied by exact comparison on integer data",
                "float division in weight(-1) is executed, not modelled: analysis results are compared with relative tolerance 1e-12"]
ASSUMPTIONS = ["integer spectra and fields, dyadic volume elements: distribute / adjoint / power operator are exact (class E); "
               "power_analyze multiplies by a rounded reciprocal volume (class T, 1e-12)"]


def fs(x):
    f = Fraction(float(x))
    return str(f.numerator) if f.denominator == 1 else f"{f.numerator}/{f.denominator}"


def build_partner(spec):
    import nifty.cl as ift
    if spec["kind"] == "rg":
        return ift.RGSpace(tuple(spec["shape"]), distances=spec.get("distances"), harmonic=True)
    return ift.LMSpace(spec["lmax"], spec["mmax"])


def build_case(case):
    """-> (full domain, power space, space index, PowerDistributor)"""
    import nifty.cl as ift
    hp = build_partner(case["partner"])
    ps = ift.PowerSpace(hp, case.get("binbounds"))
    # other factors: position-space regular grids (power_analyze reads `.harmonic` of every factor; an UnstructuredDomain
    # has none and makes it raise AttributeError - see design.d/C10.md, observation)
    doms = [ift.RGSpace(n) for n in case.get("pre", [])] + [hp] + [ift.RGSpace(n, harmonic=True) for n in case.get("post", [])]
    space = len(case.get("pre", []))
    dom = ift.DomainTuple.make(doms)
    pd = ift.PowerDistributor(dom, ps, space)
    return dom, ps, space, pd


def fibres(arr, dom, space, n):
    """(pre, n, post) -> list of pre*post fibres of length n"""
    ax = dom.axes[space]
    a = np.asarray(arr)
    pre = int(np.prod(a.shape[:ax[0]], dtype=np.int64))
    post = int(np.prod(a.shape[ax[-1] + 1:], dtype=np.int64))
    a = a.reshape(pre, n, post)
    return [a[i, :, j] for i in range(pre) for j in range(post)]


def unfibres(fl, pre, n, post):
    out = np.zeros((pre, n, post), dtype=np.asarray(fl[0]).dtype)
    k = 0
    for i in range(pre):
        for j in range(post):
            out[i, :, j] = fl[k]
            k += 1
    return out


def rl(v):
    return [fs(x) for x in np.asarray(v, dtype=np.float64).reshape(-1)]


def gen_case(rng):
    kind = rng.choice(["rg", "rg", "rg", "lm"])
    if kind == "rg":
        nd = rng.choice([1, 1, 2, 2, 3])
        shape = [rng.randrange(2, 8) if nd < 3 else rng.randrange(2, 5) for _ in range(nd)]
        dist = rng.choice([None, [rng.choice([0.25, 0.5, 1.0, 2.0]) for _ in range(nd)]])
        partner = dict(kind="rg", shape=shape, distances=dist)
    else:
        lmax = rng.randrange(1, 5)
        partner = dict(kind="lm", lmax=lmax, mmax=rng.randrange(0, lmax + 1))
    hp = build_partner(partner)
    k = np.unique(hp.get_k_length_array().asnumpy())
    bb = None
    if len(k) >= 3 and rng.random() < 0.5:
        picks = sorted(rng.sample(range(len(k) - 1), rng.randrange(1, min(4, len(k)))))
        bb = sorted(set(float(k[p]) if (rng.random() < 0.3 and k[p] > 0) else float(0.5 * (k[p] + k[p + 1])) for p in picks))
    pre = [rng.choice([1, 2, 3])] if rng.random() < 0.3 else []
    post = [rng.choice([2, 3])] if rng.random() < 0.3 else []
    return dict(partner=partner, binbounds=bb, pre=pre, post=post, callable_spectrum=rng.random() < 0.5)


def plan(ctx, case, rng, reqs, posts):
    import nifty.cl as ift
    dom, ps, space, pd = build_case(case)
    hp = dom[space]
    nb, n = ps.size, hp.size
    pindex = np.asarray(ps.pindex).reshape(-1).tolist()
    pre = int(np.prod([d.size for d in dom[:space]], dtype=np.int64))
    post = int(np.prod([d.size for d in dom[space + 1:]], dtype=np.int64))
    nontriv = nb >= 3 or pre * post > 1
    pdom = pd.domain
    # spectrum: integer fibres (squares, so that a field with |f|^2 = D s exists in the integers / Gaussian integers)
    roots = np.array([[rng.randrange(0, 6) for _ in range(nb)] for _ in range(pre * post)], dtype=np.float64)
    if case.get("complex"):
        re_ = np.array([[rng.choice([0, 3, 4, 5, 6, 8]) for _ in range(nb)] for _ in range(pre * post)], dtype=np.float64)
        im_ = np.array([[{0: 0, 3: 4, 4: 3, 5: 12, 6: 8, 8: 6}[int(v)] for v in row] for row in re_], dtype=np.float64)
        spec_fib = re_ ** 2 + im_ ** 2
    else:
        spec_fib = roots ** 2
    s_arr = unfibres(list(spec_fib), pre, nb, post).reshape(pdom.shape)
    s_field = ift.makeField(pdom, s_arr)
    base = dict(case)

    # 1. distribute
    Ds = pd(s_field)
    reqs.append(dict(op="distribute", pindex=pindex, fibres=[rl(f) for f in fibres(s_arr, pdom, space, nb)]))
    posts.append(lambda m, Ds=Ds: ctx.compare(dict(base, what="distribute"), [rl(f) for f in fibres(Ds.asnumpy(), dom, space, n)], m,
                                               note="C10 PowerDistributor.times", nontrivial=nontriv))
    # 2. adjoint on an integer field
    f_arr = np.array([rng.randrange(-5, 6) for _ in range(dom.size)], dtype=np.float64).reshape(dom.shape)
    adj = pd.adjoint_times(ift.makeField(dom, f_arr))
    reqs.append(dict(op="adjoint", nbin=nb, pindex=pindex, fibres=[rl(f) for f in fibres(f_arr, dom, space, n)]))
    posts.append(lambda m, adj=adj: ctx.compare(dict(base, what="adjoint"), [rl(f) for f in fibres(adj.asnumpy(), pdom, space, nb)], m,
                                                 note="C10 PowerDistributor.adjoint_times", nontrivial=nontriv))
    # 3. power operator (only on a single-space power spectrum, as create_power_operator demands)
    if True:
        s1 = ift.makeField(ift.DomainTuple.make(ps), spec_fib[0])
        try:
            if case.get("binbounds") is None and case.get("callable_spectrum"):
                vals = np.array(spec_fib[0])
                op = ift.create_power_operator(dom, lambda k: vals, space=space)     # natural binning, function of k
            else:
                op = ift.create_power_operator(dom, s1, space=space)
            x_arr = np.array([rng.randrange(-4, 5) for _ in range(dom.size)], dtype=np.float64).reshape(dom.shape)
            y = op(ift.makeField(dom, x_arr))
            impl = [rl(f) for f in fibres(y.asnumpy(), dom, space, n)]
        except Exception as e:
            impl = {"error": type(e).__name__}
            x_arr = np.zeros(dom.shape)
        reqs.append(dict(op="powerop", pindex=pindex, s=rl(spec_fib[0]), fibres=[rl(f) for f in fibres(x_arr, dom, space, n)]))
        posts.append(lambda m, impl=impl: ctx.compare(dict(base, what="powerop"), impl, m, note="C10 create_power_operator",
                                                       nontrivial=nontriv))
    # 4. power_analyze of a field with |f|^2 = D s
    sign = np.array([rng.choice([-1.0, 1.0]) for _ in range(dom.size)]).reshape(dom.shape)
    if case.get("complex"):
        fre = np.asarray(pd(ift.makeField(pdom, unfibres(list(re_), pre, nb, post).reshape(pdom.shape))).asnumpy()) * sign
        fim = np.asarray(pd(ift.makeField(pdom, unfibres(list(im_), pre, nb, post).reshape(pdom.shape))).asnumpy())
        fld = ift.makeField(dom, fre + 1j * fim)
    else:
        fre = np.asarray(pd(ift.makeField(pdom, unfibres(list(roots), pre, nb, post).reshape(pdom.shape))).asnumpy()) * sign
        fim = None
        fld = ift.makeField(dom, fre)
    for keep in (False, True):
        try:
            r = ift.power_analyze(fld, spaces=space, binbounds=case.get("binbounds"), keep_phase_information=keep)
            ra = r.asnumpy()
            impl = dict(re=[np.real(f) for f in fibres(ra, pdom, space, nb)],
                        im=[np.imag(f) for f in fibres(ra, pdom, space, nb)] if keep else None)
        except Exception as e:
            impl = {"error": type(e).__name__}
        rq = dict(op="analyze", cfg="fixed", nbin=nb, pindex=pindex, dvol=fs(hp.scalar_dvol),
                  re=[rl(f) for f in fibres(fre, dom, space, n)], keep=keep)
        if fim is not None:
            rq["im"] = [rl(f) for f in fibres(fim, dom, space, n)]
        reqs.append(rq)

        def post_an(m, impl=impl, keep=keep):
            c = dict(base, what="analyze", keep=keep)
            ctx.stat("analyze:%s:keep=%s:%s" % ("complex" if case.get("complex") else "real", keep,
                                                 "error" if "error" in impl else "ok"))
            if "error" in impl or "error" in m:
                # canonical error kinds: the model says ValueError for the rejected combination
                ctx.compare(c, impl if "error" in impl else "ok", m if "error" in m else "ok",
                            note="C10 power_analyze: which argument combinations are accepted", nontrivial=True)
                return
            ctx.case(c, nontriv)
            for part in ("re", "im"):
                if m.get(part) is None:
                    continue
                for a, b in zip(impl[part], m[part]):
                    for x, y in zip(a, b):
                        y = float(Fraction(y))
                        if abs(float(x) - y) > 1e-12 * max(1.0, abs(y)):
                            ctx.disagree(c, [list(map(float, v)) for v in impl[part]], m[part], "C10 power_analyze values (class T)")
                            return
        posts.append(post_an)
    ctx.stat("partner:" + case["partner"]["kind"] + (":product" if pre * post > 1 else "") + (":custom" if case.get("binbounds") else ":natural"))


# ---- oracle ---------------------------------------------------------------------------------------------------------
def oracle(case):
    import nifty.cl as ift
    import nifty.cl as ift
    rng = np.random.default_rng(case.get("oseed", 0))
    try:
        ift.PowerSpace(build_partner(case["partner"]), case.get("binbounds"))
    except ValueError:
        return None            # the binning has an empty bin: no power space exists
    dom, ps, space, pd = build_case(case)
    hp = dom[space]
    nb, n = ps.size, hp.size
    pindex = np.asarray(ps.pindex).reshape(-1)
    pdom = pd.domain
    sig = dict(partner=case["partner"]["kind"], product=len(dom) > 1)
    ax = dom.axes[space]
    s = rng.integers(0, 6, size=pdom.shape).astype(np.float64)
    Ds = pd(ift.makeField(pdom, s)).asnumpy()
    pre = int(np.prod(dom.shape[:ax[0]], dtype=np.int64))
    post = int(np.prod(dom.shape[ax[-1] + 1:], dtype=np.int64))
    exp = s.reshape(pre, nb, post)[:, pindex, :].reshape(dom.shape)
    if not np.array_equal(Ds, exp):
        return ("PowerDistributor: (D s)[p] != s[pindex[p]]", dict(sig, what="distribute"))
    f = rng.integers(-5, 6, size=dom.shape).astype(np.float64)
    adj = pd.adjoint_times(ift.makeField(dom, f)).asnumpy().reshape(pre, nb, post)
    fa = f.reshape(pre, n, post)
    for b in range(nb):
        if not np.array_equal(adj[:, b, :], fa[:, pindex == b, :].sum(axis=1)):
            return ("PowerDistributor.adjoint_times does not sum over the bin", dict(sig, what="adjoint"))
    if float((Ds * f).sum()) != float((s * adj.reshape(pdom.shape)).sum()):
        return ("<D s, f> != <s, D^H f>", dict(sig, what="adjointness"))
    aspect = case.get("aspect")
    if aspect == "two-spaces":
        return oracle_two_spaces(case)
    if aspect == "operator":
        return _oracle_operator(case, rng, dom, ps, space, pindex, nb, n, pre, post, sig)
    # analysis: |f|^2 = D s  =>  power_analyze(f) == s
    roots = rng.integers(0, 6, size=pdom.shape).astype(np.float64)
    sgn = rng.choice([-1.0, 1.0], size=dom.shape)
    fr = pd(ift.makeField(pdom, roots)).asnumpy() * sgn
    for cplx in (False, True):
        if cplx:
            im = pd(ift.makeField(pdom, 2 * roots)).asnumpy()
            fld = ift.makeField(dom, fr + 1j * im)
            want = roots ** 2 + (2 * roots) ** 2
        else:
            fld = ift.makeField(dom, fr)
            want = roots ** 2
        try:
            got = ift.power_analyze(fld, spaces=space, binbounds=case.get("binbounds")).asnumpy()
        except Exception as e:
            return (f"power_analyze raised {type(e).__name__} on a {'complex' if cplx else 'real'} field",
                    dict(sig, what="analyze-raised", complex=cplx, keep=False))
        if not np.allclose(got, want, rtol=1e-12, atol=1e-12):
            return ("power_analyze(f) != s although |f|^2 == D s", dict(sig, what="analyze", complex=cplx))
        if cplx:
            try:
                gp = ift.power_analyze(fld, spaces=space, binbounds=case.get("binbounds"), keep_phase_information=True).asnumpy()
            except Exception as e:
                return (f"power_analyze(complex field, keep_phase_information=True) raised {type(e).__name__}: the phase-preserving "
                        f"analysis documented for complex input is unavailable", dict(what="keep-phase-guard", error=type(e).__name__))
            if not (np.allclose(gp.real, roots ** 2, rtol=1e-12, atol=1e-12) and np.allclose(gp.imag, (2 * roots) ** 2, rtol=1e-12, atol=1e-12)):
                return ("keep_phase_information: the parts are not the spectra of the real and imaginary parts",
                        dict(sig, what="analyze-phase"))
    if aspect == "analyze":
        return None
    return _oracle_operator(case, rng, dom, ps, space, pindex, nb, n, pre, post, sig)


def _oracle_operator(case, rng, dom, ps, space, pindex, nb, n, pre, post, sig):
    import nifty.cl as ift
    # power operator = diagonal of D s
    s1 = rng.integers(1, 6, size=(nb,)).astype(np.float64)
    try:
        op = ift.create_power_operator(dom, ift.makeField(ift.DomainTuple.make(ps), s1), space=space)
    except Exception as e:
        return (f"create_power_operator(domain, Field over a PowerSpace) raised {type(e).__name__}: the documented Field spectrum "
                f"is not accepted", dict(what="power-operator-field-spectrum", error=type(e).__name__))
    x = rng.integers(-4, 5, size=dom.shape).astype(np.float64)
    y = op(ift.makeField(dom, x)).asnumpy()
    dg = s1[pindex].reshape((1, n, 1))
    if not np.array_equal(y.reshape(pre, n, post), x.reshape(pre, n, post) * dg):
        return ("create_power_operator is not the diagonal of the distributed spectrum", dict(sig, what="power-operator"))
    return None


def oracle_two_spaces(case):
    """power_analyze over SEVERAL harmonic sub-spaces at once (spaces=None / a tuple): |f|^2 = D_1 D_2 s  =>  result == s"""
    import nifty.cl as ift
    rng = np.random.default_rng(case.get("oseed", 0))
    h1, h2 = build_partner(case["partner"]), build_partner(case["partner2"])
    try:
        p1, p2 = ift.PowerSpace(h1), ift.PowerSpace(h2)        # natural binning (given bounds would apply to both spaces alike)
    except ValueError:
        return None
    mid = [ift.RGSpace(n) for n in case.get("mid", [])]
    dom = ift.DomainTuple.make([h1] + mid + [h2])
    sp2 = len(mid) + 1
    pdom = ift.DomainTuple.make([p1] + mid + [p2])
    roots = rng.integers(0, 5, size=pdom.shape).astype(np.float64)
    d1 = ift.PowerDistributor(ift.DomainTuple.make([h1] + mid + [p2]), p1, 0)
    d2 = ift.PowerDistributor(dom, p2, sp2)
    sgn = rng.choice([-1.0, 1.0], size=dom.shape)
    f = d2(d1(ift.makeField(pdom, roots))).asnumpy() * sgn
    sig = dict(what="analyze-two-spaces")
    try:
        spaces = None if not mid else (0, sp2)
        got = ift.power_analyze(ift.makeField(dom, f), spaces=spaces).asnumpy()
    except Exception as e:
        return (f"power_analyze over two harmonic sub-spaces raised {type(e).__name__}: {str(e)[:80]}", dict(sig, error=type(e).__name__))
    if got.shape != roots.shape or not np.allclose(got, roots ** 2, rtol=1e-12, atol=1e-12):
        return ("power_analyze over two harmonic sub-spaces does not return s although |f|^2 = D_1 D_2 s", sig)
    return None


def shrink(case):
    if case.get("pre") or case.get("post"):
        yield dict(case, pre=[], post=[])
    if case.get("binbounds"):
        yield dict(case, binbounds=None)
    p = case["partner"]
    if p["kind"] == "rg" and len(p["shape"]) > 1:
        yield dict(case, binbounds=None, partner=dict(p, shape=p["shape"][:1], distances=None if p["distances"] is None else p["distances"][:1]))


def _corpus():
    out = []
    for p in sorted(glob.glob(os.path.join(VERIF, "corpus", ID, "*.json"))):
        try:
            d = json.load(open(p))
            out.append(d.get("case", d))
        except Exception:
            pass
    return out


def run(ctx):
    rng = ctx.rng
    cases = _corpus()
    cases += [dict(partner=dict(kind="rg", shape=[8], distances=None), binbounds=None, pre=[], post=[]),
              dict(partner=dict(kind="rg", shape=[4, 6], distances=[0.5, 0.25]), binbounds=None, pre=[2], post=[]),
              dict(partner=dict(kind="lm", lmax=3, mmax=2), binbounds=[0.5, 2.0], pre=[], post=[3])]
    for _ in range(ctx.n(40, 500)):
        cases.append(gen_case(rng))
    reqs, posts = [], []
    for i, c in enumerate(cases):
        c = dict(c, complex=(i % 2 == 1) if "complex" not in c else c["complex"])
        import nifty.cl as ift
        try:
            ift.PowerSpace(build_partner(c["partner"]), c.get("binbounds"))
        except ValueError:
            ctx.stat("skipped:binning-with-empty-bin")       # no such power space exists
            continue
        n0, p0 = len(reqs), len(posts)
        try:
            plan(ctx, c, rng, reqs, posts)
        except Exception as e:       # the real code failed on a valid configuration: a disagreement, not a harness failure
            del reqs[n0:], posts[p0:]
            ctx.compare(dict(c, what="setup"), {"error": type(e).__name__ + ":" + str(e)[:80]}, "ok",
                        note="C10 real code raised on a valid configuration")
        for aspect in ("analyze", "operator"):
            try:
                r = oracle(dict(c, oseed=rng.randrange(1 << 30), aspect=aspect))
            except Exception as e:
                r = (f"the real code raised {type(e).__name__} on a valid power-space configuration: {str(e)[:100]}",
                     dict(what="raised", error=type(e).__name__))
            if r:
                ctx.counterexample(dict(c, oseed=0, aspect=aspect), *r)
    # several harmonic sub-spaces analysed together (oracle only; the model statement is fibre-wise: analyze_subspace)
    for _ in range(ctx.n(10, 100)):
        c = gen_case(rng)
        c2 = gen_case(rng)
        c = dict(partner=c["partner"], partner2=c2["partner"], binbounds=None, mid=[2] if rng.random() < 0.4 else [],
                 aspect="two-spaces", oseed=rng.randrange(1 << 30))
        if int(np.prod(build_partner(c["partner"]).shape)) * int(np.prod(build_partner(c["partner2"]).shape)) > 1500:
            continue
        ctx.case({k: v for k, v in c.items() if k != "oseed"}, True)
        ctx.stat("two-spaces")
        try:
            r = oracle(c)
        except Exception as e:
            r = (f"the real code raised {type(e).__name__} on a valid two-space configuration: {str(e)[:100]}",
                 dict(what="raised", error=type(e).__name__))
        if r:
            ctx.counterexample(c, *r)
    outs = ctx.model(DRIVER, reqs)
    for post, m in zip(posts, outs):
        post(m)


def search(ctx):
    for _ in range(100):
        c = gen_case(ctx.rng)
        r = oracle(c)
        if r:
            ctx.counterexample(c, *r)
            return
