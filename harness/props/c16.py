"""C16 — Classic descent minimisers are monotone and their line search is sound (DESIGN.md §5 C16, design.d/C16.md).

Tie, four streams (all against the real code in-process, all cases through one batch of the Lean driver):
  ls      real `LineSearch.perform_line_search` on generated polynomial / rational energies (convex, non-convex, boxed domains that
          yield NaN / inf / 1e200 / FloatingPointError) with a tracing `LineEnergy`; the recorded (α, φ, φ') trace goes to the
          verified checker `runLS` (must accept; same verdict, same returned α, same exception kind)   [class F]
          + oracle: strong Wolfe at the returned point in exact rationals                               [real code only]
  min     real minimiser runs (SteepestDescent, RelaxedNewton, NewtonCG, L_BFGS, VL_BFGS; ≤ 30 steps) with recording
          controller / line searcher: the recorded oracle answers are replayed through the Lean `Descent.minimize`
          (same status, value, accepted values, resets, f_k_minus_1 arguments)                          [class F]
          + every inner line search is a further `ls` trace; + oracle: accepted values never increase, status ∈ {0, 2}
  script  real `DescentMinimizer.__call__` driven by scripted fake energies/line searcher/controller (all branches:
          higher, equal, lower value, zero gradient, every controller status) vs. `Descent.minimize`   [class E]
  twins   the same (x, g, reset) history fed to the real L_BFGS and VL_BFGS direction rules and to both Lean models:
          model vs. code [class T] and code vs. code (the property itself) [oracle]
"""
from fractions import Fraction
import copy
import glob
import json
import math
import os

import numpy as np

from core.ctx import VERIF
from props import _c16_impl as I

ID = "C16"
LEAN_MODULES = ["NiftyVerif.Core.Proto", "NiftyVerif.Model.RVec", "NiftyVerif.Props.C16"]
DRIVER = "Driver/C16.lean"
OBLIGATIONS = ["NiftyVerif.C16." + t for t in (
    "descent_monotone", "descent_status",
    "ls_success_wolfe", "ls_success_wolfe_fun", "ls_success_strict_decrease", "ls_returns_evaluated_point",
    "quadmin_stationary", "cubicmin_interpolates", "cubicmin_stationary",
    "vl_eq_two_loop", "buffer_window", "vl_eq_lbfgs_direction",
    "store_gram", "store_invariant_step", "vl_run_eq_lbfgs_run", "vl_run_eq_lbfgs_run_driver",
)]
RULE = ("ls: generated polynomial energy x start x direction kind x LineSearch parameters, non-trivial = at least one "
        "line evaluation recorded; min: minimiser x energy x start x controller, non-trivial = at least one search; "
        "script: scripted oracle answers for DescentMinimizer.__call__, non-trivial = at least one search; "
        "twins: (x,g,reset) histories x max_history_length, non-trivial = history longer than max_history_length or "
        "with a reset; distinct by canonical JSON of the case")
TRUSTED_BASE = [
    "Lean 4.33 kernel; axioms propext/Classical.choice/Quot.sound only (audited every run)",
    "hand-written models Model/Descent.lean, Model/LineSearch.lean, Model/Lbfgs.lean are transcriptions of "
    "descent_minimizers.py / line_search.py; tied only by the differential checks of this module",
    "harness-side tracer: subclass of line_search.LineEnergy installed in the harness process records (alpha, value, "
    "directional_derivative) of every evaluation; PolyEnergy (harness) is the energy under test",
    "IEEE rounding of c1*alpha*phi'(0), -c2*phi'(0), 0.99*maxstepsize, the backtracking midpoint is outside the model; "
    "_quadmin/_cubicmin are recomputed exactly from the recorded floats and compared with a conditioned rounding-error "
    "bound (2^-42 units, >= 800x the largest deviation observed); sqrt itself is not modelled (stationarity is tested)",
]
ASSUMPTIONS = [
    "energy values totally ordered (NaN energies inside an accepted step are outside the model)",
    "decisions whose exact margin is below 1e-9 relative are not compared (skipped_near_threshold)",
]

TOL_T = 1e-7          # class T tolerance for directions (observed noise <= 1e-12 on the generated histories)


# =========================================================================================================
# generators
# =========================================================================================================

def _dy(rng, lo=-40, hi=40, den=16):
    return rng.randint(lo, hi) / den


def _unit(n, i, p=1):
    e = [0] * n
    e[i] = p
    return e


def gen_energy(rng, n=None, family=None):
    n = n or rng.choice([1, 2, 2, 3, 3, 4, 5])
    family = family or rng.choice(["quad", "quad", "quartic", "quartic", "rosen", "sextic"])
    if family == "rosen" and n < 2:
        family = "quartic"
    terms = []
    if family == "quad":
        M = [[rng.randint(-2, 2) for _ in range(n)] for _ in range(n)]
        A = [[sum(M[k][i] * M[k][j] for k in range(n)) + (rng.choice([1, 2, 4]) if i == j else 0) for j in range(n)]
             for i in range(n)]
        for i in range(n):
            terms.append([A[i][i] / 2, _unit(n, i, 2)])
            for j in range(i + 1, n):
                if A[i][j]:
                    e = [0] * n
                    e[i] = e[j] = 1
                    terms.append([float(A[i][j]), e])
            b = _dy(rng, -16, 16, 4)
            if b:
                terms.append([-b, _unit(n, i)])
    elif family == "quartic":
        for i in range(n):
            terms.append([rng.choice([0.25, 0.5, 1.0]), _unit(n, i, 4)])
            terms.append([-rng.choice([0.5, 1.0, 2.0, 3.0]), _unit(n, i, 2)])
            c = _dy(rng, -8, 8, 8)
            if c:
                terms.append([c, _unit(n, i)])
            for j in range(i + 1, n):
                if rng.random() < 0.5:
                    e = [0] * n
                    e[i] = e[j] = 1
                    terms.append([rng.choice([-0.5, -0.25, 0.25, 0.5]), e])
    elif family == "rosen":
        k = rng.choice([1.0, 4.0, 10.0, 100.0])
        for i in range(n - 1):
            e = [0] * n
            e[i + 1] = 2
            terms.append([k, e])
            e = [0] * n
            e[i + 1] = 1
            e[i] = 2
            terms.append([-2 * k, e])
            terms.append([k, _unit(n, i, 4)])
            terms.append([1.0, [0] * n])
            terms.append([-2.0, _unit(n, i)])
            terms.append([1.0, _unit(n, i, 2)])
    else:  # sextic: several local minima per coordinate
        for i in range(n):
            terms.append([0.125, _unit(n, i, 6)])
            terms.append([-rng.choice([0.5, 1.0]), _unit(n, i, 4)])
            terms.append([rng.choice([0.5, 1.0, 1.5]), _unit(n, i, 2)])
            terms.append([_dy(rng, -8, 8, 16) or 0.25, _unit(n, i)])
    spec = {"n": n, "terms": terms, "box": None, "family": family}
    return spec


def gen_start(rng, spec, box_ok=True):
    n = spec["n"]
    if spec["family"] == "rosen":
        x0 = [_dy(rng, -32, 32, 16) for _ in range(n)]
    else:
        x0 = [_dy(rng, -48, 48, 16) for _ in range(n)]
    if box_ok and rng.random() < 0.3:
        r = max(abs(v) for v in x0) + rng.choice([0.125, 0.5, 1.0, 2.0])
        spec["box"] = [r, rng.choice(["nan", "fpe", "fpe", "huge", "inf"])]
    return x0


DIR_KINDS = ["sd", "sd", "sd", "scaled", "scaled", "scaled", "scaled", "scaled", "newton", "newton", "rand", "rand",
             "uphill", "ortho", "zero"]


def gen_direction(rng, spec, x0, kind):
    e = I.energy_at(spec, x0)
    g = e.gradient.asnumpy().astype(np.float64)
    n = spec["n"]
    if kind == "sd":
        d = -g
    elif kind == "scaled":
        d = -g * 2.0 ** (rng.randint(0, 10) if spec.get("box") else rng.randint(-12, 8))
    elif kind == "newton":
        h = np.array(I.poly_diag_hess(spec["terms"], [float(v) for v in x0]))
        d = -g / (np.abs(h) + 0.5)
    elif kind == "rand":
        d = -g * np.array([rng.choice([0.25, 0.5, 1.0, 2.0, 4.0]) for _ in range(n)])
    elif kind == "uphill":
        d = g * rng.choice([1.0, 0.5])
    elif kind == "ortho" and n >= 2:
        d = np.zeros(n)
        i, j = rng.sample(range(n), 2)
        d[i], d[j] = g[j], -g[i]
        if not d.any():
            d[i] = 0.0
    else:
        d = np.zeros(n)
    return [float(v) for v in d]


def gen_ls_params(rng):
    kw = {}
    if rng.random() < 0.6:
        c1 = rng.choice([1e-4, 1e-3, 0.01, 0.1, 0.25, 0.45])
        c2 = rng.choice([0.9, 0.5, 0.1, 0.99, 0.7])
        if c1 < c2:
            kw["c1"], kw["c2"] = c1, c2
    if rng.random() < 0.5:
        kw["preferred_initial_step_size"] = rng.choice([1.0, 1.0, 0.5, 10.0, 1e-3, 100.0, 0.0])
    if rng.random() < 0.3:
        kw["max_step_size"] = rng.choice([10.0, 1.0, 0.1, 4.0, 1e-3])
    if rng.random() < 0.3:
        kw["max_iterations"] = rng.choice([1, 2, 3, 5, 10])
    if rng.random() < 0.3:
        kw["max_zoom_iterations"] = rng.choice([0, 1, 2, 3, 5])
    return kw


def gen_ls_case(rng, tag=""):
    spec = gen_energy(rng)
    x0 = gen_start(rng, spec)
    kind = rng.choice(DIR_KINDS)
    d = gen_direction(rng, spec, x0, kind)
    case = dict(kind="ls", energy=spec, x0=x0, d=d, dkind=kind, ls=gen_ls_params(rng), fkm1=None, longest=None)
    r = rng.random()
    if r < 0.35:
        phi0 = float(I.energy_at(spec, x0).value)
        case["fkm1"] = phi0 + rng.choice([1.0, 0.125, 1e-3, 8.0, 0.0, -0.5, 100.0])
    if rng.random() < 0.2:
        case["longest"] = rng.choice([0.5, 2.0, 1e-3, 1.0, 16.0, 0.0])
    return case


def gen_lsscript_case(rng):
    """arbitrary-oracle line search: scripted (phi, phi') answers with many exact ties and non-finite values"""
    dphi0 = rng.choice([-1.0, -1.0, -0.5, -4.0, -0.125, -1.0, 0.0, 1.0]) if rng.random() < 0.3 else -1.0
    vals = [0.0]
    script = []
    if dphi0 < 0 and rng.random() < 0.35:
        # expansion prefix: Armijo holds, slope still steep -> the step is doubled (alpha0 > 0 afterwards); then
        # often a non-finite answer, so that backtracking starts from alpha0 != 0
        a = 1.0
        for _ in range(rng.randint(1, 3)):
            script.append([dphi0 * a, 2.0 * dphi0])
            vals.append(dphi0 * a)
            a *= 2
        if rng.random() < 0.6:
            script.append([rng.choice(["fpe", float("nan"), float("inf"), 1e200]), 0.0])
    for _ in range(rng.randint(1, 9)):
        r = rng.random()
        if r < 0.07:
            f = rng.choice(["fpe", float("nan"), float("inf"), 1e200, -1e200])
        elif r < 0.35:
            f = rng.choice(vals)                     # exact tie with an earlier value
        else:
            f = rng.choice([-2.0, -1.0, -0.75, -0.5, -0.25, -0.125, -0.0625, 0.0, 0.125, 0.5, 1.0, 3.0])
        if isinstance(f, float) and math.isfinite(f):
            vals.append(f)
        d = rng.choice([-2.0, -1.0, -0.5, -0.25, -0.0625, 0.0, 0.0625, 0.25, 0.5, 1.0, 2.0])
        script.append([f, d])
    kw = {}
    c1 = rng.choice([2.0 ** -13, 0.125, 0.25, 0.5, 1e-4])
    c2 = rng.choice([0.9, 0.5, 0.75, 0.25, 0.9375])
    if c1 < c2:
        kw["c1"], kw["c2"] = c1, c2
    if rng.random() < 0.5:
        kw["preferred_initial_step_size"] = rng.choice([1.0, 0.5, 2.0, 0.25])
    if rng.random() < 0.3:
        kw["max_step_size"] = rng.choice([4.0, 2.0, 8.0, 1.0])
    kw["max_iterations"] = rng.choice([1, 2, 3, 4, 6, 10])
    kw["max_zoom_iterations"] = rng.choice([0, 1, 2, 3, 4, 6])
    return dict(kind="lsscript", phi0=0.0, dphi0=dphi0, script=script,
                default=[rng.choice([1.0, -0.5, 0.0]), rng.choice([1.0, -1.0, 0.0])], ls=kw,
                fkm1=rng.choice([None, None, 1.0, 0.125, 0.0, -1.0]), longest=rng.choice([None, None, None, 4.0, 1.0]))


# ---- directed streams: multi-trial line searches on non-convex profiles, adversarial oracles ----------------

def gen_profile_case(rng, family=None):
    """non-convex profile along the search ray whose slope gets *steeper* before it flattens (concave flank, then the
    well): the bracketing stage has to double the step several times and/or `_zoom` has to interpolate repeatedly.
    Families: ramp (-a x - k x^2 + q x^4 per coordinate), well (rational 'Gaussian-well' -A/(1+q) entered from its
    tail), ripple (shallow quadratic + several small wells along the ray)."""
    family = family or rng.choice(["ramp", "well", "well", "ripple"])
    n = rng.choice([1, 1, 2, 3])
    terms, wells = [], []
    if family == "ramp":
        for i in range(n):
            terms.append([-rng.choice([0.5, 1.0, 2.0]), _unit(n, i)])
            terms.append([-rng.choice([0.25, 0.5, 1.0, 2.0]), _unit(n, i, 2)])
            terms.append([rng.choice([1 / 64, 1 / 16, 0.25]), _unit(n, i, 4)])
        x0 = [rng.choice([0.0, 0.0, 0.125, -0.25]) for _ in range(n)]
    elif family == "well":
        m = [rng.choice([2.0, 3.0, 4.0, 6.0]) * rng.choice([1, -1]) for _ in range(n)]
        wells.append(dict(A=rng.choice([1.0, 2.0, 4.0]), w=[rng.choice([0.25, 0.5, 1.0, 2.0]) for _ in range(n)], m=m))
        for i in range(n):
            terms.append([2.0 ** -rng.randint(6, 10), _unit(n, i, 2)])
        x0 = [rng.choice([0.0, 0.25, -0.5]) for _ in range(n)]
    else:
        for i in range(n):
            terms.append([rng.choice([1 / 32, 1 / 16, 0.125]), _unit(n, i, 2)])
            terms.append([-rng.choice([0.25, 0.5]), _unit(n, i)])
        x0 = [0.0] * n
        for j in range(rng.randint(2, 4)):
            wells.append(dict(A=rng.choice([0.125, 0.25, 0.5]), w=[rng.choice([1.0, 2.0, 4.0]) for _ in range(n)],
                              m=[1.0 + 1.5 * j + rng.choice([0.0, 0.25]) for _ in range(n)]))
    spec = {"n": n, "terms": terms, "wells": wells, "box": None, "family": family}
    g = I.energy_at(spec, x0).gradient.asnumpy().astype(np.float64)
    d = -g * 2.0 ** -rng.randint(0, 4)
    kw = {}
    c1 = rng.choice([1e-4, 1e-4, 2.0 ** -13, 0.01, 0.1, 0.25, 0.45])
    c2 = rng.choice([0.9, 0.9, 0.7, 0.5, 0.3, 0.95])
    if c1 < c2:
        kw["c1"], kw["c2"] = c1, c2
    r = rng.random()
    if r < 0.5:
        nrm = float(np.linalg.norm(d)) or 1.0
        kw["preferred_initial_step_size"] = 2.0 ** -rng.randint(0, 5) / nrm * rng.choice([1.0, 1.0, 4.0])
    if rng.random() < 0.15:
        kw["max_step_size"] = rng.choice([64.0, 16.0, 1e3])
    return dict(kind="ls", energy=spec, x0=x0, d=[float(v) for v in d], dkind="profile:" + family, ls=kw,
                fkm1=None, longest=None)


ADV_TARGETS = ["s1curv", "s1armijo", "zcurv", "zarmijo", "zinterval"]


def gen_lsadv_case(rng, target=None):
    """adversarial scripted oracle aimed at one decision of the line search: the answers sit just on either side of the
    threshold *and of the thresholds a wrong reference quantity would give* (slope/value of the previous trial, of
    alpha_lo, ...), after a history in which those reference quantities differ from the ones at the start."""
    target = target or rng.choice(ADV_TARGETS)
    dphi0 = -rng.choice([1.0, 1.0, 0.5, 2.0])
    c1 = rng.choice([2.0 ** -13, 2.0 ** -10, 0.0625, 0.25])
    c2 = rng.choice([0.5, 0.75, 0.875, 0.9, 0.25])
    a1 = rng.choice([1.0, 0.5, 0.25])
    kw = dict(c1=c1, c2=c2, preferred_initial_step_size=a1, max_iterations=rng.choice([4, 6, 10, 100]),
              max_zoom_iterations=rng.choice([3, 5, 10, 100]))
    script, slopes = [], [dphi0]
    eps = rng.choice([0.9, 0.95, 1.05, 1.1, 0.5, 1.5])
    a, f = a1, 0.0

    def armijo_line(alpha):
        return c1 * alpha * dphi0

    if target in ("s1curv", "s1armijo"):
        # bracketing stage: k doublings with slopes steeper/flatter than at the start, values well below the Armijo line
        for _ in range(rng.randint(1, 4)):
            sl = dphi0 * rng.choice([1.5, 2.0, 4.0, 8.0, 1.0, 0.999])
            if abs(sl) <= c2 * abs(dphi0):
                sl = 2.0 * dphi0
            f = min(f, armijo_line(a)) - rng.choice([0.25, 0.5, 1.0])
            script.append([f, sl])
            slopes.append(sl)
            a *= 2
        if target == "s1curv":
            ref = rng.choice(slopes)
            d = c2 * abs(ref) * eps * rng.choice([-1.0, -1.0, 1.0])
            script.append([min(f, armijo_line(a)) - rng.choice([0.25, 0.5]), d])
        else:
            ref_val = rng.choice([armijo_line(a), f, f + armijo_line(a), armijo_line(a / 2)])
            script.append([ref_val + rng.choice([0.0, 2.0 ** -20, -2.0 ** -20, 0.125, -0.125]),
                           dphi0 * rng.choice([2.0, 0.1, -0.1])])
    elif target == "zarmijo" and rng.random() < 0.6:
        # values hugging the Armijo line: in the band between the line at alpha_j and the line at a *stale* step
        # length (alpha_lo): needs a large c1, and alpha_lo either 0 or the first interpolated step (computed here as
        # the code does: minimiser of the quadratic through (0, phi0, phi'0), (a1, phi_hi), else bisection)
        c1 = rng.choice([0.0625, 0.25, 0.45])
        c2 = rng.choice([0.5, 0.75, 0.9])
        kw.update(c1=c1, c2=c2)
        phi_hi = rng.choice([1.0, 0.5, 0.25, 4.0])
        script.append([phi_hi, 0.0])
        tiny = 2.0 ** -rng.randint(8, 20)
        if rng.random() < 0.5:
            script.append([-tiny, dphi0 * rng.choice([0.0, 0.1 * c2, -0.1 * c2])])
        else:
            B = (phi_hi - dphi0 * a1) / (a1 * a1)
            aq = -dphi0 / (2.0 * B)
            if not (0.1 * a1 <= aq <= 0.9 * a1):
                aq = 0.5 * a1
            f1 = c1 * aq * dphi0 - tiny
            script.append([f1, dphi0 * rng.choice([2.0, 4.0])])
            script.append([f1 - tiny / 4, dphi0 * rng.choice([0.0, 0.1 * c2, -0.1 * c2])])
        f = -1.0
    else:
        # enter _zoom at once (Armijo fails at the first trial), then move alpha_lo a few times with steep slopes
        script.append([rng.choice([1.0, 0.5, 4.0]), 0.0])
        lo_slopes = []
        for _ in range(rng.randint(1, 3)):
            f = f - rng.choice([0.25, 0.5, 1.0])
            sl = dphi0 * rng.choice([2.0, 4.0, 8.0, 1.5]) * rng.choice([1.0, 1.0, -1.0])
            script.append([f + armijo_line(a1), sl])
            lo_slopes.append(sl)
        if target == "zcurv":
            ref = rng.choice(lo_slopes + [dphi0])
            script.append([f - 0.25 + armijo_line(a1), c2 * abs(ref) * eps * rng.choice([-1.0, 1.0])])
        elif target == "zarmijo":
            ref_val = rng.choice([f + armijo_line(a1), armijo_line(a1), armijo_line(a1 / 2), f])
            script.append([ref_val + rng.choice([0.0, 2.0 ** -20, -2.0 ** -20, 0.125, -0.125]),
                           dphi0 * rng.choice([2.0, -2.0, 0.1])])
        else:
            for _ in range(rng.randint(2, 4)):
                up = rng.random() < 0.4
                f2 = f + 0.125 if up else f - 0.125
                if not up:
                    f = f2
                script.append([f2 + armijo_line(a1), dphi0 * rng.choice([2.0, -2.0, 4.0, -4.0])])
    # tail: a point that ends the search successfully if it gets that far, then arbitrary answers
    for _ in range(rng.randint(0, 4)):
        f = f - 0.0625
        script.append([f + armijo_line(8 * a), rng.choice([0.0, 0.1 * c2 * dphi0, 4.0 * dphi0, -4.0 * dphi0])])
    return dict(kind="lsscript", phi0=0.0, dphi0=dphi0, script=script, default=[f - 1.0 + armijo_line(64 * a), 0.0],
                ls=kw, fkm1=None, longest=None, dkind="adversarial:" + target)


def gen_min_case(rng):
    if rng.random() < 0.3:
        # non-convex profile energies (ramps, rational wells, ripples): multi-trial line searches inside the runs
        pc = gen_profile_case(rng)
        spec, x0 = pc["energy"], pc["x0"]
    else:
        spec = gen_energy(rng)
        x0 = gen_start(rng, spec, box_ok=False)
    if rng.random() < 0.15:
        r = max(abs(v) for v in x0) + rng.choice([0.5, 1.0, 2.0])
        spec["box"] = [r, rng.choice(["nan", "huge", "inf"])]
    mini = rng.choice(I.MINIMIZERS)
    kw = gen_ls_params(rng)
    kw.pop("max_iterations", None) if rng.random() < 0.7 else None
    if kw.get("preferred_initial_step_size") == 0.0:
        kw.pop("preferred_initial_step_size")
    return dict(kind="min", energy=spec, x0=x0, minimizer=mini, ls=kw, tol=rng.choice([1e-8, 1e-4, 1e-2]),
                limit=rng.choice([1, 2, 3, 5, 8, 12, 20, 30]), clvl=rng.choice([1, 1, 2]),
                maxhist=rng.choice([1, 2, 3, 5]))


def gen_script_case(rng):
    nsteps = rng.randint(0, 7)
    v = rng.randint(-3, 6)
    e0 = [str(v), rng.random() < 0.08]
    searches, checks = [], []
    for _ in range(nsteps):
        r = rng.random()
        nv = v - rng.randint(1, 3) if r < 0.72 else (v if r < 0.84 else v + rng.randint(1, 2))
        if rng.random() < 0.15:
            nv = Fraction(nv) + Fraction(rng.randint(-3, 3), 8)
        searches.append([str(nv), rng.random() < 0.1, rng.random() < 0.7])
        checks.append(rng.choice([1, 1, 1, 1, 1, 0, 2]))
        if nv < v:
            v = nv
    start = rng.choice([1, 1, 1, 1, 1, 1, 0, 2])
    return dict(kind="script", start=start, e0=e0, searches=searches, checks=checks)


def gen_twins_case(rng):
    n = rng.choice([1, 2, 3, 4, 6])
    m = rng.choice([1, 2, 3, 5])
    npts = rng.randint(1, 3 * m + 3)
    mode = rng.choice(["quad", "quad", "free"])
    pts = []
    if mode == "quad":
        M = [[rng.randint(-2, 2) for _ in range(n)] for _ in range(n)]
        A = np.array([[sum(M[k][i] * M[k][j] for k in range(n)) + (2 if i == j else 0) for j in range(n)]
                      for i in range(n)], dtype=float)
        b = np.array([_dy(rng, -16, 16, 4) for _ in range(n)])
    x = np.array([_dy(rng) for _ in range(n)])
    for _ in range(npts):
        if mode == "quad":
            g = A @ x - b
        else:
            g = np.array([_dy(rng) or 0.5 for _ in range(n)])
        if not g.any():
            g[0] = 1.0
        pts.append(dict(x=[float(v) for v in x], g=[float(v) for v in g], reset=rng.random() < 0.12))
        step = np.array([_dy(rng, -16, 16, 16) for _ in range(n)])
        if not step.any():
            step[0] = 0.25
        x = x + step
    pts[0]["reset"] = False
    return dict(kind="twins", n=n, maxhist=m, points=pts, mode=mode)


# =========================================================================================================
# per-stream: run the real code, build model lines, compare
# =========================================================================================================

class Batch:
    """collects (line, callback) pairs; one driver call at the end"""

    def __init__(self):
        self.lines = []
        self.cbs = []

    def add(self, line, cb):
        self.lines.append(line)
        self.cbs.append(cb)

    def flush(self, ctx):
        outs = ctx.model(DRIVER, self.lines)
        for o, cb in zip(outs, self.cbs):
            cb(o)
        self.lines, self.cbs = [], []


def _ls_compare(ctx, case, line, impl, rec, note, nontrivial):
    def cb(model):
        if "reject" in model or canon_ne(impl, model):
            if I.ls_margin(case, rec) < Fraction(1, 10 ** 9):
                ctx.skipped_near_threshold += 1
                ctx.case(case, False)
                return
        if "reject" in model and model["reject"].startswith("unsupported"):
            ctx.stat("ls:unsupported-by-model")
            ctx.case(case, False)
            return
        ctx.traces_validated += 1
        ctx.compare(case, impl, model, note=note, nontrivial=nontrivial)
    return cb


def canon_ne(a, b):
    return json.dumps(a, sort_keys=True) != json.dumps(b, sort_keys=True)


def do_ls(ctx, batch, case):
    """stream `ls`: real line search -> trace -> checker; oracle on the real result"""
    run = I.run_line_search(case)
    rec = run["rec"]
    impl = run["outcome"]
    ctx.stat("ls:dir=" + case.get("dkind", "scripted-oracle" if case.get("kind") == "lsscript" else "?"))
    ctx.stat("ls:n_evals=" + (str(len(rec.events)) if len(rec.events) < 6 else "6+"))
    ctx.stat("ls:outcome=" + ("raised:" + impl["raised"] if "raised" in impl else
                              ("success" if impl["ret"]["success"] else "fail")))
    if any(isinstance(e[1], str) for e in rec.events):
        ctx.stat("ls:branch=fpe-backtrack")
    if any((not isinstance(e[1], str)) and e[1] is not None and not math.isfinite(e[1]) for e in rec.events):
        ctx.stat("ls:branch=nonfinite-backtrack")
    if any(e[2] is None and not isinstance(e[1], str) and e[1] is not None and math.isfinite(e[1]) and
           abs(e[1]) <= 1e100 for e in rec.events):
        ctx.stat("ls:branch=zoom")
    nd, nz = I.trace_shape(rec)
    if nd >= 2:
        ctx.stat("ls:shape=stage1-doublings>=2")
    if nz >= 2:
        ctx.stat("ls:shape=zoom-interpolations>=2")
    if nd >= 1 and nz >= 1:
        ctx.stat("ls:shape=doubling-then-zoom")
    r = oracle_ls(case, run)
    if r:
        ctx.counterexample(case, *r)
    line = I.ls_model_line(case, rec, run["pk"])
    if line is None:
        ctx.stat("ls:not-modelled(non-finite start or slope)")
        ctx.case(case, False)
        return
    batch.add(line, _ls_compare(ctx, case, line, impl, rec,
                                "LineSearch.perform_line_search vs trace checker runLS", len(rec.events) > 0))


def oracle_ls(case, run=None):
    run = run or I.run_line_search(case)
    if "raised" in run["outcome"]:
        return None
    if run["alpha"] is None:
        return ("line search returned an energy object that is neither the start nor one it evaluated",
                {"site": "LineSearch", "kind": "foreign-energy"})
    if not run["success"]:
        return None
    if case.get("kind") == "lsscript":
        return script_wolfe(case, run)
    return I.exact_wolfe(case, run)


def script_wolfe(case, run):
    """strong Wolfe on what the scripted oracle answered at the returned energy object (exact rationals)"""
    ret = run["ret"]
    f, d = float(ret.value), float(ret.gradient.asnumpy()[0])
    a = float(ret.position.asnumpy()[0])
    ls = case["ls"]
    c1, c2 = Fraction(float(ls.get("c1", 1e-4))), Fraction(float(ls.get("c2", 0.9)))
    phi0, dphi0 = Fraction(case["phi0"]), Fraction(case["dphi0"])
    if not (math.isfinite(f) and math.isfinite(d)):
        return None    # NaN answered *inside* _zoom's bracket: not a smooth energy; outside the model (design.d/C16.md)
    if not dphi0 < 0:
        return ("success although phi'(0) is not negative", {"site": "LineSearch", "kind": "not-descent"})
    tol = Fraction(1, 10 ** 9)
    rhs = phi0 + c1 * Fraction(a) * dphi0
    if Fraction(f) > rhs + tol * (abs(Fraction(f)) + abs(phi0) + abs(c1 * Fraction(a) * dphi0)):
        return (f"sufficient decrease violated at the returned point: phi({a})={f} > {float(rhs)}",
                {"site": "LineSearch", "kind": "wolfe1"})
    if abs(Fraction(d)) > c2 * abs(dphi0) * (1 + tol):
        return (f"curvature condition violated at the returned point: |phi'({a})|={abs(d)} > {float(c2 * abs(dphi0))}",
                {"site": "LineSearch", "kind": "wolfe2"})
    return None


def min_oracle(case, log):
    """the property on the real run: no accepted step increases the energy; status is CONVERGED or ERROR"""
    if "error" in log:
        return None
    vals = [log["start_value"]] + [v for _, v in log["checks"]]
    if not all(math.isfinite(v) for v in vals + [log["value"]]):
        return None     # NaN/inf energies: `nan > x` is False in the code as upstream; outside the model (see design.d)
    for i in range(1, len(vals)):
        if not vals[i] <= vals[i - 1]:
            return (f"{case['minimizer']} accepted a step from energy {vals[i-1]!r} to {vals[i]!r}",
                    {"site": "DescentMinimizer.__call__", "kind": "accepted-increase"})
    if not log["value"] <= min(vals):
        return (f"{case['minimizer']} returned energy {log['value']!r} above an accepted value {min(vals)!r}",
                {"site": "DescentMinimizer.__call__", "kind": "returned-above-accepted"})
    if log["status"] not in (0, 2):
        return (f"{case['minimizer']} returned status {log['status']}",
                {"site": "DescentMinimizer.__call__", "kind": "status"})
    return None


def do_min(ctx, batch, case):
    log = I.run_minimizer(case)
    ctx.stat("min:" + case["minimizer"])
    ctx.stat("min:family=" + case["energy"]["family"])
    if "error" in log:
        ctx.stat("min:raised=" + log["error"])
    else:
        ctx.stat("min:status=%d" % log["status"])
        ctx.stat("min:steps=" + (str(len(log["checks"])) if len(log["checks"]) < 4 else "4+"))
    r = min_oracle(case, log)
    if r:
        ctx.counterexample(case, *r)
    # (a) every inner line search is a trace for the checker (+ exact Wolfe oracle)
    for k, s in enumerate(log["searches"]):
        rec = s.get("rec")
        if rec is None or rec.ev0 is None:
            continue
        sub = dict(kind="ls", energy=case["energy"], x0=[float(v) for v in s["x"]], d=[float(v) for v in s["d"]],
                   ls=case["ls"], fkm1=s["fkm1"], longest=None, dkind=case["minimizer"])
        if "raised" in s:
            impl = {"raised": s["raised"]}
        else:
            impl = {"ret": {"success": s["success"],
                            "alpha": I.frac(s["alpha"]) if s["alpha"] is not None else "unknown-object"}}
        pk = s["pk"] if s.get("pk") is not None else I.field(case["energy"]["n"], s["d"])
        line = I.ls_model_line(sub, rec, pk)
        ctx.stat("ls(in-min):outcome=" + ("raised" if "raised" in s else ("success" if s["success"] else "fail")))
        if line is None:
            continue
        batch.add(line, _ls_compare(ctx, sub, line, impl, rec,
                                    "LineSearch inside a minimiser run vs trace checker runLS", len(rec.events) > 0))
        if k < 3 and "raised" not in s and s["success"]:
            r = oracle_ls(sub)
            if r:
                ctx.counterexample(sub, *r)
    # (b) acceptance loop: replay the recorded oracle answers through Descent.minimize
    if "error" not in log:
        if all(math.isfinite(s["value_out"]) for s in log["searches"]) and math.isfinite(log["start_value"]):
            searches = [[I.frac(s["value_out"]), s["gz_out"], s["success"]] for s in log["searches"]]
            line = dict(op="descent", start=log["start"], e0=[I.frac(log["start_value"]), log["gz0"]],
                        searches=searches, checks=[c for c, _ in log["checks"]])
            impl = dict(status=log["status"], value=I.frac(log["value"]),
                        accepted=[I.frac(v) for _, v in log["checks"]],
                        resets=len([r for r in log["resets"] if r > 0]),
                        fprevs=[None if s["fkm1"] is None else I.frac(s["fkm1"]) for s in log["searches"]],
                        nsearch=len(log["searches"]), nchecks=len(log["checks"]))
            batch.add(line, lambda m, impl=impl: ctx.compare(
                case, impl, m, note="DescentMinimizer.__call__ (real run) vs Descent.minimize on the recorded oracle answers",
                nontrivial=len(log["searches"]) > 0))
        else:
            ctx.stat("min:non-finite-energy(not modelled)")
    # (b') direction rules with a closed form: SteepestDescent is exactly -g [class E]; RelaxedNewton is -g/metric for
    #      the diagonal metric of PolyEnergy [class T]
    if case["minimizer"] in ("SteepestDescent", "RelaxedNewton"):
        for k, dlog in enumerate(log["dirs"]):
            g, d = dlog["g"], dlog["d"]
            if not (np.isfinite(g).all() and np.isfinite(d).all()):
                continue
            if case["minimizer"] == "SteepestDescent":
                ok = bool(np.array_equal(d, -g))
                want = -g
            else:
                h = np.array(I.poly_diag_hess(case["energy"]["terms"], [float(v) for v in dlog["x"]]))
                want = -g / (np.abs(h) + 0.5)
                ok = bool(np.max(np.abs(d - want)) <= 1e-12 * max(np.max(np.abs(want)), 1e-300))
            ctx.stat("min:direction-rule-checked")
            if not ok:
                ctx.disagree(case, {"direction": d.tolist(), "call": k}, {"direction": want.tolist(), "call": k},
                             f"{case['minimizer']}.get_descent_direction vs its closed form")
                break
    # (c) L-BFGS twins on the history this run produced
    if case["minimizer"] in ("L_BFGS", "VL_BFGS") and log["dirs"]:
        pts, nres = [], 0
        for dlog in log["dirs"]:
            pts.append(dict(x=[float(v) for v in dlog["x"]], g=[float(v) for v in dlog["g"]],
                            reset=dlog["nreset"] > nres and len(pts) > 0))
            nres = dlog["nreset"]
        if all(np.isfinite(p["g"]).all() for p in pts):
            tw = dict(kind="twins", n=case["energy"]["n"], maxhist=case["maxhist"], points=pts, mode="run")
            do_twins(ctx, batch, tw, recorded=[d["d"] for d in log["dirs"]], which=case["minimizer"])


def do_script(ctx, batch, case):
    impl, log, _ = I.run_script(case)
    ctx.stat("script:" + ("error=" + impl["error"] if "error" in impl else "status=%d" % impl["status"]))
    r = oracle_script(case, (impl, log))
    if r:
        ctx.counterexample(case, *r)
    line = dict(op="descent", start=case["start"], e0=case["e0"], searches=case["searches"], checks=case["checks"])
    batch.add(line, lambda m: ctx.compare(case, impl, m, note="DescentMinimizer.__call__ (scripted oracles) vs Descent.minimize",
                                          nontrivial=log["nsearch"] > 0))


def oracle_script(case, res=None):
    impl, log = res or I.run_script(case)[:2]
    if "error" in impl:
        return None
    vals = [Fraction(case["e0"][0])] + [Fraction(v) for v in log["accepted"]]
    for i in range(1, len(vals)):
        if not vals[i] <= vals[i - 1]:
            return (f"DescentMinimizer accepted a step from energy {vals[i-1]} to {vals[i]}",
                    {"site": "DescentMinimizer.__call__", "kind": "accepted-increase"})
    if not Fraction(impl["value"]) <= min(vals):
        return (f"DescentMinimizer returned energy {impl['value']} above an accepted value {min(vals)}",
                {"site": "DescentMinimizer.__call__", "kind": "returned-above-accepted"})
    if impl["status"] not in (0, 2):
        return (f"DescentMinimizer returned status {impl['status']}",
                {"site": "DescentMinimizer.__call__", "kind": "status"})
    return None


def _dir_dev(a, b, g):
    a, b = np.asarray(a, float), np.asarray(b, float)
    sc = max(np.max(np.abs(a)), np.max(np.abs(b)), 1e-300)
    return float(np.max(np.abs(a - b)) / sc)


def oracle_twins(case, dirs=None):
    dl, dv = dirs or I.run_twins(case)
    for k, (a, b) in enumerate(zip(dl, dv)):
        if isinstance(a, str) or isinstance(b, str):
            if isinstance(a, str) and isinstance(b, str):
                return None
            if isinstance(a, str) and not np.isfinite(b).all():
                return None   # ZeroDivisionError in one, inf/nan in the other: the same degenerate history; the
                              # exception leaves L_BFGS half-updated, later calls are not comparable
            return (f"call {k}: L_BFGS -> {a if isinstance(a, str) else 'direction'}, VL_BFGS -> "
                    f"{b if isinstance(b, str) else 'direction'}", {"site": "L_BFGS/VL_BFGS", "kind": "error-mismatch"})
        if not (np.isfinite(a).all() and np.isfinite(b).all()):
            return None
        dev = _dir_dev(a, b, case["points"][k]["g"])
        if dev > TOL_T:
            return (f"call {k} (max_history_length={case['maxhist']}): L_BFGS direction {a.tolist()} != VL_BFGS direction "
                    f"{b.tolist()} (relative deviation {dev:.3e})", {"site": "L_BFGS/VL_BFGS", "kind": "direction-mismatch"})
    return None


def do_twins(ctx, batch, case, recorded=None, which=None):
    dirs = I.run_twins(case)
    npts, m = len(case["points"]), case["maxhist"]
    ctx.stat("twins:mode=" + case.get("mode", "?"))
    ctx.stat("twins:wrap" if npts > m + 1 else "twins:no-wrap")
    if any(p.get("reset") for p in case["points"]):
        ctx.stat("twins:with-reset")
    r = oracle_twins(case, dirs)
    if r:
        ctx.counterexample(case, *r)
    if recorded is not None:
        # the directions the minimiser run actually used are those of a fresh instance on the same history
        mine = dirs[0] if which == "L_BFGS" else dirs[1]
        for k, (a, b) in enumerate(zip(recorded, mine)):
            if isinstance(b, str) or not (np.isfinite(a).all() and np.isfinite(b).all()):
                continue
            if _dir_dev(a, b, None) > TOL_T:
                ctx.disagree(case, {"run": a.tolist()}, {"replay": b.tolist()},
                             f"{which}: direction used in the run differs from the replay of its own history (call {k})")
    line = dict(op="lbfgs", n=case["n"], maxhist=m,
                points=[dict(x=I.fracs(p["x"]), g=I.fracs(p["g"]), reset=bool(p.get("reset"))) for p in case["points"]])

    def cb(model):
        nontrivial = npts > m or any(p.get("reset") for p in case["points"])
        ctx.case(case, nontrivial)
        if "error" in model:
            ctx.disagree(case, "directions", model, "Lean L-BFGS models rejected the history")
            return
        for name, real, mod in (("L_BFGS", dirs[0], model["l"]), ("VL_BFGS", dirs[1], model["vl"])):
            for k, (a, b) in enumerate(zip(real, mod)):
                if isinstance(a, str) or not np.isfinite(a).all():
                    # s.y = 0: ZeroDivisionError leaves L_BFGS half-updated; exceptions are not modelled
                    ctx.stat("twins:degenerate-call(rest of history not compared)")
                    break
                bf = np.array([float(Fraction(v)) for v in b])
                dev = _dir_dev(a, bf, None)
                ctx.extra["twins_max_dev"] = max(ctx.extra.get("twins_max_dev", 0.0), dev)
                if dev > TOL_T:
                    ctx.disagree(case, {name: a.tolist(), "call": k}, {name: bf.tolist(), "call": k},
                                 f"{name}.get_descent_direction vs Lean model (class T, rel. dev {dev:.3e})")
                    return
    batch.add(line, cb)


# =========================================================================================================
# entry points
# =========================================================================================================

def oracle(case):
    k = case.get("kind")
    if k in ("ls", "lsscript"):
        return oracle_ls(case)
    if k == "min":
        return min_oracle(case, I.run_minimizer(case))
    if k == "script":
        return oracle_script(case)
    if k == "twins":
        return oracle_twins(case)
    return None


def shrink(case):
    k = case.get("kind")
    if k == "ls" or k == "min":
        terms = case["energy"]["terms"]
        for i in range(len(terms)):
            c = copy.deepcopy(case)
            del c["energy"]["terms"][i]
            if c["energy"]["terms"]:
                yield c
        for key in list(case["ls"].keys()):
            c = copy.deepcopy(case)
            del c["ls"][key]
            yield c
        if case["energy"].get("box"):
            c = copy.deepcopy(case)
            c["energy"]["box"] = None
            yield c
        if k == "min" and case["limit"] > 1:
            c = copy.deepcopy(case)
            c["limit"] = case["limit"] - 1
            yield c
    elif k == "lsscript":
        for i in range(len(case["script"]) - 1, -1, -1):
            c = copy.deepcopy(case)
            del c["script"][i]
            yield c
        for key in list(case["ls"].keys()):
            c = copy.deepcopy(case)
            del c["ls"][key]
            yield c
    elif k == "script":
        for i in range(len(case["searches"])):
            c = copy.deepcopy(case)
            del c["searches"][i]
            del c["checks"][min(i, len(c["checks"]) - 1)]
            yield c
    elif k == "twins":
        pts = case["points"]
        for i in range(len(pts) - 1, -1, -1):
            c = copy.deepcopy(case)
            del c["points"][i]
            if c["points"]:
                c["points"][0]["reset"] = False
                yield c
        if case["n"] > 1:
            c = copy.deepcopy(case)
            c["n"] -= 1
            for p in c["points"]:
                p["x"], p["g"] = p["x"][:-1], p["g"][:-1]
            if all(any(p["g"]) for p in c["points"]):
                yield c


def _dispatch(ctx, batch, case):
    k = case.get("kind")
    {"ls": do_ls, "lsscript": do_ls, "min": do_min, "script": do_script, "twins": do_twins}[k](ctx, batch, case)


def run(ctx):
    I.nifty()
    batch = Batch()
    for path in sorted(glob.glob(os.path.join(VERIF, "corpus", ID, "*.json"))):
        rec = json.load(open(path))
        _dispatch(ctx, batch, rec.get("case", rec))
        ctx.stat("corpus")
    rounds = ctx.n(1, 10)          # thorough: 10 batches of the quick size with fresh draws
    for _ in range(rounds):
        for _ in range(120):
            do_ls(ctx, batch, gen_profile_case(ctx.rng))
        for _ in range(160):
            do_ls(ctx, batch, gen_ls_case(ctx.rng))
        for _ in range(300):
            do_ls(ctx, batch, gen_lsscript_case(ctx.rng))
        for _ in range(250):
            do_ls(ctx, batch, gen_lsadv_case(ctx.rng))
        for _ in range(40):
            do_min(ctx, batch, gen_min_case(ctx.rng))
        for _ in range(400):
            do_script(ctx, batch, gen_script_case(ctx.rng))
        for _ in range(50):
            do_twins(ctx, batch, gen_twins_case(ctx.rng))
        batch.flush(ctx)


REJECT_TARGETS = [      # which decision of the code a rejected trace points at -> directed generators for it
    ("main: derivative evaluated although _zoom", ["s1armijo"]),
    ("main: derivative not evaluated", ["s1armijo"]),
    ("evaluations recorded after the code would have returned", ["s1curv", "zcurv"]),
    ("trace ends inside the main loop", ["s1curv", "s1armijo"]),
    ("trace ends inside _zoom", ["zcurv", "zarmijo"]),
    ("zoom: derivative", ["zarmijo"]),
    ("zoom: alpha_j outside", ["zinterval", "zarmijo"]),
    ("main: step length", ["s1curv", "s1armijo"]),
]


def search_targets(ctx):
    """read the broken correspondences: which stream, and for rejected line-search traces which branch of runLS"""
    streams, targets = set(), []
    for d in ctx.disagreements:
        note = d.get("note", "")
        if "LineSearch" in note:
            streams.add("ls")
            m = d.get("model") or {}
            reason = m.get("reject", "") if isinstance(m, dict) else ""
            hit = False
            for key, tg in REJECT_TARGETS:
                if reason.startswith(key):
                    targets += tg
                    hit = True
            if not hit:       # accepted, but another verdict / step: any decision may be the culprit
                targets += ADV_TARGETS
        elif "DescentMinimizer" in note:
            streams.add("script")
        elif "descent_direction" in note or "L_BFGS" in note or "twins" in note:
            streams.add("twins")
        else:
            streams.add("min")
    return streams, targets


def search(ctx):
    """targeted search on the real code only (used when a proof / the correspondence broke): aims the directed
    generators at the decision whose replay failed, then falls back to all streams"""
    streams, targets = search_targets(ctx)
    ctx.extra["search_targets"] = sorted(set(targets)) + sorted(streams)
    rng = ctx.rng

    def attempt(case):
        try:
            r = oracle(case)
        except Exception:  # noqa: BLE001
            return False
        if r:
            ctx.counterexample(case, *r)
            return True
        return False

    if "ls" in streams or not streams:
        tg = targets or ADV_TARGETS
        for i in range(ctx.n(20000, 80000)):
            case = gen_lsadv_case(rng, rng.choice(tg)) if i % 3 else gen_profile_case(rng)
            if attempt(case):
                return
    gens = []
    if "script" in streams or not streams:
        gens.append(gen_script_case)
    if "twins" in streams or not streams:
        gens.append(gen_twins_case)
    if "min" in streams or not streams:
        gens.append(gen_min_case)
    gens += [gen_ls_case, gen_lsscript_case]
    for i in range(ctx.n(800, 5000)):
        if attempt(gens[i % len(gens)](rng)):
            return
