"""File-system fault injector for the crash/resume properties (C24, C25) — group helper of branch `crash`.

Inside a (sub)process that runs the REAL driver it wraps
    builtins.open / io.open (write handles are proxied: every write() is passed through and flushed),
    os.replace / os.rename / os.remove / os.unlink / pathlib.Path.unlink / os.makedirs / os.mkdir / os.rmdir,
    h5py.File (opaque: one `h5open` and one `h5close` op),
and, for every call that touches a path under `root`,
  (1) RECORDS the operation (JSON line, path relative to root) into a log file outside root (written with os.write on
      a private fd, so the log survives the kill), numbering the *mutating* operations 0,1,2,…;
      non-mutating accesses (open for reading, isfile/isdir/exists/listdir) are logged as queries `{"q":…}` — they
      give the read-set of the resume logic;
  (2) KILLS the process with os._exit(EXIT_KILLED) immediately `before` or `after` the k-th mutating operation, or in
      the middle of it (`partial`: only a prefix of the bytes of that `flush` reaches the file).
Nothing of the process survives a kill (no finally/atexit/flush) — exactly like SIGKILL.  Write handles are buffered like
Python file objects (see _WFile): write() = op `write` (data in the process' buffer, lost by a kill), the data reaches the
file in the op `flush` issued by close()/flush(); ops per written file: openw|opena, write…, flush, close.

Usage as a program (this is what the property modules start through `run_worker`):
    python _crash_fsfault.py <job.json>
job = {root, log, target: "props.c24:worker", args: {...}, kill_at: k|null, when: before|after|partial,
       frac: [p,q], repo: path}.  The injector is installed BEFORE the target module (and hence nifty) is imported, so
`from os import makedirs`-style bindings are caught as well.  Exit codes: 0 finished, EXIT_KILLED killed at the
requested point, EXIT_ERROR the target raised (the exception kind is in <log>.err).
"""
import builtins
import io
import json
import os
import sys

EXIT_KILLED = 77
EXIT_ERROR = 78

_MUTATING_MODES = set("wax+")


class Killed(BaseException):
    """simulated kill (Injector(sim=True)): raised at the kill point instead of os._exit; from then on the injector is
    `dead`: every further file-system mutation below root is suppressed (it raises Killed again, writes are dropped), so
    the directory is exactly what a real kill would have left, whatever `finally`/`__exit__` handlers still run.
    BaseException: `except Exception` handlers of the driver do not catch it.  The equivalence with a real kill
    (os._exit) is cross-checked by the property modules on a sample of kill points (same directory snapshot)."""


class Injector:
    def __init__(self, root, log=None, kill_at=None, when="before", frac=(1, 2), keep_bytes=48, sim=False):
        self.sim = sim
        self.dead = False
        self.root = os.path.realpath(root)
        self.roots = sorted({self.root, os.path.normpath(os.path.abspath(root))})
        self.kill_at = kill_at
        self.when = when
        self.frac = tuple(frac)
        self.keep = keep_bytes
        self.count = 0           # number of mutating ops seen so far
        self.depth = 0           # re-entrancy guard (makedirs -> mkdir, Path.unlink -> os.unlink)
        self.events = []         # in-memory copy (used when no kill is requested)
        self._orig = {}
        self._rebound = []
        self._exists, self._isdir, self._lexists = os.path.exists, os.path.isdir, os.path.lexists
        self._logfd = None
        if log is not None:
            self._logfd = os.open(log, os.O_WRONLY | os.O_CREAT | os.O_TRUNC, 0o644)

    # ------------------------------------------------------------------------------------------ paths / logging
    def rel(self, path):
        """path relative to root, or None if the path is not under root"""
        try:
            p = os.fspath(path)
        except TypeError:
            return None
        if isinstance(p, bytes):
            p = p.decode()
        if not isinstance(p, str):
            return None
        a = os.path.normpath(os.path.join(os.getcwd(), p))
        for r in self.roots:
            if a == r:
                return "."
            if a.startswith(r + os.sep):
                return a[len(r) + 1:]
        return None

    def _emit(self, ev):
        self.events.append(ev)
        if self._logfd is not None:
            os.write(self._logfd, (json.dumps(ev, sort_keys=True) + "\n").encode())

    def query(self, kind, rp, **kw):
        self._emit(dict(q=kind, path=rp, **kw))

    def _die(self, note):
        self._emit(dict(killed=note, at=self.kill_at, when=self.when))
        if self.sim:
            self.dead = True
            raise Killed(note)
        if self._logfd is not None:
            os.fsync(self._logfd)
        os._exit(EXIT_KILLED)

    def op(self, kind, rp, perform, **kw):
        """record mutating op number self.count, kill before/after it if requested; returns perform()"""
        if self.dead:
            raise Killed("dead")
        k = self.count
        self.count += 1
        if self.kill_at == k and self.when == "before":
            self._die(f"before {kind} {rp}")
        self._emit(dict(i=k, op=kind, path=rp, **kw))
        res = perform()
        if self.kill_at == k and self.when == "after":
            self._die(f"after {kind} {rp}")
        return res

    # ------------------------------------------------------------------------------------------ wrappers
    def _w_open(self, orig):
        inj = self

        def _open(file, mode="r", *a, **kw):
            rp = inj.rel(file) if not isinstance(file, int) else None
            if rp is None or inj.depth:
                return orig(file, mode, *a, **kw)
            if not (set(mode) & _MUTATING_MODES):
                inj.query("read", rp, exists=inj._exists(file))
                return orig(file, mode, *a, **kw)
            kind = "opena" if "a" in mode else ("openw" if "w" in mode or "x" in mode else "openrw")
            existed = inj._exists(file)
            inj.depth += 1
            try:
                fobj = inj.op(kind, rp, lambda: orig(file, mode, *a, **kw), mode=mode, existed=existed)
            finally:
                inj.depth -= 1
            return _WFile(inj, fobj, rp, "b" in mode)
        return _open

    def _w_path1(self, name, orig, kind):
        inj = self

        def f(path, *a, **kw):
            rp = inj.rel(path)
            if rp is None or inj.depth:
                return orig(path, *a, **kw)
            extra = {}
            if kind in ("makedirs", "mkdir"):
                extra["new"] = not inj._isdir(path)
            if kind in ("remove",):
                extra["existed"] = inj._lexists(path)
            inj.depth += 1
            try:
                return inj.op(kind, rp, lambda: orig(path, *a, **kw), **extra)
            finally:
                inj.depth -= 1
        f.__name__ = name
        return f

    def _w_path2(self, name, orig, kind):
        inj = self

        def f(src, dst, *a, **kw):
            rs, rd = inj.rel(src), inj.rel(dst)
            if (rs is None and rd is None) or inj.depth:
                return orig(src, dst, *a, **kw)
            inj.depth += 1
            try:
                return inj.op(kind, rs if rs is not None else "<outside>", lambda: orig(src, dst, *a, **kw),
                              dst=rd if rd is not None else "<outside>", dst_existed=inj._lexists(dst))
            finally:
                inj.depth -= 1
        f.__name__ = name
        return f

    def _w_query(self, name, orig):
        inj = self

        def f(path, *a, **kw):
            res = orig(path, *a, **kw)
            if not inj.depth:
                rp = inj.rel(path) if not isinstance(path, int) else None
                if rp is not None:
                    inj.query(name, rp, res=(sorted(res) if name == "listdir" else bool(res)))
            return res
        f.__name__ = name
        return f

    # ------------------------------------------------------------------------------------------ install
    def _patch(self, obj, attr, new):
        old = getattr(obj, attr)
        self._orig[(id(obj), attr)] = (obj, attr, old)
        setattr(obj, attr, new)
        # modules that did `from os import makedirs` / `from os.path import isfile` before we were installed
        for mname, mod in list(sys.modules.items()):
            if mod is None or mod is obj or not (mname.startswith("nifty") or mname.startswith("props.")):
                continue
            d = getattr(mod, "__dict__", None)
            if not d:
                continue
            for k, v in list(d.items()):
                if v is old:
                    self._rebound.append((mod, k, old))
                    setattr(mod, k, new)

    def install(self, opaque_h5=True):
        import pathlib
        o = builtins.open
        w = self._w_open(o)
        self._patch(builtins, "open", w)
        self._patch(io, "open", w)
        for name, kind in (("remove", "remove"), ("unlink", "remove"), ("makedirs", "makedirs"), ("mkdir", "mkdir"),
                           ("rmdir", "rmdir")):
            self._patch(os, name, self._w_path1(name, getattr(os, name), kind))
        for name in ("replace", "rename"):
            self._patch(os, name, self._w_path2(name, getattr(os, name), name))
        for name in ("isfile", "isdir", "exists"):
            self._patch(os.path, name, self._w_query(name, getattr(os.path, name)))
        self._patch(os, "listdir", self._w_query("listdir", os.listdir))
        # pathlib.Path.unlink: in 3.12 it calls os.unlink(self) -> already covered; wrap anyway, guarded by depth
        inj = self
        p_unlink = pathlib.Path.unlink

        def _unlink(pself, missing_ok=False):
            rp = inj.rel(pself)
            if rp is None or inj.depth:
                return p_unlink(pself, missing_ok=missing_ok)
            existed = inj._lexists(pself)
            inj.depth += 1
            try:
                return inj.op("remove", rp, lambda: p_unlink(pself, missing_ok=missing_ok), existed=existed)
            finally:
                inj.depth -= 1
        self._patch(pathlib.Path, "unlink", _unlink)
        if opaque_h5:
            try:
                import h5py
                h_init, h_close = h5py.File.__init__, h5py.File.close

                def _h_init(hself, name, mode="r", *a, **kw):
                    rp = inj.rel(name) if isinstance(name, (str, bytes, os.PathLike)) else None
                    if rp is None or mode in ("r",):
                        return h_init(hself, name, mode, *a, **kw)
                    hself.__dict__["_crash_rp"] = rp
                    inj.depth += 1
                    try:
                        return inj.op("h5open", rp, lambda: h_init(hself, name, mode, *a, **kw), mode=mode)
                    finally:
                        inj.depth -= 1

                def _h_close(hself):
                    rp = hself.__dict__.pop("_crash_rp", None)
                    if rp is None:
                        return h_close(hself)
                    inj.depth += 1
                    try:
                        return inj.op("h5close", rp, lambda: h_close(hself))
                    finally:
                        inj.depth -= 1
                self._patch(h5py.File, "__init__", _h_init)
                self._patch(h5py.File, "close", _h_close)
            except Exception:
                pass
        return self

    def uninstall(self):
        for mod, k, old in self._rebound:
            setattr(mod, k, old)
        for obj, attr, old in self._orig.values():
            setattr(obj, attr, old)
        self._orig.clear()
        self._rebound.clear()
        if self._logfd is not None:
            os.close(self._logfd)
            self._logfd = None


class _WFile:
    """proxy around a real file object opened for writing.  Like a Python file object it BUFFERS: write() only records the
    data (op `write`, no effect on the file); the data reaches the file when the buffer is flushed — at close() (ops `flush`
    then `close`) or at an explicit flush().  A kill between write() and close() therefore loses the data (the file is as
    open() left it), a `partial` kill of a `flush` leaves a prefix.  The buffer is unbounded (CPython flushes every 8 KiB;
    the reachable file contents — prefixes of the written data — are the same, attributed to different operations)."""

    def __init__(self, inj, f, rp, binary):
        self.__dict__.update(_inj=inj, _f=f, _rp=rp, _bin=binary, _closed=False, _buf=[])

    def write(self, data):
        inj = self._inj
        if inj.dead:
            return len(data)
        if not isinstance(data, str):
            data = bytes(data)
        n = len(data)
        head = data[:inj.keep]
        if not isinstance(head, str):
            head = head.decode("latin1")

        def perform():
            self._buf.append(data)
            return n
        return inj.op("write", self._rp, perform, n=n, head=head if n <= inj.keep else None)

    def writelines(self, lines):
        for l in lines:
            self.write(l)

    def _flush_op(self):
        """the buffered data reaches the file (one op; the kill may hit in the middle of it)"""
        inj = self._inj
        if not self._buf:
            return
        data = self._buf[0][:0].join(self._buf)
        n = len(data)
        k = inj.count
        if inj.kill_at == k and inj.when == "partial":
            inj.count += 1
            p, q = inj.frac
            cut = max(1, min(n - 1, (n * p) // q)) if n >= 2 else 0
            if cut > 0:
                self._f.write(data[:cut])
                self._f.flush()
            inj._emit(dict(i=k, op="flush", path=self._rp, n=n, cut=cut))
            inj._die(f"partial flush {self._rp} {cut}/{n}")

        def perform():
            self._f.write(data)
            self._f.flush()
            del self._buf[:]
        inj.op("flush", self._rp, perform, n=n)

    def flush(self):
        if self._inj.dead:
            return None
        self._flush_op()
        return self._f.flush()

    def close(self):
        if self._closed:
            return None
        if self._inj.dead:
            self.__dict__["_closed"] = True
            del self._buf[:]
            return self._f.close()
        self._flush_op()
        self.__dict__["_closed"] = True
        return self._inj.op("close", self._rp, self._f.close)

    def __enter__(self):
        return self

    def __exit__(self, *a):
        self.close()
        return False

    def __getattr__(self, name):
        return getattr(self._f, name)

    def __setattr__(self, name, value):
        setattr(self._f, name, value)

    def __iter__(self):
        return iter(self._f)

    def __del__(self):
        try:
            if not self._closed:
                self._f.close()      # the proxy's own buffer is dropped, like the buffer of a killed process
        except Exception:
            pass


def simulate(fn, root, kill=None):
    """call fn() under a recording injector with a SIMULATED kill (kill = None | dict(at, when, frac)).
    -> dict(status='done'|'killed'|'error', value, exc, ops, queries, killed)"""
    inj = Injector(root, kill_at=None if kill is None else kill["at"], when=(kill or {}).get("when", "before"),
                   frac=(kill or {}).get("frac", (1, 2)), sim=True)
    inj.install()
    out = dict(status="done", value=None, exc=None, killed=None)
    try:
        out["value"] = fn()
    except Killed as e:
        out["status"] = "killed"
    except Exception as e:  # noqa: BLE001 - the kind of failure is the observation
        import traceback
        site = ""
        for fr in reversed(traceback.extract_tb(e.__traceback__)):
            if "/nifty/" in fr.filename:
                site = f"{os.path.basename(fr.filename)}:{fr.name}"
                break
        out.update(status="error", exc=dict(error=type(e).__name__, msg=str(e)[:300], site=site))
    finally:
        inj.dead = False
        inj.uninstall()
    ops, qs = [], []
    for ev in inj.events:
        if "killed" in ev:
            out["killed"] = ev
        elif "q" in ev:
            qs.append(dict(ev, after_op=len(ops)))
        elif "op" in ev:
            ops.append(ev)
    out.update(ops=ops, queries=qs)
    return out


# ------------------------------------------------------------------------------------------------ harness side
def read_log(path):
    """-> (ops, queries, killed) ; ops = mutating ops in order, queries = non-mutating accesses in order"""
    ops, qs, killed = [], [], None
    if not os.path.exists(path):
        return ops, qs, killed
    for line in open(path):
        line = line.strip()
        if not line:
            continue
        try:
            ev = json.loads(line)
        except ValueError:
            continue
        if "killed" in ev or "error" in ev:
            killed = ev
        elif "q" in ev:
            ev["after_op"] = len(ops)
            qs.append(ev)
        else:
            ops.append(ev)
    return ops, qs, killed


def coarse(ops, drop_noop_mkdir=True):
    """canonical coarse op sequence: consecutive writes to the same path merged, as 'kind path[ -> dst]' strings"""
    out = []
    for ev in ops:
        k, p = ev["op"], ev["path"]
        if k in ("makedirs", "mkdir"):
            if drop_noop_mkdir and not ev.get("new", True):
                continue
            s = f"mkdir {p}"
        elif k in ("replace", "rename"):
            s = f"replace {p} -> {ev['dst']}"
        elif k == "remove":
            s = f"remove {p}" if ev.get("existed", True) else f"remove-missing {p}"
        else:
            s = f"{k} {p}"
        if k == "write" and out and out[-1] == s:
            continue
        out.append(s)
    return out


def snapshot(root):
    """{relative path: sha1 of content} of all regular files under root (sorted)"""
    import hashlib
    res = {}
    for d, _, files in os.walk(root):
        for fn in files:
            p = os.path.join(d, fn)
            res[os.path.relpath(p, root)] = hashlib.sha1(open(p, "rb").read()).hexdigest()
    return dict(sorted(res.items()))


def run_worker(job, timeout=600, python=None, env=None):
    """start this file as a program on `job` (a dict, see module docstring). Returns (returncode, stderr tail)."""
    import subprocess
    import tempfile
    python = python or sys.executable
    with tempfile.NamedTemporaryFile("w", suffix=".json", prefix="crashjob_", delete=False) as f:
        json.dump(job, f)
        jp = f.name
    e = dict(os.environ)
    e.setdefault("JAX_PLATFORMS", "cpu")
    e["OMP_NUM_THREADS"] = "1"
    e["OPENBLAS_NUM_THREADS"] = "1"
    e["MKL_NUM_THREADS"] = "1"
    e["XLA_FLAGS"] = "--xla_cpu_multi_thread_eigen=false intra_op_parallelism_threads=1"
    e["MPLBACKEND"] = "Agg"
    if env:
        e.update(env)
    try:
        p = subprocess.run([python, os.path.abspath(__file__), jp], capture_output=True, text=True, timeout=timeout,
                           env=e)
        return p.returncode, (p.stderr or "")[-1500:]
    except subprocess.TimeoutExpired:
        return -9, "timeout"
    finally:
        os.unlink(jp)


def _main(jobpath):
    job = json.load(open(jobpath))
    here = os.path.dirname(os.path.abspath(__file__))
    harness = os.path.dirname(here)
    for p in (job.get("repo") or os.environ.get("NIFTY_REPO", "/repo"), os.path.dirname(harness), harness):
        if p not in sys.path:
            sys.path.insert(0, p)
    inj = Injector(job["root"], log=job.get("log"), kill_at=job.get("kill_at"), when=job.get("when", "before"),
                   frac=job.get("frac", (1, 2)))
    inj.install()
    import importlib
    mname, fname = job["target"].split(":")
    try:
        fn = getattr(importlib.import_module(mname), fname)
        fn(job.get("args", {}))
    except BaseException as e:  # noqa: BLE001 - the kind of failure is the observation
        if isinstance(e, SystemExit):
            raise
        import traceback
        tb = traceback.extract_tb(e.__traceback__)
        site = ""
        for fr in reversed(tb):
            if "/nifty/" in fr.filename:
                site = f"{os.path.basename(fr.filename)}:{fr.name}"
                break
        inj.depth += 1
        with open(job["log"] + ".err", "w") as f:
            json.dump(dict(error=type(e).__name__, msg=str(e)[:300], site=site), f)
        inj._emit(dict(error=type(e).__name__))
        sys.stdout.flush()
        os._exit(EXIT_ERROR)
    sys.stdout.flush()
    sys.stderr.flush()
    os._exit(0)


def _server(preload):
    """fork server ("zygote"): import the heavy modules once, then fork one child per job path read from stdin.
    Only modules whose import starts no computation may be preloaded (jax yes, nifty.re no: it initialises the XLA backend)."""
    import importlib
    here = os.path.dirname(os.path.abspath(__file__))
    harness = os.path.dirname(here)
    for p in (os.environ.get("NIFTY_REPO", "/repo"), os.path.dirname(harness), harness):
        if p not in sys.path:
            sys.path.insert(0, p)
    for m in preload:
        try:
            importlib.import_module(m)
        except Exception:
            pass
    sys.stdout.write("ready\n")
    sys.stdout.flush()
    while True:
        line = sys.stdin.readline()
        if not line:
            break
        jobpath = line.strip()
        if not jobpath:
            continue
        pid = os.fork()
        if pid == 0:
            try:
                job = json.load(open(jobpath))
                fd = os.open(job["log"] + ".stderr", os.O_WRONLY | os.O_CREAT | os.O_TRUNC, 0o644)
                os.dup2(fd, 1)
                os.dup2(fd, 2)
                _main(jobpath)
            finally:
                os._exit(99)
        _, status = os.waitpid(pid, 0)
        sys.stdout.write(f"{os.waitstatus_to_exitcode(status)}\n")
        sys.stdout.flush()


class Zygote:
    """harness side of one fork server"""

    def __init__(self, preload=(), env=None, python=None):
        import subprocess
        e = dict(os.environ)
        e.setdefault("JAX_PLATFORMS", "cpu")
        e.update(OMP_NUM_THREADS="1", OPENBLAS_NUM_THREADS="1", MKL_NUM_THREADS="1", MPLBACKEND="Agg",
                 XLA_FLAGS="--xla_cpu_multi_thread_eigen=false intra_op_parallelism_threads=1")
        if env:
            e.update(env)
        self.p = subprocess.Popen([python or sys.executable, os.path.abspath(__file__), "--server", ",".join(preload)],
                                  stdin=subprocess.PIPE, stdout=subprocess.PIPE, stderr=subprocess.DEVNULL, text=True,
                                  env=e, start_new_session=True)
        self._readline(300)

    def _readline(self, timeout):
        import select
        r, _, _ = select.select([self.p.stdout], [], [], timeout)
        if not r:
            raise TimeoutError
        line = self.p.stdout.readline()
        if not line:
            raise EOFError
        return line.strip()

    def run(self, job, timeout=600):
        import tempfile
        with tempfile.NamedTemporaryFile("w", suffix=".json", prefix="crashjob_", delete=False) as f:
            json.dump(job, f)
            jp = f.name
        try:
            self.p.stdin.write(jp + "\n")
            self.p.stdin.flush()
            rc = int(self._readline(timeout))
        finally:
            try:
                os.unlink(jp)
            except OSError:
                pass
        err = ""
        ep = job["log"] + ".stderr"
        if os.path.exists(ep):
            with open(ep, errors="replace") as f:
                err = f.read()[-1500:]
        return rc, err

    def close(self):
        import signal
        try:
            os.killpg(self.p.pid, signal.SIGKILL)
        except Exception:
            pass
        try:
            self.p.wait(5)
        except Exception:
            pass


class Pool:
    """N fork servers behind a thread pool: pool.map(fn, items) runs fn(zygote_run, item) concurrently"""

    def __init__(self, n, preload=(), env=None, fork=False):
        import queue
        self.n, self.preload, self.env, self.fork = n, tuple(preload), env, fork
        self.free = queue.Queue()
        self.all = []

    def run(self, job, timeout=600, retries=1):
        import queue
        if not self.fork:   # one fresh interpreter per job (robust; the fork server saves the import time but a fork of a
            # process that has imported jax — 30 idle threads — was seen to hang once under heavy load)
            for attempt in range(retries + 1):
                rc, err = run_worker(job, timeout=timeout, env=self.env)
                if rc != -9:
                    break
            return rc, err
        for attempt in range(retries + 1):
            try:
                z = self.free.get_nowait()
            except queue.Empty:
                try:
                    z = Zygote(self.preload, self.env)
                except (TimeoutError, EOFError, OSError):
                    continue
                self.all.append(z)
            try:
                rc, err = z.run(job, timeout)
            except (TimeoutError, EOFError, ValueError, BrokenPipeError, OSError) as e:
                z.close()
                err = f"zygote failure: {type(e).__name__}"
                continue
            self.free.put(z)
            return rc, err
        return -9, err if "err" in dir() else "zygote failure"

    def map(self, fn, items):
        from concurrent.futures import ThreadPoolExecutor
        with ThreadPoolExecutor(self.n) as ex:
            return list(ex.map(fn, items))

    def close(self):
        for z in self.all:
            z.close()


if __name__ == "__main__":
    if sys.argv[1] == "--server":
        _server([m for m in (sys.argv[2] if len(sys.argv) > 2 else "").split(",") if m])
    else:
        _main(sys.argv[1])
