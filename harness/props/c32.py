"""C32 — HMC and NUTS: reversible volume-preserving dynamics, invariant target (DESIGN.md §5 C32).

Tie (class T): the real `leapfrog_step` (through the stepper a real HMCChain builds: jax.grad of the potential and the
code's kinetic-energy gradient) vs the Lean model's leapfrog in exact rationals on polynomial potentials; the real
`generate_hmc_acc_rej` decision replayed by the model from recorded energies and the uniform draw; `count_trailing_ones` /
`population_count` vs the model's integer functions and the slot invariant.  Oracle (real code only): forward-flip-
forward-flip round trip, negative-step inverse, Jacobian determinant 1, Metropolis rule, selection of accepted/rejected.
Invariance of the NUTS/HMC transitions is NOT proved: chains with known moments are a labelled *test*."""
import math
import warnings
from fractions import Fraction

import numpy as np

from ._prob_util import jax_setup, fr, rs, fl, fll, dyadic, allclose, maxerr, safe, is_err

ID = "C32"
LEAN_MODULES = ["NiftyVerif.Core.Proto", "NiftyVerif.Model.Hmc", "NiftyVerif.Model.RatApprox", "NiftyVerif.Props.C32"]
DRIVER = "Driver/C32.lean"
OBLIGATIONS = ["NiftyVerif.C32." + t for t in (
    "leapfrog_shear_factorisation", "kick_inverse", "drift_inverse", "leapfrog_neg_step_inverse", "leapfrog_bijective",
    "leapfrog_flip_leapfrog", "leapfrog_reversible", "leapfrog_n_reversible", "leapfrog_n_neg_step_inverse",
    "leapfrog_jacobian_det_one", "leapfrog_linear_is_matrix",
    "metropolis_detailed_balance", "metropolis_invariant", "transitionProbability_eq",
    "exp_logaddexp", "logaddexp_weight_total", "merge_weight", "expit_keep", "progressive_sampling_step",
    "nuts_slot_invariant", "nuts_subtree_count", "leapfrog_volume_preserving", "flip_volume_preserving",
    "progressive_sampling_multinomial", "merge_multinomial", "chain_acceptance_is_mean")]
RULE = ("leap case = (dimension 1..3, potential ½qᵀAq + Σb q⁴/4 + c·q or a non-polynomial one, diagonal inverse mass, step "
        "size, number of steps, start (q,p)); accrej case = the same plus a PRNG key; slots case = every leaf index n < 2^depth; "
        "non-trivial = non-zero force and momentum (leap), |u−p| outside the 1e-6 margin (accrej), odd n (slots)")
TRUSTED_BASE = [
    "Lean 4.33 kernel; axioms propext/Classical.choice/Quot.sound only (audited every run)",
    "volume preservation is proved measure-theoretically (leapfrog_volume_preserving, any measurable force); the Jacobian "
    "statement additionally uses the chain rule for the product of the shear Jacobians (proved here only for linear forces)",
    "momentum resampling p ~ N(0,M) leaves the joint density invariant; detailed balance ⇒ invariance on continuous "
    "state spaces (proved here for finite state spaces)",
    "jax.grad, jax.random (bernoulli(key,p) = uniform(key) < p), XLA, IEEE rounding: executed, not modelled",
    "driver exp: 2^-99-accurate rational approximation (class T, decisions compared outside a 1e-6 margin)",
]
ASSUMPTIONS = ["NUTS transition invariance is tested (long fixed-key chains, 6 sigma of batch-means error), not proved"]


# ------------------------------------------------------------------------------------------------------------
def gen_leap(rng, quick=True, kind=None, big=None):
    kind = kind or rng.choice(["quad", "quad", "quartic", "quartic", "nonpoly"])
    d = rng.randint(1, 3)
    L = [[dyadic(rng, -1, 1, 2) if j <= i else Fraction(0) for j in range(d)] for i in range(d)]
    A = [[sum(L[i][k] * L[j][k] for k in range(d)) for j in range(d)] for i in range(d)]
    if rng.random() < 0.2:
        A = [[A[i][j] if i == j else -A[i][j] for j in range(d)] for i in range(d)]     # indefinite allowed
    b = [dyadic(rng, 0, 1, 2) if kind == "quartic" else Fraction(0) for _ in range(d)]
    if kind == "quartic" and all(x == 0 for x in b):
        b[0] = Fraction(1, 2)
    c = [dyadic(rng, -1, 1, 2) for _ in range(d)]
    minv = [dyadic(rng, 0.25, 2, 2, nonzero=True) for _ in range(d)]
    big = (rng.random() < 0.4) if big is None else big            # large steps: sizeable energy errors, so that rejections actually happen
    eps = dyadic(rng, 10, 20, 0) / 16 if big else dyadic(rng, 1, 8, 0, nonzero=True) / 16
    n = rng.randint(1, 2 if kind == "quartic" else (3 if big else 6))
    q = [dyadic(rng, -1.5, 1.5, 2) for _ in range(d)]
    p = [dyadic(rng, -1.5, 1.5, 2, nonzero=True) for _ in range(d)]
    return dict(kind=kind, d=d, A=[[rs(x) for x in r] for r in A], b=[rs(x) for x in b], c=[rs(x) for x in c],
                minv=[rs(x) for x in minv], eps=rs(eps), n=n, q=[rs(x) for x in q], p=[rs(x) for x in p],
                vector=rng.random() < 0.3, keys=[rng.randint(0, 2 ** 31 - 1) for _ in range(6)])


def _potential(c):
    jax_setup()
    import jax.numpy as jnp
    A = jnp.array([fll(r) for r in c["A"]])
    b = jnp.array(fll(c["b"]))
    cc = jnp.array(fll(c["c"]))

    def U(q):
        q = getattr(q, "tree", q)
        q = q["x"] if isinstance(q, dict) else q
        u = 0.5 * q @ (A @ q) + jnp.sum(b * q ** 4) / 4 + cc @ q
        if c["kind"] == "nonpoly":
            u = u + jnp.sum(jnp.log1p(q ** 2)) + jnp.sum(jnp.cos(q))
        return u
    return U


def _sampler(c):
    """a real HMCChain (gives the stepper the chain uses) for the case; position a flat array or a Vector"""
    jax_setup()
    import jax.numpy as jnp
    import nifty.re as jft
    from nifty.re import hmc_oo
    U = _potential(c)
    minv = jnp.array(fll(c["minv"]))
    wrap = (lambda a: jft.Vector({"x": a})) if c["vector"] else (lambda a: a)
    proto = wrap(jnp.zeros(c["d"]))
    with warnings.catch_warnings():
        warnings.simplefilter("ignore")
        s = hmc_oo.HMCChain(potential_energy=U, inverse_mass_matrix=wrap(minv), position_proto=proto,
                            num_steps=c["n"], step_size=fl(c["eps"]))
    return s, wrap


def _unwrap(x):
    x = getattr(x, "tree", x)
    x = x["x"] if isinstance(x, dict) else x
    return np.asarray(x, dtype=float)


def real_all(c):
    """ONE jitted function per case running the real code: forward n steps, flip, n steps, flip; negative-step return;
    Jacobians of one and n steps; energies; generate_hmc_acc_rej with an explicit key and the uniform draw behind
    random.bernoulli(key, p)"""
    def go():
        jax = jax_setup()
        import jax.numpy as jnp
        from jax import random
        from nifty.re import hmc
        s, wrap = _sampler(c)
        eps, n, d = fl(c["eps"]), c["n"], c["d"]
        get = lambda t: getattr(t, "tree", {"x": t})["x"]
        qp = lambda v: hmc.QP(position=wrap(v[:d]), momentum=wrap(v[d:]))
        unqp = lambda z: jnp.concatenate([get(z.position), get(z.momentum)])
        en = lambda z: hmc.total_energy_of_qp(z, s.potential_energy, lambda m: s.kinetic_energy(s.inverse_mass_matrix, m))

        def steps(e, z):
            # a rolled loop keeps the XLA program (and its compile time) independent of the number of steps
            return jax.lax.fori_loop(0, n, lambda i, zz: s.stepper(e, s.inverse_mass_matrix, zz), z)

        def everything(v, key):
            fwd = lambda v: unqp(steps(eps, qp(v)))
            rt = unqp(hmc.flip_momentum(steps(eps, hmc.flip_momentum(steps(eps, qp(v))))))
            neg = unqp(steps(-eps, steps(eps, qp(v))))
            one = lambda v: unqp(s.stepper(eps, s.inverse_mass_matrix, qp(v)))
            r = hmc.generate_hmc_acc_rej(key=key, initial_qp=qp(v), potential_energy=s.potential_energy,
                                         kinetic_energy=s.kinetic_energy, inverse_mass_matrix=s.inverse_mass_matrix,
                                         stepper=s.stepper, num_steps=n, step_size=eps,
                                         max_energy_difference=s.max_energy_difference)
            z1 = fwd(v)
            return dict(z1=z1, rt=rt, neg=neg, J1=jax.jacfwd(one)(v), Jn=jax.jacfwd(fwd)(v), e0=en(qp(v)), e1=en(qp(z1)),
                        accepted=r.accepted, acc=unqp(r.accepted_qp), rej=unqp(r.rejected_qp),
                        u=random.uniform(key, (), dtype=jnp.float64))
        v0 = np.array(fll(c["q"]) + fll(c["p"]))
        from nifty.re.tree_math import random_like
        kkey = random.PRNGKey(c["keys"][0])
        mom = get(hmc.sample_momentum_from_diagonal(key=kkey, mass_matrix_sqrt=s.mass_matrix_sqrt))
        xi = get(random_like(key=kkey, primals=s.mass_matrix_sqrt, rng=random.normal))
        pm = wrap(jnp.array(fll(c["p"])))
        kg = get(s.stepper.args[1](s.inverse_mass_matrix, pm))
        kg_ref = get(jax.grad(s.kinetic_energy, argnums=1)(s.inverse_mass_matrix, pm))
        f = jax.jit(everything)
        os_ = [{k: np.asarray(v) for k, v in f(v0, random.PRNGKey(key)).items()} for key in c["keys"]]
        o = os_[0]
        return dict(z1=o["z1"], rt=o["rt"], neg=o["neg"], det1=float(np.linalg.det(o["J1"])),
                    detn=float(np.linalg.det(o["Jn"])), jn_norm=float(np.linalg.norm(o["Jn"], 2)), j1_norm=float(np.linalg.norm(o["J1"], 2)), e0=float(o["e0"]), e1=float(o["e1"]),
                    mom_factor=np.asarray(mom) / np.asarray(xi), kin_grad=np.asarray(kg), kin_grad_ref=np.asarray(kg_ref),
                    draws=[dict(accepted=bool(o["accepted"]), acc=o["acc"], rej=o["rej"], u=float(o["u"])) for o in os_])
    return safe(go)


_LEAP_CACHE = {}


def _leap(c):
    from core.ctx import canon
    k = canon(c)
    if k not in _LEAP_CACHE:
        r = real_all(c)
        _LEAP_CACHE[k] = (r, r)
    return _LEAP_CACHE[k]


def oracle(case):
    if case.get("sub") == "slots":
        return _oracle_slots(case)
    if case.get("sub") == "chain":
        return _oracle_chain(case)
    if case.get("sub") == "nuts":
        return _oracle_nuts(case)
    if case.get("sub") == "merge":
        return _oracle_merge_unit(case)
    if case.get("sub") == "book":
        return _oracle_book(case)
    r, a = _leap(case)
    sig = dict(sub="leap", kind=case["kind"])
    if is_err(r):
        return (f"leapfrog raised {r['error']}", dict(sig, what="error", error=r["error"]))
    z0 = np.array(fll(case["q"]) + fll(case["p"]))
    d = case["d"]
    scale = max(1.0, float(np.max(np.abs(r["z1"]))), float(np.max(np.abs(z0))))
    amp = max(1.0, r["jn_norm"])        # error amplification of an (unstable, large-step) trajectory
    if not np.max(np.abs(r["rt"] - z0)) <= 1e-10 * scale * amp:
        return (f"leapfrog is not time-reversible: forward–flip–forward–flip misses the start by "
                f"{np.max(np.abs(r['rt'] - z0)):.3g}", dict(sig, what="reversible"))
    if not np.max(np.abs(r["neg"] - z0)) <= 1e-10 * scale * amp:
        return (f"leapfrog with negated step size is not the inverse: miss {np.max(np.abs(r['neg'] - z0)):.3g}",
                dict(sig, what="neg_step"))
    for nm, nn in (("det1", "j1_norm"), ("detn", "jn_norm")):
        # the determinant of an ill-conditioned Jacobian is computed with error ~ eps·‖J‖²: condition-aware tolerance
        if not abs(r[nm] - 1.0) <= 1e-10 * max(1.0, r[nn]) ** 2:
            return (f"leapfrog Jacobian determinant ({'one step' if nm == 'det1' else str(case['n']) + ' steps'}) is "
                    f"{r[nm]!r}, not 1", dict(sig, what="volume"))
    minv = np.array(fll(case["minv"]))
    if not np.allclose(r["mom_factor"] ** 2 * minv, 1.0, rtol=1e-12, atol=0):
        return (f"sample_momentum_from_diagonal: momentum variance {r['mom_factor'] ** 2} is not the mass matrix "
                f"{1 / minv} (inverse of the inverse mass matrix used in the kinetic energy)", dict(sig, what="momentum_law"))
    if not np.allclose(r["kin_grad"], r["kin_grad_ref"], rtol=1e-12, atol=1e-300):
        return ("the kinetic-energy gradient used by the stepper is not the gradient of the kinetic energy used in the "
                "acceptance step", dict(sig, what="kinetic_consistency"))
    # Metropolis rule on the real run: proposal = flipped end point, accept iff u < min(1, exp(E0 - E1))
    prop = np.concatenate([r["z1"][:d], -r["z1"][d:]])
    pacc = min(1.0, math.exp(min(50.0, r["e0"] - r["e1"])))
    for a in r["draws"]:
        want_acc, want_rej = (prop, z0) if a["accepted"] else (z0, prop)
        if not (np.max(np.abs(a["acc"] - want_acc)) <= 1e-10 * scale and np.max(np.abs(a["rej"] - want_rej)) <= 1e-10 * scale):
            return ("generate_hmc_acc_rej: accepted/rejected states are not (flipped end point, start) in the order the "
                    "accept flag says", dict(sig, what="select"))
        if abs(a["u"] - pacc) > 1e-6 * max(1.0, pacc) and a["accepted"] != (a["u"] < pacc):
            return (f"generate_hmc_acc_rej: accept={a['accepted']} but u={a['u']:.6g}, min(1,exp(E0-E1))={pacc:.6g}",
                    dict(sig, what="metropolis"))
    return None


def shrink(case):
    if case.get("sub"):
        return
    if case["n"] > 1:
        yield dict(case, n=case["n"] - 1)
    if case["vector"]:
        yield dict(case, vector=False)
    if case["kind"] == "nonpoly":
        yield dict(case, kind="quartic")



# ---- NUTS tree: trace validation on the real, eagerly executed code -----------------------------------------------
def gen_nuts(rng, quick=True):
    c = gen_leap(rng, quick, kind=rng.choice(["quad", "quartic", "nonpoly"]))
    c.update(sub="nuts", d=min(c["d"], 2), eps=rs(dyadic(rng, 3, 10, 0) / 16), depth=rng.randint(2, 3 if quick else 5),
             bias=rng.random() < 0.6, key=rng.randint(0, 2 ** 31 - 1), vector=False)
    d = c["d"]
    for k in ("b", "c", "minv", "q", "p"):
        c[k] = c[k][:d]
    c["A"] = [r[:d] for r in c["A"][:d]]
    return c


def nuts_trace(c):
    """run the real generate_nuts_tree with Python control flow (nifty.re.lax._DISABLE_CONTROL_FLOW_PRIM) and record every
    call of add_single_qp_to_tree / merge_trees / is_euclidean_uturn / iterative_build_tree and every leapfrog result"""
    def go():
        jax = jax_setup()
        import jax.numpy as jnp
        from jax import random
        from nifty.re import hmc, lax as nlax
        s, wrap = _sampler(c)
        eps = fl(c["eps"])
        qp0 = hmc.QP(position=jnp.array(fll(c["q"])), momentum=jnp.array(fll(c["p"])))
        en = lambda z: float(hmc.total_energy_of_qp(z, s.potential_energy, lambda m: s.kinetic_energy(s.inverse_mass_matrix, m)))
        vec = lambda z: np.concatenate([np.asarray(z.position, dtype=float).reshape(-1), np.asarray(z.momentum, dtype=float).reshape(-1)])
        tkey = lambda z: vec(z).tobytes()
        rec = dict(leaves=[vec(qp0)], energy=[en(qp0)], subtrees=[], adds=[], merges=[], uturns=[])
        index = {tkey(qp0): 0}
        ctx_ = dict(in_merge=False, cur=None)
        o_add, o_merge, o_ut, o_it = hmc.add_single_qp_to_tree, hmc.merge_trees, hmc.is_euclidean_uturn, hmc.iterative_build_tree

        def stepper(e, minv, z):
            z2 = s.stepper(e, minv, z)
            index[tkey(z2)] = len(rec["leaves"])
            rec["leaves"].append(vec(z2))
            rec["energy"].append(en(z2))
            if ctx_["cur"] is not None:
                ctx_["cur"]["leaves"].append(index[tkey(z2)])
            return z2

        def w_add(key, tree, qp, go_right, *a, **k):
            out = o_add(key, tree, qp, go_right, *a, **k)
            rec["adds"].append(dict(u=float(random.uniform(key, (), dtype=jnp.float64)), w_old=float(tree.logweight),
                                    leaf=index[tkey(qp)], w_out=float(out.logweight), old=index[tkey(tree.proposal_candidate)],
                                    cand=index[tkey(out.proposal_candidate)], go_right=bool(go_right),
                                    left=index[tkey(out.left)], right=index[tkey(out.right)],
                                    tl=index[tkey(tree.left)], tr=index[tkey(tree.right)]))
            return out

        def w_merge(key, cur, new, go_right, bias_transition):
            ctx_["in_merge"] = True
            try:
                out = o_merge(key, cur, new, go_right, bias_transition)
            finally:
                ctx_["in_merge"] = False
            rec["merges"].append(dict(u=float(random.uniform(key, (), dtype=jnp.float64)), w_cur=float(cur.logweight),
                                      w_new=float(new.logweight), w_out=float(out.logweight), bias=bool(bias_transition),
                                      c_cur=index[tkey(cur.proposal_candidate)], c_new=index[tkey(new.proposal_candidate)],
                                      cand=index[tkey(out.proposal_candidate)], go_right=bool(go_right),
                                      ends=[index[tkey(cur.left)], index[tkey(cur.right)], index[tkey(new.left)],
                                            index[tkey(new.right)], index[tkey(out.left)], index[tkey(out.right)]],
                                      depth=[int(cur.depth), int(out.depth)], turning=bool(out.turning)))
            return out

        def w_ut(a, b):
            r = o_ut(a, b)
            if not ctx_["in_merge"] and ctx_["cur"] is not None:
                ctx_["cur"]["checks"].append((index[tkey(a)], index[tkey(b)], bool(r)))
            return r

        def w_it(key, initial_tree, step_size, go_right, *a, **k):
            ctx_["cur"] = dict(leaves=[], checks=[], go_right=bool(go_right), depth_in=int(initial_tree.depth))
            out = o_it(key, initial_tree, step_size, go_right, *a, **k)
            ctx_["cur"].update(turning=bool(out.turning), depth_out=int(out.depth), w=float(out.logweight),
                               cand=index[tkey(out.proposal_candidate)])
            rec["subtrees"].append(ctx_["cur"])
            ctx_["cur"] = None
            return out
        old_flag = nlax._DISABLE_CONTROL_FLOW_PRIM
        nlax._DISABLE_CONTROL_FLOW_PRIM = True
        hmc.add_single_qp_to_tree, hmc.merge_trees, hmc.is_euclidean_uturn, hmc.iterative_build_tree = w_add, w_merge, w_ut, w_it
        try:
            tree = hmc.generate_nuts_tree(qp0, random.PRNGKey(c["key"]), eps, c["depth"], stepper, s.potential_energy,
                                          s.kinetic_energy, s.inverse_mass_matrix, bias_transition=c["bias"])
        finally:
            nlax._DISABLE_CONTROL_FLOW_PRIM = old_flag
            hmc.add_single_qp_to_tree, hmc.merge_trees, hmc.is_euclidean_uturn, hmc.iterative_build_tree = o_add, o_merge, o_ut, o_it
        rec["final"] = dict(w=float(tree.logweight), cand=index[tkey(tree.proposal_candidate)], depth=int(tree.depth),
                            left=index[tkey(tree.left)], right=index[tkey(tree.right)])
        return rec
    from core.ctx import canon
    k = ("nuts", canon(c))
    if k not in _LEAP_CACHE:
        _LEAP_CACHE[k] = safe(go)
    return _LEAP_CACHE[k]


def _expit(x):
    return 1.0 / (1.0 + math.exp(-x)) if x > -700 else 0.0


def _oracle_nuts(case):
    r = nuts_trace(case)
    sig = dict(sub="nuts")
    if is_err(r):
        return (f"generate_nuts_tree raised {r['error']}", dict(sig, what="error", error=r["error"]))
    E = r["energy"]
    lse = lambda xs: float(np.logaddexp.reduce(np.array(xs, dtype=float)))
    # 1. slot bookkeeping observed on the real run: pairs compared at every odd leaf of every sub-tree
    for st in r["subtrees"]:
        L = st["leaves"]
        want = []
        for n in range(1, len(L), 2):
            l = len(bin(n)) - len(bin(n).rstrip("1"))
            want += [(L[n + 1 - 2 ** (j + 1)], L[n]) for j in reversed(range(l))]
        got = [(a, b) for a, b, _ in st["checks"]]
        if got != want:
            return (f"iterative_build_tree compared the leaf pairs {got}, the complete sub-trees ending at the odd leaves "
                    f"are {want}", dict(sig, what="slots"))
        if st["turning"] != any(t for _, _, t in st["checks"]):
            return ("sub-tree turning flag is not the OR of its u-turn checks", dict(sig, what="turning"))
        if not st["turning"] and len(L) == 2 ** st["depth_in"] and abs(st["w"] - lse([-E[i] for i in L])) > 1e-9 * max(1.0, abs(st["w"])):
            return (f"sub-tree log-weight {st['w']!r} is not logsumexp(−H) over its {len(L)} leaves",
                    dict(sig, what="subtree_weight"))
    # 2. progressive (multinomial) sampling inside a sub-tree
    for a in r["adds"]:
        wnew = -E[a["leaf"]]
        if abs(a["w_out"] - float(np.logaddexp(a["w_old"], wnew))) > 1e-9 * max(1.0, abs(a["w_out"])):
            return ("add_single_qp_to_tree: log-weight is not logaddexp(old, −H(new leaf))", dict(sig, what="add_weight"))
        p = _expit(a["w_old"] - wnew)
        if abs(a["u"] - p) > 1e-6 and (a["cand"] == a["old"]) != (a["u"] < p) and a["old"] != a["leaf"]:
            return (f"add_single_qp_to_tree: kept old candidate = {a['cand'] == a['old']} but u={a['u']:.6g}, "
                    f"e^W/(e^W+e^w)={p:.6g}", dict(sig, what="add_choice"))
        ends = (a["tl"], a["leaf"]) if a["go_right"] else (a["leaf"], a["tr"])
        if (a["left"], a["right"]) != ends:
            return ("add_single_qp_to_tree: wrong end points", dict(sig, what="add_ends"))
    # 3. merging two trees
    for m in r["merges"]:
        if abs(m["w_out"] - float(np.logaddexp(m["w_cur"], m["w_new"]))) > 1e-9 * max(1.0, abs(m["w_out"])):
            return ("merge_trees: log-weight is not logaddexp of the two sub-trees", dict(sig, what="merge_weight"))
        dlt = m["w_new"] - m["w_cur"]
        p = min(1.0, math.exp(min(dlt, 50.0))) if m["bias"] else _expit(dlt)
        if abs(m["u"] - p) > 1e-6 and m["c_cur"] != m["c_new"] and (m["cand"] == m["c_new"]) != (m["u"] < p):
            return (f"merge_trees: took the new candidate = {m['cand'] == m['c_new']} but u={m['u']:.6g}, transition "
                    f"probability {p:.6g} (bias_transition={m['bias']})", dict(sig, what="merge_choice"))
        cl, cr, nl, nr, ol, orr = m["ends"]
        if (ol, orr) != ((cl, nr) if m["go_right"] else (nl, cr)):
            return ("merge_trees: wrong end points", dict(sig, what="merge_ends"))
        if m["depth"][1] != m["depth"][0] + 1:
            return ("merge_trees: depth not incremented", dict(sig, what="merge_depth"))
    # 4. the final tree
    merged = [0] + [i for st, _ in zip([s_ for s_ in r["subtrees"] if not s_["turning"] and len(s_["leaves"]) == 2 ** s_["depth_in"]],
                                       r["merges"]) for i in st["leaves"]]
    f = r["final"]
    if abs(f["w"] - lse([-E[i] for i in merged])) > 1e-9 * max(1.0, abs(f["w"])):
        return (f"final tree log-weight {f['w']!r} is not logsumexp(−H) over the {len(merged)} leaves of the accepted "
                f"sub-trees", dict(sig, what="final_weight"))
    if f["cand"] not in merged:
        return ("the proposed sample is not a leaf of the accepted tree", dict(sig, what="final_candidate"))
    return None



def real_merge_unit(c):
    """the real merge_trees on two synthetic one-leaf trees with prescribed log-weights"""
    def go():
        jax = jax_setup()
        import jax.numpy as jnp
        from jax import random
        from nifty.re import hmc
        mk = lambda x, w: hmc.Tree(left=hmc.QP(jnp.array([x]), jnp.array([1.0])), right=hmc.QP(jnp.array([x + 0.5]), jnp.array([1.0])),
                                   logweight=jnp.array(w), proposal_candidate=hmc.QP(jnp.array([x]), jnp.array([0.0])),
                                   turning=False, diverging=False, depth=0, cumulative_acceptance=jnp.array(0.0))
        out = []
        for key in c["keys"]:
            k = random.PRNGKey(key)
            t = hmc.merge_trees(k, mk(0.0, fl(c["w_cur"])), mk(10.0, fl(c["w_new"])), c["go_right"], bias_transition=c["bias"])
            out.append(dict(u=float(random.uniform(k, (), dtype=jnp.float64)), new=float(t.proposal_candidate.position[0]) == 10.0,
                            w=float(t.logweight), left=float(t.left.position[0]), right=float(t.right.position[0])))
        return out
    return safe(go)


def _oracle_merge_unit(c):
    r = real_merge_unit(c)
    sig = dict(sub="merge")
    if is_err(r):
        return (f"merge_trees raised {r['error']}", dict(sig, what="error", error=r["error"]))
    dlt = fl(c["w_new"]) - fl(c["w_cur"])
    p = min(1.0, math.exp(dlt)) if c["bias"] else _expit(dlt)
    for o in r:
        if abs(o["u"] - p) > 1e-6 and o["new"] != (o["u"] < p):
            return (f"merge_trees(bias_transition={c['bias']}): new candidate taken = {o['new']} with u={o['u']:.6g} and "
                    f"transition probability {p:.6g} (w_new−w_cur={dlt})", dict(sig, what="merge_choice"))
        if abs(o["w"] - float(np.logaddexp(fl(c["w_cur"]), fl(c["w_new"])))) > 1e-12 * max(1.0, abs(o["w"])):
            return ("merge_trees: log-weight is not logaddexp", dict(sig, what="merge_weight"))
        if (o["left"], o["right"]) != ((0.0, 10.5) if c["go_right"] else (10.0, 0.5)):
            return ("merge_trees: wrong end points", dict(sig, what="merge_ends"))
    return None



# ---- chain bookkeeping of hmc_oo (update_chain / init_chain) --------------------------------------------------------------
def real_book(c):
    """a short real chain with save_intermediates=True: samples, acceptance, divergences, depths vs the stored trees"""
    def go():
        jax = jax_setup()
        import jax.numpy as jnp
        from nifty.re import hmc, hmc_oo
        d, mk, _ = TARGETS[c["target"]]
        U = mk(jnp)
        with warnings.catch_warnings():
            warnings.simplefilter("ignore")
            if c["sampler"] == "hmc":
                s = hmc_oo.HMCChain(potential_energy=U, inverse_mass_matrix=c["minv"], position_proto=jnp.zeros(d),
                                    num_steps=c["num_steps"], step_size=c["step_size"], max_energy_difference=c["thr"])
            else:
                s = hmc_oo.NUTSChain(potential_energy=U, inverse_mass_matrix=c["minv"], position_proto=jnp.zeros(d),
                                     step_size=c["step_size"], max_tree_depth=c["depth"], max_energy_difference=c["thr"])
            x0 = jnp.full((d,), 0.3)
            chain, (key_out, last) = s.generate_n_samples(jax.random.PRNGKey(c["key"]), x0, c["N"], save_intermediates=True)
        en = lambda q, p: float(U(q) + 0.5 * c["minv"] * jnp.sum(p ** 2))
        out = dict(samples=np.asarray(chain.samples), acceptance=float(chain.acceptance),
                   divergences=np.asarray(chain.divergences).tolist(), last=np.asarray(last), x0=np.asarray(x0))
        t = chain.trees
        if c["sampler"] == "hmc":
            out.update(accepted=np.asarray(t.accepted).tolist(), diverging=np.asarray(t.diverging).tolist(),
                       acc_q=np.asarray(t.accepted_qp.position), rej_q=np.asarray(t.rejected_qp.position),
                       e_acc=[en(q, p) for q, p in zip(t.accepted_qp.position, t.accepted_qp.momentum)],
                       e_rej=[en(q, p) for q, p in zip(t.rejected_qp.position, t.rejected_qp.momentum)])
        else:
            out.update(depths=np.asarray(chain.depths).tolist(), tdepth=np.asarray(t.depth).tolist(),
                       cand=np.asarray(t.proposal_candidate.position), diverging=np.asarray(t.diverging).tolist(),
                       cum=np.asarray(t.cumulative_acceptance).tolist())
        return out
    from core.ctx import canon
    k = ("book", canon(c))
    if k not in _LEAP_CACHE:
        _LEAP_CACHE[k] = safe(go)
    return _LEAP_CACHE[k]


def _book_values(c, r):
    """per-sample acceptance statistic the chain is supposed to average"""
    if c["sampler"] == "hmc":
        return [1.0 if a else 0.0 for a in r["accepted"]]
    return [(cu / (2 ** dp - 1)) if dp > 0 else 0.0 for cu, dp in zip(r["cum"], r["tdepth"])]


def _oracle_book(c):
    r = real_book(c)
    sig = dict(sub="book", sampler=c["sampler"])
    if is_err(r):
        return (f"{c['sampler']} chain with save_intermediates raised {r['error']}", dict(sig, what="error", error=r["error"]))
    N = c["N"]
    vals = _book_values(c, r)
    if not abs(r["acceptance"] - float(np.mean(vals))) <= 1e-12:
        return (f"chain.acceptance {r['acceptance']!r} is not the mean {float(np.mean(vals))!r} of the per-sample acceptance",
                dict(sig, what="acceptance"))
    if r["divergences"] != r["diverging"]:
        return ("chain.divergences differ from the stored per-sample flags", dict(sig, what="divergences"))
    if not np.array_equal(r["last"], r["samples"][-1]):
        return ("the returned last position is not the last sample", dict(sig, what="last"))
    if c["sampler"] == "hmc":
        if not np.array_equal(r["samples"], r["acc_q"]):
            return ("chain.samples are not the accepted positions", dict(sig, what="samples"))
        prev = r["x0"]
        for i in range(N):
            init = r["rej_q"][i] if r["accepted"][i] else r["acc_q"][i]
            if not np.array_equal(init, prev):
                return (f"sample {i} did not start from the previous sample", dict(sig, what="chaining"))
            prev = r["samples"][i]
            de = abs(r["e_acc"][i] - r["e_rej"][i])
            if abs(de - c["thr"]) > 1e-9 * max(1.0, c["thr"]) and r["diverging"][i] != (de > c["thr"]):
                return (f"sample {i}: diverging={r['diverging'][i]} but |ΔE|={de:.6g}, max_energy_difference={c['thr']}",
                        dict(sig, what="diverging"))
    else:
        if [int(x) for x in r["depths"]] != [int(x) for x in r["tdepth"]]:
            return ("chain.depths differ from the stored tree depths", dict(sig, what="depths"))
        if not np.array_equal(r["samples"], r["cand"]):
            return ("chain.samples are not the trees' proposal candidates", dict(sig, what="samples"))
    return None


# ---- NUTS integer bookkeeping -------------------------------------------------------------------------------
_BITS = {}


def _real_bits(n):
    if n not in _BITS:
        _BITS[n] = _real_bits_uncached(n)
    return _BITS[n]


def _real_bits_uncached(n):
    jax_setup()
    import jax.numpy as jnp
    from jax import lax
    from nifty.re import hmc
    return int(hmc.count_trailing_ones(jnp.uint64(n))), int(lax.population_count(jnp.uint64(n)))


def _oracle_slots(case):
    """on the real integer helpers: for odd n the slots i_min..i_max hold (by the even-leaf writes popcount(m)) exactly the
    left-most leaves of the complete sub-trees ending at n"""
    n = case["n"]
    r = safe(_real_bits, n)
    if is_err(r):
        return (f"count_trailing_ones/population_count raised {r['error']}", dict(sub="slots", what="error"))
    l, _ = r
    if l != (len(bin(n)) - len(bin(n).rstrip("1"))):
        return (f"count_trailing_ones({n}) = {l}", dict(sub="slots", what="cto"))
    if n % 2 == 0:
        return None
    store = {0: 0}
    for m in range(1, n):
        if m % 2 == 0:
            store[_real_bits(m)[1]] = m
    imax = _real_bits(n - 1)[1]
    got = [store.get(imax - j) for j in range(l)]
    want = [n + 1 - 2 ** (j + 1) for j in range(l)]
    if got != want:
        return (f"iterative_build_tree slot bookkeeping: odd leaf {n} is checked against leaves {got}, the sub-trees ending "
                f"there start at {want}", dict(sub="slots", what="slots"))
    return None


# ---- chains (a TEST, not a proof) -----------------------------------------------------------------------------
TARGETS = {
    # name: (dimension, potential builder, exact moments of q_0: mean, E q0^2)
    "gauss1": (1, lambda jnp: (lambda q: 0.5 * jnp.sum(q ** 2) / 1.5 ** 2), (0.0, 2.25)),
    "quartic1": (1, lambda jnp: (lambda q: jnp.sum(q ** 4) / 4), (0.0, 2 * math.gamma(0.75) / math.gamma(0.25))),
    "gauss2": (2, lambda jnp: (lambda q: 0.5 * (q[0] ** 2 - 1.2 * q[0] * q[1] + q[1] ** 2) / (1 - 0.36)), (0.0, 1.0)),
    "shifted1": (1, lambda jnp: (lambda q: 0.5 * jnp.sum((q - 1.0) ** 2) * 4.0), (1.0, 1.25)),
}


def run_chain(case):
    jax = jax_setup()
    import jax.numpy as jnp
    from nifty.re import hmc_oo
    d, mk, _ = TARGETS[case["target"]]
    U = mk(jnp)
    with warnings.catch_warnings():
        warnings.simplefilter("ignore")
        if case["sampler"] == "hmc":
            s = hmc_oo.HMCChain(potential_energy=U, inverse_mass_matrix=case.get("minv", 1.0), position_proto=jnp.zeros(d),
                                num_steps=case["num_steps"], step_size=case["step_size"])
        else:
            s = hmc_oo.NUTSChain(potential_energy=U, inverse_mass_matrix=case.get("minv", 1.0), position_proto=jnp.zeros(d),
                                 step_size=case["step_size"], max_tree_depth=case["depth"],
                                 bias_transition=case.get("bias", True))
        gen = jax.jit(lambda key, x0: s.generate_n_samples(key, x0, case["N"])[0].samples)
        smp = np.asarray(gen(jax.random.PRNGKey(case["key"]), jnp.full((d,), 0.1)))
    return smp[:, 0]


def _oracle_chain(case):
    x = safe(run_chain, case)
    sig = dict(sub="chain", sampler=case["sampler"], target=case["target"])
    if is_err(x):
        return (f"{case['sampler']} chain raised {x['error']}", dict(sig, what="error", error=x["error"]))
    x = x[len(x) // 10:]
    _, _, (m1, m2) = TARGETS[case["target"]]
    nb = 25
    for name, vals, exact in (("mean", x, m1), ("second moment", x ** 2, m2)):
        bm = np.array([b.mean() for b in np.array_split(vals, nb)])
        se = bm.std(ddof=1) / math.sqrt(nb)
        if not abs(vals.mean() - exact) <= 6 * se + 1e-12:
            return (f"{case['sampler']} chain on {case['target']}: {name} {vals.mean():.5g} vs exact {exact:.5g} "
                    f"(batch-means standard error {se:.3g}; 6 sigma test)", dict(sig, what="moments"))
    return None


# ------------------------------------------------------------------------------------------------------------
def run(ctx):
    rng = ctx.rng
    cases = [gen_leap(rng, ctx.quick) for _ in range(ctx.n(2, 250))]
    for k in ("quad", "quartic", "nonpoly"):
        cases.append(gen_leap(rng, ctx.quick, kind=k, big=False))
    for k in ("quad", "quad", "nonpoly"):
        cases.append(gen_leap(rng, ctx.quick, kind=k, big=True))     # sizeable energy errors: rejections do happen
    # ---- the real code first (oracles), collecting every model request; ONE driver call for the whole check ----------
    batch = []

    def ask(line):
        batch.append(line)
        return len(batch) - 1
    leap_idx, acc_idx = {}, []
    for ci, c in enumerate(cases):
        ctx.stat(f"kind={c['kind']}")
        ctx.stat(f"d={c['d']}")
        ctx.stat(f"steps={c['n']}")
        ctx.stat("position=" + ("Vector" if c["vector"] else "array"))
        ctx.case(c, nontrivial=True)
        res = oracle(c)
        if res is not None:
            ctx.counterexample(c, *res)
        r, _ = _leap(c)
        if c["kind"] == "nonpoly":
            continue
        leap_idx[ci] = ask(dict(op="leapfrog", q=c["q"], p=c["p"], eps=c["eps"], n=c["n"], A=c["A"], b=c["b"], c=c["c"],
                                minv=c["minv"]))
        if not is_err(r):
            for a in r["draws"]:
                acc_idx.append((c, a, ask(dict(op="accept", u=rs(a["u"]), e_init=rs(r["e0"]), e_prop=rs(r["e1"])))))
    depth = ctx.n(6, 10)
    ns = list(range(1, 2 ** depth))
    slot_idx = [ask(dict(op="slots", n=n)) for n in ns]
    nuts = [gen_nuts(rng, ctx.quick) for _ in range(ctx.n(2, 40))]
    nmeta = []
    for c in nuts:
        ctx.case(c, True)
        ctx.stat(f"nuts:depth<={c['depth']},bias={c['bias']}")
        res = _oracle_nuts(c)
        if res is not None:
            ctx.counterexample(c, *res)
        r = nuts_trace(c)
        if is_err(r):
            continue
        ctx.stat(f"nuts:subtrees={len(r['subtrees'])}")
        ctx.stat("nuts:merges", len(r["merges"]))
        ctx.stat("nuts:adds", len(r["adds"]))
        for a in r["adds"]:
            i = ask(dict(op="keep", u=rs(a["u"]), w_old=rs(a["w_old"]), neg_energy=rs(-r["energy"][a["leaf"]])))
            nmeta.append((c, "remain", a["cand"] == a["old"], a["old"] == a["leaf"], a["u"], i))
        for m in r["merges"]:
            i = ask(dict(op="merge", u=rs(m["u"]), w_new=rs(m["w_new"]), w_cur=rs(m["w_cur"]), bias=m["bias"]))
            nmeta.append((c, "take_new", m["cand"] == m["c_new"], m["c_cur"] == m["c_new"], m["u"], i))
    books = [dict(sub="book", sampler="hmc", target=rng.choice(["gauss1", "quartic1", "gauss2"]), N=12, num_steps=4,
                  step_size=rng.choice([0.5, 0.9, 1.3]), minv=rng.choice([0.5, 1.0]), thr=rng.choice([0.05, 0.3, 1.0]),
                  key=rng.randint(0, 2 ** 31 - 1)) for _ in range(ctx.n(1, 6))]
    if not ctx.quick:
        books += [dict(sub="book", sampler="nuts", target="gauss1", N=8, depth=3, step_size=0.7, minv=1.0, thr=0.5,
                       key=rng.randint(0, 2 ** 31 - 1)) for _ in range(2)]
    book_idx = []
    for c in books:
        ctx.case(c, True)
        ctx.stat(f"book:{c['sampler']}")
        res = _oracle_book(c)
        if res is not None:
            ctx.counterexample(c, *res)
        r = real_book(c)
        if not is_err(r):
            book_idx.append((c, r, ask(dict(op="accrun", values=[rs(v) for v in _book_values(c, r)]))))
    outs = ctx.model(DRIVER, batch)
    for c, r, i in book_idx:
        if not abs(float(fr(outs[i]["acceptance"])) - r["acceptance"]) <= 1e-12:
            ctx.disagree(c, dict(acceptance=r["acceptance"]), outs[i], "class T: chain acceptance vs the model's update_chain fold")
    # ---- leapfrog correspondence -------------------------------------------------------------------------------------
    for ci, c in enumerate(cases):
        if ci not in leap_idx:
            continue
        r, _ = _leap(c)
        m = outs[leap_idx[ci]]
        if is_err(r) or is_err(m):
            if not (is_err(r) and is_err(m)):
                ctx.disagree(c, r if is_err(r) else "value", m, "leapfrog: error behaviour differs")
            continue
        mz = [fr(x) for x in m["q"]] + [fr(x) for x in m["p"]]
        sc = max(1.0, max(abs(float(x)) for x in mz))
        if not m.get("roundtrip_exact", True):
            ctx.broke("correspondence", "model round trip", "the rational model did not return exactly (theorem instance)")
        if not (allclose(r["z1"], mz, sc, 1e-11) and allclose([r["e0"], r["e1"]], [fr(m["energy0"]), fr(m["energy1"])],
                                                             max(1.0, abs(r["e0"])), 1e-10)):
            ctx.disagree(c, dict(z=[repr(float(x)) for x in r["z1"]], e=[r["e0"], r["e1"]]),
                         dict(z=[repr(float(x)) for x in mz], e=[float(fr(m["energy0"])), float(fr(m["energy1"]))]),
                         "class T: n leapfrog steps and energies, real stepper vs rational model")
    # accept/reject decisions replayed by the model from the recorded energies
    for c, a, i in acc_idx:
        m = outs[i]
        p = float(fr(m["p"]))
        if abs(a["u"] - p) <= 1e-6 * max(1.0, p):
            ctx.skipped_near_threshold += 1
            continue
        ctx.traces_validated += 1
        ctx.stat("accept" if a["accepted"] else "reject")
        if bool(m["accept"]) != a["accepted"]:
            ctx.disagree(c, dict(accepted=a["accepted"], u=a["u"]), dict(accepted=m["accept"], p=p),
                         "Metropolis decision replayed from recorded energies")
    # NUTS integer bookkeeping: model vs real helpers, all leaf indices below 2^depth
    for n, i in zip(ns, slot_idx):
        m = outs[i]
        c = dict(sub="slots", n=n)
        ctx.case(c, nontrivial=n % 2 == 1)
        if m["checked"] != m["expected"]:
            ctx.broke("correspondence", "model slot invariant", f"n={n}: {m}")
        if n < ctx.n(64, 256):
            rb = safe(_real_bits, n)
            if is_err(rb) or [rb[0], rb[1]] != [m["cto"], m["pop"]]:
                ctx.disagree(c, rb, dict(cto=m["cto"], pop=m["pop"]), "count_trailing_ones / population_count")
    for n in ([7, 11, 23, 31, 47, 63] if ctx.quick else list(range(1, 256, 2))):
        res = _oracle_slots(dict(sub="slots", n=n))
        if res is not None:
            ctx.counterexample(dict(sub="slots", n=n), *res)
    ctx.extra["slots_exhaustive_below"] = 2 ** depth
    # NUTS decisions replayed by the model from the recorded weights
    for c, fld, impl, ambiguous, u, i in nmeta:
        m = outs[i]
        p = float(fr(m["p"]))
        if ambiguous:
            continue
        if abs(u - p) <= 1e-6:
            ctx.skipped_near_threshold += 1
            continue
        ctx.traces_validated += 1
        if bool(m[fld]) != impl:
            ctx.disagree(c, {fld: impl}, {fld: m[fld], "p": p}, "NUTS decision replayed by the model from recorded weights")
    for _ in range(ctx.n(6, 40)):
        c = dict(sub="merge", w_cur=rs(dyadic(rng, -3, 3, 2)), w_new=rs(dyadic(rng, -3, 3, 2)), bias=rng.random() < 0.5,
                 go_right=rng.random() < 0.5, keys=[rng.randint(0, 2 ** 31 - 1) for _ in range(6)])
        ctx.case(c, True)
        ctx.stat(f"merge_unit:bias={c['bias']}")
        res = _oracle_merge_unit(c)
        if res is not None:
            ctx.counterexample(c, *res)
    # chains: a statistical TEST of invariance (fixed keys, 6 sigma)
    chains = [dict(sub="chain", sampler="hmc", target="gauss1", N=ctx.n(2000, 20000), num_steps=7, step_size=0.9, minv=0.25),
              dict(sub="chain", sampler="nuts", target="gauss1", N=8000, depth=4, step_size=0.6)]
    if ctx.quick:
        chains = chains[:1]      # the NUTS chain (XLA compile of the tree builder) is thorough-only; quick has the trace validation
    if not ctx.quick:
        for t in ("quartic1", "gauss2", "shifted1"):
            chains.append(dict(sub="chain", sampler="hmc", target=t, N=20000, num_steps=6, step_size=0.25))
            chains.append(dict(sub="chain", sampler="nuts", target=t, N=6000, depth=5, step_size=0.3))
        chains.append(dict(sub="chain", sampler="nuts", target="quartic1", N=6000, depth=5, step_size=0.3, bias=False))
    for c in chains:
        c["key"] = rng.randint(0, 2 ** 31 - 1)
        ctx.case(c, nontrivial=True)
        ctx.stat(f"chain:{c['sampler']}:{c['target']}")
        res = _oracle_chain(c)
        if res is not None:
            ctx.counterexample(c, *res)
    ctx.notes.append("chains are a statistical test of invariance (6 sigma of the batch-means error), not a proof")


def search(ctx):
    rng = ctx.rng
    for _ in range(ctx.n(60, 600)):
        c = gen_leap(rng, True)
        r = oracle(c)
        if r is not None:
            ctx.counterexample(c, *r)
            return
