"""Native compilation of a line-protocol model driver (group helper of branch `crash`).

`lean --run` interprets the driver; the crash models thread a file system (a chain of closures) through hundreds of
operations per simulated run, which costs seconds per case in the interpreter.  This helper compiles the SAME Lean sources
with Lean's own compiler (`lean -c`, `leanc`; objects of the imported modules through lake's `:o` facet) into an executable
cached under lean/.lake/build/crash_native/, keyed by the hash of the driver and of every imported project module, so a
stale binary is never used.  Any failure falls back to the interpreter (`leanrun.run_driver`)."""
import hashlib
import json
import os
import re
import subprocess

from core import leanrun

LEAN_DIR = leanrun.LEAN_DIR


def _deps(path, seen):
    """project modules imported (transitively) by a Lean source file"""
    src = open(path).read()
    for m in re.findall(r"^import\s+(NiftyVerif\.[\w.]+)", src, flags=re.M):
        if m not in seen:
            seen.append(m)
            _deps(os.path.join(LEAN_DIR, m.replace(".", "/") + ".lean"), seen)
    return seen


def build(driver):
    """-> path of the executable, or None"""
    dpath = os.path.join(LEAN_DIR, driver)
    mods = _deps(dpath, [])
    h = hashlib.sha1(open(dpath, "rb").read())
    for m in sorted(mods):
        h.update(open(os.path.join(LEAN_DIR, m.replace(".", "/") + ".lean"), "rb").read())
    out = os.path.join(LEAN_DIR, ".lake", "build", "crash_native")
    name = os.path.splitext(os.path.basename(driver))[0]
    exe = os.path.join(out, f"{name}_{h.hexdigest()[:16]}")
    if os.path.exists(exe):
        return exe
    os.makedirs(out, exist_ok=True)
    env = leanrun._env()
    try:
        with leanrun.lake_lock():
            if os.path.exists(exe):
                return exe
            p = subprocess.run(["lake", "build"] + [f"+{m}:o" for m in mods], cwd=LEAN_DIR, env=env, capture_output=True,
                               text=True, timeout=1800)
            if p.returncode != 0:
                return None
            cfile = os.path.join(out, f"{name}_{os.getpid()}.c")
            p = subprocess.run(["lake", "env", "lean", "-c", cfile, driver], cwd=LEAN_DIR, env=env, capture_output=True,
                               text=True, timeout=1800)
            if p.returncode != 0 or not os.path.exists(cfile):
                return None
            objs = [os.path.join(LEAN_DIR, ".lake", "build", "ir", m.replace(".", "/") + ".c.o.export") for m in mods]
            if not all(os.path.exists(o) for o in objs):
                return None
            tmp = exe + f".tmp{os.getpid()}"
            p = subprocess.run(["leanc", "-O1", "-o", tmp, cfile] + objs, cwd=LEAN_DIR, env=env, capture_output=True,
                               text=True, timeout=1800)
            os.unlink(cfile)
            if p.returncode != 0:
                return None
            os.replace(tmp, exe)
            return exe
    except (subprocess.TimeoutExpired, OSError):
        return None


def model(driver, lines, timeout=1800):
    """same contract as ctx.model / leanrun.run_driver"""
    if not lines:
        return []
    exe = None if os.environ.get("VERIF_NO_NATIVE") else build(driver)
    if exe is None:
        return leanrun.run_driver(driver, lines)
    inp = "\n".join(json.dumps(l, separators=(",", ":")) for l in lines) + "\n"
    try:
        p = subprocess.run([exe], input=inp, capture_output=True, text=True, timeout=timeout)
    except subprocess.TimeoutExpired:
        raise leanrun.InfraError(f"native driver {driver} timed out")
    if p.returncode != 0:
        return leanrun.run_driver(driver, lines)
    outs = [json.loads(l) for l in p.stdout.split("\n") if l.strip()]
    if len(outs) != len(lines):
        return leanrun.run_driver(driver, lines)
    return outs
