"""C30 helpers: adapters to the real prior transforms (classic + JAX), SciPy references, tolerances.

Every adapter returns numpy arrays and never lets an exception of the real code escape (-> {"error": kind}).
The references are the textbook quantile functions of scipy.stats, evaluated robustly:
Q(Phi(x)) = ppf(cdf(x)) for x < 0 and isf(sf(x)) for x >= 0 (no cancellation in the upper tail).
"""
import math
import warnings

import numpy as np

EPS = 2.0 ** -52
TABLE_XMIN, TABLE_XMAX = -8.2, 8.2          # documented table range of every tabulated transform
XMAX = 7.05                                 # |norm.ppf(1e-12)| = 7.034...: probabilities in [1e-12, 1-1e-12]


_JAX_READY = False


def _jax():
    global _JAX_READY
    import jax
    if not _JAX_READY:
        jax.config.update("jax_enable_x64", True)
        try:    # persistent XLA compilation cache: purely an accelerator for repeated runs (keyed by the HLO), optional
            import os
            import tempfile
            d = os.path.join(tempfile.gettempdir(), "c30_jax_cache")
            os.makedirs(d, exist_ok=True)
            jax.config.update("jax_compilation_cache_dir", d)
            jax.config.update("jax_persistent_cache_min_compile_time_secs", 0.0)
            jax.config.update("jax_persistent_cache_min_entry_size_bytes", 0)
        except Exception:  # noqa: BLE001
            pass
        _JAX_READY = True
    import jax.numpy as jnp
    return jax, jnp


def guard(f):
    """call into the real code; exceptions become canonical error kinds"""
    def g(*a, **k):
        try:
            with warnings.catch_warnings():
                warnings.simplefilter("ignore")
                return f(*a, **k)
        except Exception as e:  # noqa: BLE001 - by design
            return {"error": type(e).__name__}
    return g


def is_err(v):
    return isinstance(v, dict) and "error" in v


# ------------------------------------------------------------------------------------------------
# references
# ------------------------------------------------------------------------------------------------
def textbook_lognormal(mean, std):
    """(mu_l, sigma_l) of the log-normal with the given mean and std (textbook moment matching)"""
    s2 = math.log1p((std / mean) ** 2)
    return math.log(mean) - s2 / 2, math.sqrt(s2)


def ref_dist(fam, par):
    """frozen scipy.stats distribution that the documentation of family `fam` names"""
    from scipy import stats
    if fam == "normal":
        return stats.norm(par["mean"], par["std"])
    if fam == "lognormal":
        lm, ls = textbook_lognormal(par["mean"], par["std"])
        return stats.lognorm(s=ls, scale=math.exp(lm))
    if fam == "uniform":
        return stats.uniform(par["a"], par["b"] - par["a"])
    if fam == "laplace":
        return stats.laplace(par.get("loc", 0.0), par["scale"])
    if fam in ("invgamma", "loginvgamma"):
        return stats.invgamma(par["a"], loc=par.get("loc", 0.0), scale=par["scale"])
    if fam == "gamma":
        return stats.gamma(par["a"], scale=par["scale"])
    if fam == "beta":
        return stats.beta(par["a"], par["b"])
    raise KeyError(fam)


def ref_quantile(dist, x):
    """Q(Phi(x)), robust in both tails"""
    from scipy.stats import norm
    x = np.asarray(x, dtype=float)
    with warnings.catch_warnings():
        warnings.simplefilter("ignore")
        lo = dist.ppf(norm.cdf(np.minimum(x, 0.0)))
        hi = dist.isf(norm.sf(np.maximum(x, 0.0)))
    return np.where(x < 0, lo, hi)


def ref_cond(dist, x, nulp=4.0):
    """how much Q(Phi(x)) moves when Phi(x) is perturbed by `nulp` roundings *of the cdf value* (x >= 0: a number near 1 has
    absolute spacing 1.1e-16; x < 0: relative, times the condition 1+x^2 of Phi itself): the unavoidable error of any
    implementation that goes through norm.cdf"""
    from scipy.stats import norm
    x = np.asarray(x, dtype=float)
    r = ref_quantile(dist, x)
    with warnings.catch_warnings():
        warnings.simplefilter("ignore")
        p = norm.cdf(x)
        s = norm.sf(x)
        d = nulp * EPS * np.maximum(p, 0.5)          # absolute perturbation of the cdf value (x >= 0: spacing of floats near 1)
        # round 2: in the LOWER tail the cdf value is a small float with full relative precision; what is unavoidable there is
        # the relative condition x*phi/Phi ~ x^2 of Phi (erfc argument x/sqrt2 rounded): relative perturbation nulp*eps*(1+x^2)
        dl = nulp * EPS * p * (1.0 + x * x)
        lo_m, lo_p = dist.ppf(np.maximum(p - dl, 0.0)), dist.ppf(np.minimum(p + dl, 1.0))
        hi_m, hi_p = dist.isf(np.minimum(s + d, 1.0)), dist.isf(np.maximum(s - d, 1e-300))
    a = np.where(x < 0, lo_m, hi_m)
    b = np.where(x < 0, lo_p, hi_p)
    c = np.maximum(np.abs(a - r), np.abs(b - r))
    return np.where(np.isfinite(c), c, np.inf)


def ref_xi(dist, y):
    """standard-normal quantile of the target cdf at y: Phi^{-1}(F(y)), robust in both tails"""
    from scipy.stats import norm
    y = np.asarray(y, dtype=float)
    with warnings.catch_warnings():
        warnings.simplefilter("ignore")
        c, s = dist.cdf(y), dist.sf(y)
        return np.where(c < 0.5, norm.ppf(c), norm.isf(s))


def table_f(fam, par, x):
    """the function the tabulated transforms interpolate linearly: log Q(Phi x) (log-space tables) or Q(Phi x)"""
    from scipy import stats
    if fam in ("invgamma", "loginvgamma"):
        # scale is pulled out (loc = 0) or inside the table; either way the table holds log of the quantile
        return np.log(ref_quantile(ref_dist(fam, par), x))
    if fam == "gamma":
        return ref_quantile(stats.gamma(par["a"]), x)
    if fam == "beta":
        return ref_quantile(ref_dist(fam, par), x)
    raise KeyError(fam)


def interp_bounds(fam, par, x, h):
    """(E2, D1): bounds for piecewise-linear interpolation with node spacing h of f = table_f:
    value error E2 = h^2/8 max|f''| and derivative error D1 = h/2 max|f''| over the neighbourhood [x-2h, x+2h]
    (max|f''| estimated by second differences with spacing h at x-h, x, x+h, times 1.5)"""
    x = np.asarray(x, dtype=float)
    f = {k: table_f(fam, par, x + k * h) for k in (-2, -1, 0, 1, 2)}
    d2 = [np.abs(f[k - 1] - 2 * f[k] + f[k + 1]) / h ** 2 for k in (-1, 0, 1)]
    m = 1.5 * np.maximum(np.maximum(d2[0], d2[1]), d2[2])
    m = np.where(np.isfinite(m), m, np.inf)
    return h ** 2 / 8 * m, h / 2 * m


# ------------------------------------------------------------------------------------------------
# adapters: each returns dict(forward=f(x)->y, inverse=g(y)->x | None, jac=j(x)->dy/dx | None, log=bool)
# ------------------------------------------------------------------------------------------------
def _cl_apply(op, x, want_jac=False):
    import nifty.cl as ift
    x = np.asarray(x, dtype=float)
    dom = op.domain
    fld = ift.makeField(dom, x.reshape(dom.shape))
    if not want_jac:
        return np.asarray(op(fld).asnumpy(), dtype=float).reshape(x.shape)
    lin = op(ift.Linearization.make_var(fld))
    one = ift.full(dom, 1.)
    j = np.asarray(lin.jac(one).asnumpy(), dtype=float).reshape(x.shape)
    ja = np.asarray(lin.jac.adjoint(one).asnumpy(), dtype=float).reshape(x.shape)
    v = np.asarray(lin.val.asnumpy(), dtype=float).reshape(x.shape)
    return v, j, ja


def _cl_dom(n):
    import nifty.cl as ift
    return ift.UnstructuredDomain(n)


def build(fam, impl, par, n):
    """construct the real transform `impl` of family `fam` for `n` evaluation points"""
    if impl.startswith("re."):
        return _build_re(fam, impl, par, n)
    return _build_cl(fam, impl, par, n)


def _build_re(fam, impl, par, n):
    jax, jnp = _jax()
    import nifty.re as jft
    from nifty.re.num import stats_distributions as sd
    inv = None
    if fam == "normal":
        f = sd.normal_prior(par["mean"], par["std"])
        inv = sd.normal_invprior(par["mean"], par["std"])
        mk = lambda: jft.NormalPrior(par["mean"], par["std"], name="z", shape=(n,))
    elif fam == "lognormal":
        f = sd.lognormal_prior(par["mean"], par["std"])
        inv = sd.lognormal_invprior(par["mean"], par["std"])
        mk = lambda: jft.LogNormalPrior(par["mean"], par["std"], name="z", shape=(n,))
    elif fam == "uniform":
        if par.get("default"):
            f = sd.uniform_prior()
            mk = lambda: jft.UniformPrior(0.0, 1.0, name="z", shape=(n,))
        else:
            f = sd.uniform_prior(par["a"], par["b"])
            mk = lambda: jft.UniformPrior(par["a"], par["b"], name="z", shape=(n,))
    elif fam == "laplace":
        f = sd.laplace_prior(par["scale"])
        mk = lambda: jft.LaplacePrior(par["scale"], name="z", shape=(n,))
    elif fam == "invgamma":
        kw = dict(loc=par.get("loc", 0.0), step=par.get("step", 0.01))
        f = sd.invgamma_prior(par["a"], par["scale"], **kw)
        inv = sd.invgamma_invprior(par["a"], par["scale"], **kw)
        mk = lambda: jft.InvGammaPrior(par["a"], par["scale"], name="z", shape=(n,), **kw)
    else:
        raise KeyError(fam)
    if impl == "re.array":          # array-valued parameters (one per point), the tree_map / broadcasting path
        A = lambda v: jnp.full((n,), float(v))
        if fam == "normal":
            f, inv = sd.normal_prior(A(par["mean"]), A(par["std"])), sd.normal_invprior(A(par["mean"]), A(par["std"]))
        elif fam == "lognormal":
            f, inv = sd.lognormal_prior(A(par["mean"]), A(par["std"])), sd.lognormal_invprior(A(par["mean"]), A(par["std"]))
        elif fam == "uniform":
            f, inv = sd.uniform_prior(A(par["a"]), A(par["b"])), None
        elif fam == "laplace":
            f, inv = sd.laplace_prior(A(par["scale"])), None
        elif fam == "invgamma":     # documented: `scale` may be array-like for `loc == 0`
            f, inv = sd.invgamma_prior(par["a"], A(par["scale"]), step=par.get("step", 0.01)), None
    if impl == "re.jit":
        f0, inv0 = f, inv
        f = jax.jit(lambda x: f0(x))
        inv = jax.jit(lambda y: inv0(y)) if inv0 is not None else None
    if impl == "re.prior":          # the Model classes of nifty/re/prior.py
        m = mk()
        fwd = lambda x: np.asarray(m({"z": jnp.asarray(x)}), dtype=float)
        return dict(forward=fwd, inverse=None, jac=None)
    fwd = lambda x: np.asarray(f(jnp.asarray(x)), dtype=float)
    ginv = (lambda y: np.asarray(inv(jnp.asarray(y)), dtype=float)) if inv is not None else None
    return dict(forward=fwd, inverse=ginv, jac=None)


def _build_cl(fam, impl, par, n):
    import nifty.cl as ift
    from nifty.cl.library import special_distributions as sp
    dom = _cl_dom(n)
    inv = None
    if fam in ("normal", "lognormal"):
        T = ift.NormalTransform if fam == "normal" else ift.LognormalTransform
        if impl == "cl.scalar":     # N_copies = 0: scalar domain, one point per call
            op = T(par["mean"], par["std"], "k", 0)

            def fwd(x):
                out = []
                for xi in np.asarray(x, dtype=float).ravel():
                    fld = ift.makeField(op.domain, {"k": np.array(xi)})
                    out.append(float(op(fld).asnumpy()))
                return np.array(out)
            return dict(forward=fwd, inverse=None, jac=None)
        if impl == "cl.vecpar":     # one parameter per copy (value_reshaper's array path)
            op = T(np.full(n, par["mean"]), np.full(n, par["std"]), "k", n)
        else:
            op = T(par["mean"], par["std"], "k", n)

        def fwd(x):
            fld = ift.makeField(op.domain, {"k": np.asarray(x, dtype=float)})
            return np.asarray(op(fld).asnumpy(), dtype=float)
        return dict(forward=fwd, inverse=None, jac=None)
    if fam == "uniform":
        op = sp.UniformOperator(dom, loc=par["a"], scale=par["b"] - par["a"])
        inv = lambda y: np.asarray(op.inverse(ift.makeField(dom, np.asarray(y, dtype=float))).asnumpy(), dtype=float)
    elif fam == "laplace":
        op = sp.LaplaceOperator(dom, loc=par.get("loc", 0.0), scale=par["scale"])
        inv = lambda y: np.asarray(op.inverse(ift.makeField(dom, np.asarray(y, dtype=float))).asnumpy(), dtype=float)
    elif fam == "invgamma":
        q = par["scale"]
        if impl == "cl.field":      # Field-valued q
            q = ift.makeField(dom, np.full(n, float(q)))
        if impl == "cl.modemean":
            op = sp.InverseGammaOperator(dom, mode=par["mode"], mean=par["mean"], delta=par.get("step", 0.01))
        else:
            op = sp.InverseGammaOperator(dom, alpha=par["a"], q=q, delta=par.get("step", 0.01))
    elif fam == "loginvgamma":
        q = par["scale"]
        if impl == "cl.field":
            q = ift.makeField(dom, np.full(n, float(q)))
        op = sp.LogInverseGammaOperator(dom, par["a"], q, delta=par.get("step", 0.01))
    elif fam == "gamma":
        d = par.get("step", 0.01)
        if impl == "cl.beta":
            op = sp.GammaOperator(dom, alpha=par["a"], beta=1.0 / par["scale"], delta=d)
        elif impl == "cl.meanvar":
            op = sp.GammaOperator(dom, mean=par["mean"], var=par["var"], delta=d)
        elif impl == "cl.field":
            op = sp.GammaOperator(dom, alpha=par["a"], theta=ift.makeField(dom, np.full(n, float(par["scale"]))), delta=d)
        else:
            op = sp.GammaOperator(dom, alpha=par["a"], theta=par["scale"], delta=d)
    elif fam == "beta":
        op = sp.BetaOperator(dom, par["a"], par["b"], delta=par.get("step", 0.01))
    else:
        raise KeyError(fam)
    return dict(forward=lambda x: _cl_apply(op, x), inverse=inv, jac=lambda x: _cl_apply(op, x, True), op=op)
