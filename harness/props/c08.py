"""C08 — Domain geometry is self-consistent and domain identity is canonical (DESIGN.md §5 C08, design.d/C08.md).

Class E/F correspondence with Driver/C08.lean: RGSpace (1-3 D, dyadic and non-dyadic distances — the floats the code
stores are shipped to the model as exact rationals), LMSpace for all lmax <= 6 / mmax <= lmax, PowerSpace with
natural, linear, logarithmic and custom binnings (bounds and k-lengths taken from the code as exact floats, the
searchsorted / bincount step redone exactly), and histories of DomainTuple.make / MultiDomain.make / pickle round trips
compared by their `is`-equivalence classes.  Oracle: the property statement on the real objects.
"""
import glob
import json
import os
import pickle
from fractions import Fraction

import numpy as np

from core.ctx import VERIF

ID = "C08"
LEAN_MODULES = ["NiftyVerif.Core.Proto", "NiftyVerif.Props.C08"]
DRIVER = "Driver/C08.lean"
OBLIGATIONS = ["NiftyVerif.C08." + t for t in (
    "rg_volume", "uniform_volume_sum", "rg_dual_distances", "hp_volume", "rg_klen_1d_unique", "lm_l_of_index", "lm_size",
    "lm_all_l_present", "pindex_partition", "power_dvol_sum", "power_klen_mean", "natural_binning_nonempty", "linear_binbounds_sorted", "log_binbounds_sorted", "dof_volume_partition",
    "intern_canonical", "pickle_identity", "multidomain_key_order_irrelevant")]
RULE = ("RGSpace: 1-3 D, shapes 1..9 per axis, distances None / dyadic / non-dyadic, position and harmonic; LMSpace: all "
        "lmax<=6 (quick 5), mmax<=lmax; GLSpace/HPSpace small; DOFSpace; PowerSpace over every harmonic RGSpace/LMSpace with natural, "
        "useful linear / logarithmic and random custom bounds; identity: histories of 6-14 make / makemulti / pickle operations "
        "over a pool of 10 descriptions; non-trivial = more than one axis or bin resp. a history with a repeated description; "
        "distinct by canonical case")
TRUSTED_BASE = ["Lean 4.33 kernel; axioms propext/Classical.choice/Quot.sound only (audited every run)",
                "Model/Domains.lean, Model/Intern.lean hand-written; tied by differential comparison: discrete results exact "
                "(class E/F: pindex, rho, layouts, identities), float results against the exactly rounded rational (1 ulp) or 1e-12",
                "ducc0 Gauss-Legendre weights are ducc's; the 1e-12 merging of nearly equal k-lengths and np.logspace rounding are "
                "float effects outside the model (class F takes the produced floats as inputs)"]
ASSUMPTIONS = ["float64 values produced by the code are shipped to the model as exact rationals"]


def F(x):
    return Fraction(float(x))


def fs(x):
    f = F(x)
    return str(f.numerator) if f.denominator == 1 else f"{f.numerator}/{f.denominator}"


def close(a, b, rel=1e-12):
    """purely relative (domains live on every physical scale: distances 1e-9 .. 1e9); exact rationals are compared exactly"""
    fa, fb = Fraction(a) if not isinstance(a, Fraction) else a, Fraction(b) if not isinstance(b, Fraction) else b
    return abs(fa - fb) <= Fraction(rel) * max(abs(fa), abs(fb))


def build_domain(spec):
    import nifty.cl as ift
    k = spec["kind"]
    if k == "rg":
        return ift.RGSpace(tuple(spec["shape"]), distances=spec.get("distances"), harmonic=spec.get("harmonic", False))
    if k == "lm":
        return ift.LMSpace(spec["lmax"], spec["mmax"])
    if k == "gl":
        return ift.GLSpace(spec["nlat"], spec.get("nlon"))
    if k == "hp":
        return ift.HPSpace(spec["nside"])
    if k == "dof":
        return ift.DOFSpace(spec["weights"])
    if k == "un":
        return ift.UnstructuredDomain(tuple(spec["shape"]))
    if k == "power":
        return ift.PowerSpace(build_domain(spec["partner"]), spec.get("binbounds"))
    raise ValueError(k)


# ---- geometry -----------------------------------------------------------------------------------------------------
def gen_rg(rng, harmonic=None):
    nd = rng.choice([1, 1, 2, 2, 3])
    shape = [rng.randrange(1, 10) if nd < 3 else rng.randrange(1, 6) for _ in range(nd)]
    mode = rng.choice(["none", "dyadic", "float", "scalar", "wide", "wide", "near", "near"])
    if mode == "wide":
        # physical units: every axis on its own scale, 1e-9 .. 1e9
        d = [float(f"{rng.randrange(100, 1000)}e{rng.randrange(-11, 8)}") for _ in range(nd)]
        if rng.random() < 0.4:                       # all axes on one (extreme) scale
            e = rng.choice([-11, -10, -9, 6, 7])
            d = [float(f"{rng.randrange(100, 1000)}e{e}") for _ in range(nd)]
    elif mode == "near":
        # nearly, but not exactly, equal distances (inside / outside every float tolerance a shortcut might use)
        d0 = rng.choice([1.0, 0.5, 3.0, 2e-9, 7e6, 0.3])
        d = [d0] + [d0 * (1.0 + rng.choice([-1, 1]) * rng.choice([1e-3, 4e-6, 1e-6, 1e-8, 1e-10])) for _ in range(nd - 1)]
        rng.shuffle(d)
    elif mode == "none":
        d = None
    elif mode == "dyadic":
        d = [rng.choice([0.25, 0.5, 1.0, 2.0, 1.5, 0.125]) for _ in range(nd)]
    elif mode == "scalar":
        d = rng.choice([0.1, 0.5, 3.0, 0.3])
    else:
        d = [round(rng.uniform(0.05, 3.0), 3) for _ in range(nd)]
    return dict(kind="rg", shape=shape, distances=d, harmonic=rng.random() < 0.6 if harmonic is None else harmonic)


def check_rg(ctx, spec, reqs, posts):
    sp = build_domain(spec)
    rd = [float(x) for x in sp._rdistances]
    reqs.append(dict(op="rg", shape=spec["shape"], rdist=[fs(x) for x in rd]))

    def post(m, sp=sp, spec=spec):
        nontriv = len(spec["shape"]) > 1
        ctx.case(dict(op="rg", spec=spec), nontriv)
        ok = m["size"] == sp.size and all(close(a, Fraction(b), 1e-14) for a, b in zip(sp._hdistances, m["hdist"]))
        dv = m["dvol_h"] if sp.harmonic else m["dvol_r"]
        tv = m["total_h"] if sp.harmonic else m["total_r"]
        ok = ok and close(sp.scalar_dvol, Fraction(dv)) and close(sp.total_volume, Fraction(tv))
        ok = ok and all(Fraction(x) == 1 for x in m["dual"])
        if not ok:
            ctx.disagree(dict(op="rg", spec=spec), dict(hdist=list(sp._hdistances), dvol=sp.scalar_dvol, total=sp.total_volume,
                                                         size=sp.size), m, "C08 RGSpace distances / volumes (class T vs exact)")
    posts.append(post)
    if sp.harmonic:
        hd = [float(x) for x in sp.distances]
        reqs.append(dict(op="ksq", shape=spec["shape"], h=[fs(x) for x in hd]))

        def post2(m, sp=sp, spec=spec):
            k = sp.get_k_length_array().asnumpy().reshape(-1)
            ctx.case(dict(op="ksq", spec=spec), len(spec["shape"]) > 1)
            bad = [i for i, (a, b) in enumerate(zip(k, m)) if not close(Fraction(float(a)) ** 2, Fraction(b), 1e-11)]
            if bad or len(k) != len(m):
                ctx.disagree(dict(op="ksq", spec=spec), k.tolist()[:20], m[:20], "C08 RGSpace k-length array vs exact k^2 (class T)")
                return
            # get_unique_k_lengths vs the distinct values of the exact table (class F): one representative per cluster of
            # k-lengths closer than the code's documented merging tolerance (1e-12 of the largest); grids with a gap inside the
            # band [1e-13, 1e-10] * kmax are not compared (branch decision near its threshold)
            import math
            ex = sorted(set(Fraction(b) for b in m))
            kx = [math.sqrt(e) if e.denominator == 1 and e.numerator < 2 ** 52 else float(e) ** 0.5 for e in ex]
            kmax = kx[-1]
            gaps = [b - a for a, b in zip(kx, kx[1:])]
            if any(1e-13 * kmax < g < 1e-10 * kmax for g in gaps):
                ctx.skipped_near_threshold += 1
                return
            clusters = [[kx[0]]]
            for g, v in zip(gaps, kx[1:]):
                if g <= 1e-13 * kmax:
                    clusters[-1].append(v)
                else:
                    clusters.append([v])
            u = [float(x) for x in sp.get_unique_k_lengths()]
            ok = len(u) == len(clusters) and all(c[0] - 1e-10 * kmax <= x <= c[-1] + 1e-10 * kmax for x, c in zip(u, clusters))
            ctx.stat("unique-k:%s" % ("1D" if len(spec["shape"]) == 1 else "nD"))
            if not ok:
                ctx.disagree(dict(op="unique-k", spec=spec), dict(n=len(u), first=u[:8]),
                             dict(n=len(clusters), first=[c[0] for c in clusters[:8]]),
                             "C08 get_unique_k_lengths vs the distinct values of the exact k-length table (class F)")
        posts.append(post2)


def oracle_geometry(spec):
    """property on the real objects: volumes, dual distances, k tables"""
    sp = build_domain(spec)
    sig = dict(kind=spec["kind"], what="")
    dv = sp.dvol
    tot = sp.size * dv if np.isscalar(dv) else float(np.sum(dv))
    if not close(sp.total_volume, tot, 1e-11):
        return (f"total_volume {sp.total_volume} != sum of pixel volumes {tot}", dict(sig, what="total-volume"))
    if sp.scalar_dvol is not None and not np.isscalar(dv):
        return ("scalar_dvol set but dvol is an array", dict(sig, what="scalar-dvol"))
    if spec["kind"] in ("hp", "gl") and not close(tot, 4 * np.pi, 1e-11):
        return (f"the pixels of a {spec['kind']} sphere pixelisation have total volume {tot}, not 4 pi",
                dict(sig, what="sphere-area"))
    if spec["kind"] == "rg":
        cod = sp.get_default_codomain()
        prod = np.array(sp.shape) * np.array(sp.distances) * np.array(cod.distances)
        if not np.allclose(prod, 1.0, rtol=1e-12, atol=0):
            return (f"hdistances*rdistances*shape = {prod.tolist()} != 1", dict(sig, what="dual-distances"))
        ext = float(np.prod(np.array(sp.shape) * np.array(sp.distances)))
        if not close(sp.total_volume, ext, 1e-11):
            return ("total_volume is not the product of the extents", dict(sig, what="extent"))
    if getattr(sp, "harmonic", False) and spec["kind"] in ("rg", "lm"):
        k = sp.get_k_length_array().asnumpy().reshape(-1)
        u = np.asarray(sp.get_unique_k_lengths(), dtype=np.float64)
        tol = 1e-9 * float(k.max())           # relative to the largest k-length: domains live on every physical scale
        if u.size == 0:
            return ("get_unique_k_lengths() is empty although the k-length table is not", dict(sig, what="unique-empty"))
        if not np.all(np.diff(u) > 0):
            return ("unique k-lengths are not strictly increasing", dict(sig, what="unique-sorted"))
        for x in np.unique(k):
            if np.min(np.abs(u - x)) > tol:
                return (f"k-length {x} of the table is missing from get_unique_k_lengths", dict(sig, what="k-missing"))
        for x in u:
            if np.min(np.abs(k - x)) > tol:
                return (f"unique k-length {x} is not attained by any pixel", dict(sig, what="unique-not-attained"))
    return None


def oracle_power(spec):
    sig = dict(kind="power", what="")
    try:
        ps = build_domain(spec)
    except ValueError:
        return None                  # the constructor refuses binnings with empty bins
    hp = ps.harmonic_partner
    k = hp.get_k_length_array().asnumpy().reshape(-1)
    pi = np.asarray(ps.pindex).reshape(-1)
    nb = ps.size
    rho = np.bincount(pi, minlength=nb)
    if len(rho) != nb or rho.sum() != hp.size or (rho == 0).any():
        return ("pindex does not partition the harmonic partner into non-empty bins", dict(sig, what="partition"))
    if not np.allclose(ps.dvol, rho * hp.scalar_dvol, rtol=1e-13, atol=0):
        return ("bin volumes are not rho * dvol", dict(sig, what="dvol"))
    km = np.bincount(pi, weights=k, minlength=nb) / rho
    if not np.allclose(ps.k_lengths, km, rtol=1e-12, atol=1e-300):
        return ("k_lengths are not the mean k-length of the members", dict(sig, what="k-mean"))
    if not close(ps.total_volume, hp.total_volume, 1e-11):
        return ("PowerSpace.total_volume differs from the partner's", dict(sig, what="total"))
    order = np.argsort(k, kind="stable")
    if np.any(np.diff(pi[order]) < 0):
        return ("bins are not ordered by k-length", dict(sig, what="order"))
    for b in range(nb):
        mk = k[pi == b]
        if b + 1 < nb and mk.max() > k[pi == b + 1].min():
            return ("bins overlap in k", dict(sig, what="overlap"))
    return None


def check_power(ctx, pspec, reqs, posts):
    """class F: bounds and k-lengths as the code computed them, discrete step redone exactly"""
    import nifty.cl as ift
    hp = build_domain(pspec["partner"])
    k = hp.get_k_length_array().asnumpy().reshape(-1)
    bb = pspec.get("binbounds")
    if bb is None:
        u = np.asarray(hp.get_unique_k_lengths(), dtype=np.float64)
        bounds = 0.5 * (u[:-1] + u[1:])
        reqs.append(dict(op="midpoints", u=[fs(x) for x in u]))

        def postm(m, bounds=bounds, pspec=pspec):
            ctx.compare(dict(op="midpoints", spec=pspec), [fs(x) for x in bounds], [fs(float(Fraction(x))) for x in m],
                        note="C08 natural bin bounds = correctly rounded midpoints (class F)", nontrivial=len(bounds) > 1)
        posts.append(postm)
    else:
        bounds = np.asarray(bb, dtype=np.float64)
        if pspec.get("how", "").startswith("linear") and len(bounds) >= 2:
            # np.linspace(first, last, nbin-1) vs the exact linearBounds of the model (class T; ends exact)
            reqs.append(dict(op="linspace", nbin=len(bounds) + 1, first=fs(bounds[0]), last=fs(bounds[-1])))

            def postl(m, bounds=bounds, pspec=pspec):
                ctx.case(dict(op="linspace", spec=pspec), len(bounds) > 2)
                ok = len(m) == len(bounds) and all(close(a, Fraction(b), 1e-13) for a, b in zip(bounds, m)) and \
                    Fraction(float(bounds[0])) == Fraction(m[0]) and Fraction(float(bounds[-1])) == Fraction(m[-1])
                if not ok:
                    ctx.disagree(dict(op="linspace", spec=pspec), bounds.tolist(), m, "C08 linear_binbounds vs exact linspace (class T)")
            posts.append(postl)
    try:
        ps = ift.PowerSpace(hp, None if bb is None else list(bb))
        impl = dict(pindex=np.asarray(ps.pindex).reshape(-1).tolist(), rho=None, dvol=list(map(float, ps.dvol)),
                    klen=list(map(float, ps.k_lengths)))
    except ValueError:
        impl = {"error": "ValueError"}
    reqs.append(dict(op="power", bounds=[fs(x) for x in bounds], k=[fs(x) for x in k], pdvol=fs(hp.scalar_dvol)))

    def post(m, impl=impl, pspec=pspec, nb=len(bounds) + 1):
        case = dict(op="power", spec=pspec)
        ctx.stat("power:" + ("error" if "error" in impl else "ok") + ":" + pspec.get("how", "custom"))
        if "error" in impl or "error" in m:
            ctx.compare(case, impl, m, note="C08 PowerSpace: empty-bin rejection", nontrivial=True)
            return
        ok = ctx.compare(case, impl["pindex"], m["pindex"], note="C08 PowerSpace.pindex = searchsorted(bounds, k) redone exactly (class F)",
                         nontrivial=nb > 2)
        if not ok:
            return
        # rho * dvol is a single correctly rounded product
        if [float(x) for x in impl["dvol"]] != [float(Fraction(x)) for x in m["dvol"]]:
            ctx.disagree(case, impl["dvol"], m["dvol"], "C08 PowerSpace.dvol = rho * dvol (class F)")
        if not all(close(a, Fraction(b)) for a, b in zip(impl["klen"], m["klen"])):
            ctx.disagree(case, impl["klen"], m["klen"], "C08 PowerSpace.k_lengths = bin means (class T)")
    posts.append(post)


def gen_power_specs(rng, partner):
    import nifty.cl as ift
    out = [dict(kind="power", partner=partner, binbounds=None, how="natural")]
    hp = build_domain(partner)
    for log in (False, True):
        try:
            bb = ift.PowerSpace.useful_binbounds(hp, logarithmic=log)
            out.append(dict(kind="power", partner=partner, binbounds=[float(x) for x in bb], how="log" if log else "linear"))
            nb = rng.choice([3, 4, 5])
            bb = ift.PowerSpace.useful_binbounds(hp, logarithmic=log, nbin=nb)
            out.append(dict(kind="power", partner=partner, binbounds=[float(x) for x in bb], how=("log" if log else "linear") + "-n"))
        except ValueError:
            pass
    k = hp.get_k_length_array().asnumpy().reshape(-1)
    u = np.unique(k)
    if len(u) >= 3:
        # custom bounds: some between unique values, some exactly ON a k-length (the side='left' edge case)
        n = rng.choice([1, 2, 3])
        picks = sorted(rng.sample(range(len(u) - 1), min(n, len(u) - 1)))
        bb = []
        for p in picks:
            bb.append(float(u[p]) if rng.random() < 0.4 and u[p] > 0 else float(0.5 * (u[p] + u[p + 1])))
        out.append(dict(kind="power", partner=partner, binbounds=sorted(set(bb)), how="custom"))
    return out


# ---- identity ------------------------------------------------------------------------------------------------------
POOL = [
    [dict(kind="rg", shape=[4], distances=None, harmonic=False)],
    [dict(kind="rg", shape=[4], distances=0.25, harmonic=False)],          # equal to the previous one (1/4)
    [dict(kind="rg", shape=[4], distances=None, harmonic=True)],
    [dict(kind="lm", lmax=2, mmax=2), dict(kind="rg", shape=[2, 3], distances=[0.5, 1.0], harmonic=False)],
    [dict(kind="un", shape=[3])],
    [dict(kind="power", partner=dict(kind="rg", shape=[8], distances=None, harmonic=True), binbounds=None)],
    [dict(kind="hp", nside=1), dict(kind="gl", nlat=2, nlon=3)],
    [],
    [dict(kind="power", partner=dict(kind="rg", shape=[8], distances=None, harmonic=True), binbounds=[0.5, 2.5])],
    [dict(kind="dof", weights=[1.0, 2.0])],
]


def desc_of(tup):
    """what `equal description` means: equality of the domains as values (type and defining parameters)"""
    doms = tuple(build_domain(s) for s in tup)
    return doms


def gen_history(rng, n):
    hist = []
    nobj = 0
    for _ in range(n):
        r = rng.random()
        if r < 0.5 or nobj == 0:
            hist.append(dict(make=rng.randrange(len(POOL)), how=rng.randrange(3)))
        elif r < 0.8:
            nk = rng.choice([1, 2, 3])
            keys = rng.sample(["a", "b", "c", "d"], nk)
            hist.append(dict(makemulti=[[k, rng.randrange(len(POOL))] for k in keys]))
        else:
            hist.append(dict(pickle=rng.randrange(nobj)))
        nobj += 1
    return hist


def run_history_real(hist):
    import nifty.cl as ift
    objs = []
    for h in hist:
        if "make" in h:
            doms = desc_of(POOL[h["make"]])
            how = h.get("how", 0)
            if how == 1:
                o = ift.DomainTuple.make(list(doms))
            elif how == 2 and len(doms) == 1:
                o = ift.DomainTuple.make(doms[0])
            else:
                o = ift.DomainTuple.make(doms)
        elif "makemulti" in h:
            o = ift.MultiDomain.make({k: desc_of(POOL[p]) for k, p in h["makemulti"]})
        else:
            o = pickle.loads(pickle.dumps(objs[h["pickle"]]))
        objs.append(o)
    # identity classes by `is`
    reps, cls = [], []
    for o in objs:
        for i, r in enumerate(reps):
            if r is o:
                cls.append(i)
                break
        else:
            reps.append(o)
            cls.append(len(reps) - 1)
    return objs, cls


# which pool entries describe the same domains AS VALUES — stated here, not asked from Domain.__eq__ (which is under test):
# RGSpace((4,)) has distances 1/4, so entry 1 is entry 0 written differently; all others are pairwise different
POOL_CANON = {1: 0}


def pool_key(p):
    """canonical description string of a pool entry: equal values <-> equal strings"""
    return f"P{POOL_CANON.get(p, p)}"


def model_history(hist):
    out = []
    for h in hist:
        if "make" in h:
            out.append(dict(make=pool_key(h["make"])))
        elif "makemulti" in h:
            out.append(dict(makemulti=[[k, pool_key(p)] for k, p in h["makemulti"]]))
        else:
            out.append(dict(pickle=h["pickle"]))
    return out


def classes(ids):
    seen, out = [], []
    for i in ids:
        key = json.dumps(i)
        if key not in seen:
            seen.append(key)
        out.append(seen.index(key))
    return out


def oracle_identity(case):
    hist = case["hist"]
    objs, cls = run_history_real(hist)
    # what must be identical: equal descriptions (as values), also through pickling
    descs = []
    for h, o in zip(hist, objs):
        if "make" in h:
            descs.append(("t", pool_key(h["make"])))
        elif "makemulti" in h:
            descs.append(("m", tuple(sorted((k, pool_key(p)) for k, p in h["makemulti"]))))
        else:
            descs.append(descs[h["pickle"]])
    for i in range(len(objs)):
        for j in range(i):
            same_desc = descs[i] == descs[j]
            same_obj = objs[i] is objs[j]
            if same_desc and not same_obj:
                what = "pickle" if ("pickle" in hist[i] or "pickle" in hist[j]) else "make"
                return (f"objects {j} and {i} have equal descriptions but are not identical", dict(kind="identity", what=what))
            if same_obj and not same_desc:
                return (f"objects {j} and {i} are identical but were made from different descriptions", dict(kind="identity", what="merged"))
    return None


def oracle(case):
    k = case.get("op")
    if k == "geometry":
        return oracle_geometry(case["spec"])
    if k == "powerspace":
        return oracle_power(case["spec"])
    if k == "identity":
        return oracle_identity(case)
    return None


def shrink(case):
    if case.get("op") == "identity":
        h = case["hist"]
        for i in range(len(h) - 1, -1, -1):
            # dropping an op is only safe if no later pickle refers to it or beyond
            if all(("pickle" not in x) or x["pickle"] < i for x in h[i + 1:]):
                yield dict(case, hist=h[:i] + h[i + 1:])


def _corpus():
    out = []
    for p in sorted(glob.glob(os.path.join(VERIF, "corpus", ID, "*.json"))):
        try:
            d = json.load(open(p))
            out.append(d.get("case", d))
        except Exception:
            pass
    return out


def run(ctx):
    rng = ctx.rng
    reqs, posts = [], []

    def add(req, post):
        reqs.append(req)
        posts.append(post)
    # --- regular grids
    rgs = [dict(kind="rg", shape=[8], distances=None, harmonic=True), dict(kind="rg", shape=[4, 6], distances=[0.5, 0.25], harmonic=True),
           dict(kind="rg", shape=[3, 5], distances=[0.7, 0.3], harmonic=True), dict(kind="rg", shape=[3, 4, 5], distances=[1., 2., 0.5], harmonic=True),
           dict(kind="rg", shape=[5], distances=0.3, harmonic=False), dict(kind="rg", shape=[1], distances=None, harmonic=True),
           # anisotropic grids that are "equal" only under a float tolerance: nearly square pixels, physical units
           dict(kind="rg", shape=[4, 6], distances=[1.0, 1.000004], harmonic=True),
           dict(kind="rg", shape=[5, 5], distances=[0.3, 0.3 * (1 + 1e-8)], harmonic=True),
           dict(kind="rg", shape=[3, 4, 5], distances=[2e-9, 3e-9, 2.5e-9], harmonic=True),
           dict(kind="rg", shape=[16, 12], distances=[1 / (16 * 1e7), 1 / (12 * 3e7)], harmonic=True),
           dict(kind="rg", shape=[6, 4], distances=[4e8, 4e8 * (1 - 1e-6)], harmonic=True),
           dict(kind="rg", shape=[6, 4], distances=[1e7, 3e7], harmonic=False)]
    rgs = [c["spec"] for c in _corpus() if c.get("op") == "geometry" and c["spec"]["kind"] == "rg"] + rgs
    rgs += [gen_rg(rng) for _ in range(ctx.n(30, 400))]
    for spec in rgs:
        check_rg(ctx, spec, reqs, posts)
        ctx.stat("rg:%dD:%s" % (len(spec["shape"]), "harmonic" if spec["harmonic"] else "position"))
        r = oracle_geometry(spec)
        if r:
            ctx.counterexample(dict(op="geometry", spec=spec), *r)
    # --- spherical harmonics, all lmax/mmax
    L = ctx.n(5, 6)
    for lmax in range(L + 1):
        for mmax in range(lmax + 1):
            spec = dict(kind="lm", lmax=lmax, mmax=mmax)
            sp = build_domain(spec)
            impl = dict(k=[int(x) for x in sp.get_k_length_array().asnumpy()], size=sp.size)
            add(dict(op="lm", lmax=lmax, mmax=mmax),
                lambda m, impl=impl, spec=spec: ctx.compare(dict(op="lm", spec=spec), impl, dict(k=m["k"], size=m["size"]),
                                                             note="C08 LMSpace layout / size (class E)", nontrivial=spec["mmax"] > 0))
            ctx.stat("lm")
            r = oracle_geometry(spec)
            if r:
                ctx.counterexample(dict(op="geometry", spec=spec), *r)
    ctx.extra["lm_exhaustive_upto_lmax"] = L
    for spec in [dict(kind="gl", nlat=2, nlon=3), dict(kind="gl", nlat=4), dict(kind="gl", nlat=3, nlon=6), dict(kind="hp", nside=1),
                 dict(kind="hp", nside=2), dict(kind="hp", nside=4), dict(kind="dof", weights=[1., 2., 0.5]),
                 dict(kind="dof", weights=[rng.choice([0.25, 1.5, 3.0]) for _ in range(rng.randrange(1, 6))])]:
        ctx.case(dict(op="geometry", spec=spec), True)
        ctx.stat(spec["kind"])
        r = oracle_geometry(spec)
        if r:
            ctx.counterexample(dict(op="geometry", spec=spec), *r)
    # --- power spaces over every harmonic partner
    partners = [s for s in rgs if s["harmonic"]][:ctx.n(16, 150)]
    partners += [dict(kind="lm", lmax=l, mmax=m) for l, m in ((2, 2), (3, 1), (4, 4), (5, 0))]
    for partner in partners:
        try:
            pspecs = gen_power_specs(rng, partner)
        except Exception as e:     # the real code failed while proposing bounds / building k tables for a valid partner
            ctx.compare(dict(op="power-setup", partner=partner), {"error": type(e).__name__ + ":" + str(e)[:80]}, "ok",
                        note="C08 real code raised on a valid harmonic partner")
            continue
        for ps in pspecs:
            check_power(ctx, ps, reqs, posts)
            r = oracle_power(ps)
            if r:
                ctx.counterexample(dict(op="powerspace", spec=ps), *r)
    # --- identity
    hists = [c["hist"] for c in _corpus() if c.get("op") == "identity"]
    hists += [gen_history(rng, rng.randrange(6, 15)) for _ in range(ctx.n(40, 400))]
    for hist in hists:
        _, cls = run_history_real(hist)

        def posth(m, hist=hist, cls=cls):
            ctx.compare(dict(op="identity", hist=hist), cls, classes(m), note="C08 identity classes of make / pickle histories",
                        nontrivial=len(set(cls)) < len(cls))
        add(dict(op="intern", hist=model_history(hist)), posth)
        ctx.stat("identity-history")
        r = oracle_identity(dict(hist=hist))
        if r:
            ctx.counterexample(dict(op="identity", hist=hist), *r)
    outs = ctx.model(DRIVER, reqs)
    for post, m in zip(posts, outs):
        post(m)


def search(ctx):
    for _ in range(200):
        spec = gen_rg(ctx.rng)
        r = oracle_geometry(spec)
        if r:
            ctx.counterexample(dict(op="geometry", spec=spec), *r)
            return
