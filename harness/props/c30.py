"""C30 — Prior transforms map a standard normal to the documented distribution (DESIGN.md §5 C30, design.d/C30.md).

Proof part: lean/NiftyVerif/Props/C30.lean over the model lean/NiftyVerif/Model/Priors.lean.
Tie: (a) model vs code (Lean driver; class T for the elementary formulas with the special-function values shipped as
numbers, class E for `interpolator`'s table abscissae and piecewise-linear step on dyadic tables, class T with the real
log-table shipped for `invgamma_prior`); (b) the property oracle on the real code only: quantiles against scipy.stats,
monotonicity on sorted grids, inverse round trips, classic Jacobians against the analytic pdf ratio, classic vs JAX.
"""
import glob
import json
import math
import os
import warnings
from fractions import Fraction

import numpy as np

from core.ctx import VERIF
from props import _c30_impl as I
from props import _c30_extreme as X

ID = "C30"
LEAN_MODULES = ["NiftyVerif.Core.Proto", "NiftyVerif.Model.Priors", "NiftyVerif.Props.C30"]   # the driver imports the first two
DRIVER = "Driver/C30.lean"
OBLIGATIONS = ["NiftyVerif.C30." + t for t in (
    "strictMono_normal", "quantile_normal", "cdf_normal", "inverse_roundtrip_normal",
    "lognormal_moments_value", "lognormal_moments_spec", "lognormal_moments_spec_cl", "lognormal_moments_rejects", "strictMono_lognormal",
    "strictMono_lognormal_prior", "quantile_lognormal", "cdf_lognormal", "inverse_roundtrip_lognormal",
    "strictMono_uniform", "strictMono_uniform_cl", "quantile_uniform", "range_uniform", "inverse_roundtrip_uniform",
    "uniform_jacobian",
    "laplaceRe_eq", "quantile_laplace", "quantile_laplace_cl", "cdf_laplace", "strictMono_laplace",
    "inverse_roundtrip_laplace", "laplace_jacobian",
    "invgamma_mode_mean_spec", "invgamma_mode_mean_rejects", "gamma_mean_var_spec",
    "interp_monotone", "interp_strictMono", "interp_nodes", "interp_between", "interp_range",
    "invgamma_monotone_and_step_error", "inverse_roundtrip_interp", "inverse_roundtrip_invgamma",
    "interpolator_grid_covers", "invgamma_exact_at_nodes", "strictMono_tabulated_cl_partial", "tabulated_cl_witness", "quantile_tabulated_cl",
    "invgamma_cl_jacobian", "pushforward_cdf", "invgamma_prior_spec", "interpolator_grid_num_covers", "classic_eq_jax",
    "log1pStable_eq", "lognormal_moments_stable", "lognormal_moments_stable_value")]
RULE = ("case = (family, parameters, implementations, sorted standard-normal points x = Phi^-1(p) with p in [1e-12, 1-1e-12], "
        "log-uniform in min(p,1-p), both tails); parameters log-uniform over the documented ranges; non-trivial = points in "
        "both tails and non-default parameters; distinct by canonical JSON of the case. Separate streams: exact dyadic tables "
        "for `interpolator` (class E), malformed parameters (error kinds); EXTREME stream (round 2): one case per decade of the "
        "ratio std/mean | (b-a)/|a| | scale/|loc| in [1e-9, 1e3] for every elementary family and for lognormal_moments, "
        "locations/scales cycling through 1e-12..1e-6 | 1e-3..1e3 | 1e6..1e12 (and mean = 1, a = 0, mean = 0 exactly), points "
        "incl. both 1e-12 tails, 0 and +-1e-8, float64 / float32-input / float32-default (x64 off) modes of the JAX code, "
        "gamma-family shapes 0.06..1e4 and scales 1e-12..1e12; tolerance = 512 x eps(dtype) x analytic conditioning")
TRUSTED_BASE = [
    "Lean 4.33 kernel; axioms propext/Classical.choice/Quot.sound only (audited every run)",
    "hypotheses on the special functions, stated explicitly in the theorems (Priors.StdNormal: Phi strictly increasing, "
    "Phi(-x)=1-Phi(x), 0<Phi, Phi/Phi^-1 inverse pair on (0,1); logPhi = log∘Phi; HasDerivAt Phi (phi x) x) — checked "
    "numerically against SciPy/JAX on a grid every run (a test, not a proof)",
    "scipy.stats quantile/cdf/pdf functions (norm, lognorm, uniform, laplace, invgamma, gamma, beta) as reference and as the "
    "tabulated functions; scipy CubicSpline; jnp.interp (executed; its documented piecewise-linear semantics is what the model "
    "states and the class-E stream compares exactly)",
    "harness: generators, tolerances (stated in design.d/C30.md), Fraction <-> float64 conversion",
]
ASSUMPTIONS = ["IEEE rounding is outside the model (class T, 1e-9 relative + conditioning of the cdf value near 1; extreme stream: "
               "512 x eps x stated conditioning, measured noise <= 4 units)",
               "float32 on XLA-CPU: jnp.exp of equal float32 arguments is position dependent (vector lanes vs remainder loop), "
               "so the exact-order monotonicity check carries a 2-ulp slack in the float32 modes (exact in float64)",
               "classic tabulated operators use scipy's CubicSpline although documented as linear interpolation: the spline is "
               "shipped to the model as a function parameter; the oracle applies the linear-interpolation error bound "
               "h^2/8*max|f''| (with factor 2) to both"]

SLACK = 2.0            # factor on the proven interpolation error bound
RTOL = 1e-9            # class T


# ------------------------------------------------------------------------------------------------
# small helpers
# ------------------------------------------------------------------------------------------------
def frac(v):
    n, d = Fraction(float(v)).as_integer_ratio()
    return f"{n}/{d}" if d != 1 else str(n)


def unfrac(s):
    if s in ("nan", "inf", "-inf"):
        return float(s)
    return float(Fraction(s))


def _f(v):
    return float(np.asarray(v, dtype=float))


FAMS = ("normal", "lognormal", "uniform", "laplace", "invgamma", "loginvgamma", "gamma", "beta")
TABLE_FAMS = ("invgamma", "loginvgamma", "gamma", "beta")


def gen_points(rng, n, with_zero=True):
    """sorted distinct standard-normal points: 2/3 log-uniform in min(p, 1-p) over [1e-12, 1/2] (both tails),
    1/3 uniform in p (the centre, where the Laplace branches meet), sometimes exactly 0"""
    from scipy.stats import norm
    xs = set()
    while len(xs) < n:
        u = rng.random()
        if with_zero and u < 0.04:
            xs.add(0.0)
            continue
        if u < 0.36:
            xs.add(float(norm.ppf(rng.uniform(0.02, 0.98))))
            continue
        q = math.exp(rng.uniform(math.log(1e-12), math.log(0.5)))
        x = float(norm.ppf(q))
        xs.add(x if rng.random() < 0.5 else -x)
    return sorted(xs)


def _lu(rng, lo, hi):
    return float(math.exp(rng.uniform(math.log(lo), math.log(hi))))


def gen_case(rng, fam, npts, k=None):
    """structured, valid parameters over the documented ranges; `k` (case index) stratifies the variants of a family"""
    k = rng.randrange(1 << 20) if k is None else k
    step = rng.choice([0.01, 0.01, 0.02, 1 / 64, 0.05])
    if fam == "normal":
        par = dict(mean=rng.choice([0.0, 1.0, -1.0]) * _lu(rng, 1e-2, 1e2), std=_lu(rng, 1e-3, 1e3))
        impls = ["re.func", "re.prior", "re.jit", "re.array", "cl.vector", "cl.vecpar", "cl.scalar"]
    elif fam == "lognormal":
        m = _lu(rng, 1e-2, 1e2)
        par = dict(mean=m, std=m * _lu(rng, 1e-2, 10))
        impls = ["re.func", "re.prior", "re.jit", "re.array", "cl.vector", "cl.vecpar", "cl.scalar"]
    elif fam == "uniform":
        if k % 4 == 3:
            par = dict(a=0.0, b=1.0, default=True)
            impls = ["re.func", "re.prior", "cl.op"]
        elif k % 4 == 1:
            # special values around the (0.0, 1.0) fast path of `uniform_prior` (exact float comparisons in the code): the pair
            # itself passed explicitly, and pairs sharing only one of its two values
            a, b = [(0.0, 1.0), (0.25, 1.0), (0.0, 2.0), (-1.0, 1.0), (0.0, 0.5), (1.0, 2.0), (-1.0, 0.0), (0.5, 1.0)][(k // 4) % 8]
            par = dict(a=a, b=b)
            impls = ["re.func", "re.prior", "re.jit", "re.array", "cl.op"]
        else:
            a = rng.choice([0.0, 1.0, -1.0]) * _lu(rng, 1e-2, 10)
            par = dict(a=a, b=a + _lu(rng, 1e-3, 1e3))
            impls = ["re.func", "re.prior", "re.jit", "re.array", "cl.op"]
    elif fam == "laplace":
        if k % 2 == 0:
            par = dict(loc=0.0, scale=_lu(rng, 1e-2, 1e2))
            impls = ["re.func", "re.prior", "re.jit", "re.array", "cl.op"]
        else:
            par = dict(loc=rng.choice([1.0, -1.0]) * _lu(rng, 1e-2, 10), scale=_lu(rng, 1e-2, 1e2))
            impls = ["cl.op"]
    elif fam == "invgamma":
        u = (k % 4) / 4 + 0.01
        if u < 0.25:       # mode / mean parametrisation of the classic operator
            mode = _lu(rng, 1e-2, 1e2)
            mean = mode * (1 + _lu(rng, 0.05, 20))
            a = 2 / (mean / mode - 1) + 1          # textbook: mode = q/(a+1), mean = q/(a-1)
            par = dict(a=a, scale=mode * (a + 1), mode=mode, mean=mean, step=step)
            impls = ["cl.modemean"]
        elif u < 0.5:      # JAX with a location
            par = dict(a=_lu(rng, 0.3, 50), scale=_lu(rng, 1e-2, 1e2), loc=_lu(rng, 0.05, 5), step=step)
            impls = ["re.func", "re.prior"]
        else:
            par = dict(a=_lu(rng, 0.3, 50), scale=_lu(rng, 1e-2, 1e2), step=step)
            impls = ["re.func", "re.prior", "re.jit", "re.array", "cl.op", "cl.field"]
    elif fam == "loginvgamma":
        par = dict(a=_lu(rng, 0.3, 50), scale=_lu(rng, 1e-2, 1e2), step=step)
        impls = ["cl.op", "cl.field"]
    elif fam == "gamma":
        a, sc = _lu(rng, 0.3, 50), _lu(rng, 1e-2, 1e2)
        par = dict(a=a, scale=sc, mean=a * sc, var=a * sc * sc, step=step)   # textbook: mean = a*theta, var = a*theta^2
        impls = ["cl.op", "cl.beta", "cl.field", "cl.meanvar"]
    elif fam == "beta":
        par = dict(a=_lu(rng, 0.5, 50), b=_lu(rng, 0.5, 50), step=step)
        impls = ["cl.op"]
    else:
        raise KeyError(fam)
    if fam in TABLE_FAMS:          # two points exactly on table nodes: no interpolation error allowed there
        grid = np.arange(I.TABLE_XMIN, I.TABLE_XMAX, par["step"])
        grid = grid[np.abs(grid) < 7.0]
        xs = set(gen_points(rng, max(npts - 2, 1)))
        while len(xs) < npts:      # always exactly `npts` points: few distinct array shapes, few XLA compilations
            xs.add(float(grid[rng.randrange(len(grid))]))
        x = sorted(xs)
    else:
        x = gen_points(rng, npts)
    return dict(op="transform", fam=fam, par=par, impls=impls, x=x)


def gen_table_extreme(rng, k, npts):
    """round 2: the gamma family at the extremes of shape (0.06 .. 1e4; below 0.052 the documented table itself overflows at
    x = 8.2) and scale (1e-12 .. 1e12); same oracle (`judge`) and tolerances as the ordinary stream"""
    fam = ("invgamma", "gamma", "loginvgamma", "beta", "invgamma", "gamma")[k % 6]
    step = [0.01, 0.02, 0.05][k % 3]
    sc = _lu(rng, *[(1e-12, 1e-6), (1e6, 1e12)][(k // 6) % 2])
    a = _lu(rng, *[(0.06, 0.3), (50.0, 1e4)][(k // 2) % 2])
    if fam in ("gamma", "beta") and step >= 0.02 and a <= 0.3:
        a = _lu(rng, 0.21, 0.3)       # shape <= 0.2 with a coarse table: finding C30-classic_spline_small_shape (corpus replay)
    if fam == "invgamma" and k % 6 == 4:
        if (k // 6) % 2 == 0:     # mode / mean with mean/mode - 1 in [1e-3, 1e3]
            mode = sc
            mean = mode * (1 + _lu(rng, 1e-3, 1e3))
            al = 2 / (mean / mode - 1) + 1
            par, impls = dict(a=al, scale=mode * (al + 1), mode=mode, mean=mean, step=step), ["cl.modemean"]
        else:                      # JAX with a location far away from / far inside the scale
            par, impls = dict(a=_lu(rng, 0.3, 50), scale=sc, loc=sc * _lu(rng, 1e-6, 1e6), step=step), ["re.func", "re.prior"]
    elif fam == "invgamma":
        par, impls = dict(a=a, scale=sc, step=step), ["re.func", "re.prior", "re.jit", "cl.op", "cl.field"]
    elif fam == "loginvgamma":
        par, impls = dict(a=a, scale=sc, step=step), ["cl.op", "cl.field"]
    elif fam == "gamma":
        par = dict(a=a, scale=sc, mean=a * sc, var=a * sc * sc, step=step)
        impls = ["cl.op", "cl.beta", "cl.field", "cl.meanvar"]
    else:
        b = _lu(rng, *[(0.06 if step < 0.02 else 0.21, 0.3), (50.0, 1e4)][(k // 4) % 2])
        par, impls = dict(a=a, b=b, step=step), ["cl.op"]
    grid = np.arange(I.TABLE_XMIN, I.TABLE_XMAX, par["step"])
    grid = grid[np.abs(grid) < 7.0]
    xs = set(X.gen_xpoints(rng, npts - 2))
    while len(xs) < npts:
        xs.add(float(grid[rng.randrange(len(grid))]))
    return dict(op="transform", fam=fam, par=par, impls=impls, x=sorted(xs), extreme=True)


# ------------------------------------------------------------------------------------------------
# evaluation of the real code
# ------------------------------------------------------------------------------------------------
def evaluate(case):
    """run every implementation named in the case on the real code; returns {impl: {y, xinv, yinv, jac...} | error}"""
    fam, par = case["fam"], case["par"]
    x = np.asarray(case["x"], dtype=float)
    out = {}
    for impl in case["impls"]:
        xs = x[:: max(1, len(x) // 3)][:3] if impl == "cl.scalar" else x     # scalar domain: one call per point

        @I.guard
        def run(impl=impl, xs=xs):
            t = I.build(fam, impl, par, len(xs))
            res = dict(x=xs, y=np.asarray(t["forward"](xs), dtype=float))
            if t.get("inverse") is not None:
                res["xinv"] = np.asarray(t["inverse"](res["y"]), dtype=float)
                # the inverse at the exact target quantiles (independent of the forward transform)
                res["xinv_ref"] = np.asarray(t["inverse"](I.ref_quantile(I.ref_dist(fam, par), xs)), dtype=float)
            if t.get("jac") is not None:
                v, j, ja = t["jac"](xs)
                res.update(linval=v, jac=j, jacadj=ja)
            op = t.get("op")
            if op is not None:
                for k in ("alpha", "q", "theta", "mean", "var", "mode"):
                    try:
                        v = getattr(op, k)
                        if np.isscalar(v):
                            res["prop_" + k] = float(v)
                    except Exception:  # noqa: BLE001 - properties may be undefined for some parameters (documented)
                        pass
            return res
        out[impl] = run()
    return out


def tolerances(fam, impl, par, x):
    """absolute tolerance of the quantile check, per point (see design.d/C30.md)"""
    d = I.ref_dist(fam, par)
    r = I.ref_quantile(d, x)
    if fam == "loginvgamma":
        r_cmp = np.log(r)
    else:
        r_cmp = r
    if fam == "normal":
        tol = RTOL * (abs(par["mean"]) + abs(par["std"]) * np.abs(x) + 1e-300)
    elif fam == "lognormal":
        lm, ls = I.textbook_lognormal(par["mean"], par["std"])
        tol = RTOL * np.abs(r) * (1 + abs(lm) + abs(ls) * np.abs(x))
    elif fam == "uniform":
        tol = RTOL * (abs(par["a"]) + abs(par["b"] - par["a"])) + 8 * I.ref_cond(d, x)
    elif fam == "laplace":
        tol = RTOL * (np.abs(r) + par["scale"] + abs(par.get("loc", 0.0)))
        if impl.startswith("cl."):
            tol = tol + 8 * I.ref_cond(d, x)
    else:
        h = par.get("step", 0.01)
        E2, _ = I.interp_bounds(fam, par, x, h)
        E2 = np.where(np.isin(x, np.arange(I.TABLE_XMIN, I.TABLE_XMAX + h, h)), 0.0, E2)    # exact at the nodes
        cond = np.maximum(I.ref_cond(d, x), I.ref_cond(d, np.sign(x) * (np.abs(x) + h)))
        # round 2: AT the nodes nothing but the rounding of the table entry t (= log Q for the log-space tables), of its
        # evaluation and of the scale multiplication remains: floor = X.K * eps * (1 + |t|) (measured: <= 1.3 units) instead of 1e-9
        node = np.isin(x, np.arange(I.TABLE_XMIN, I.TABLE_XMAX + h, h))
        with np.errstate(all="ignore"):
            t = np.abs(np.log(np.abs(r) / (par["scale"] if not par.get("loc") else 1.0))) if fam in ("invgamma", "loginvgamma") else 0.0 * x
        fl = np.where(node & np.isfinite(t), X.K * I.EPS * (1.0 + t), RTOL)
        if fam == "invgamma":
            tol = SLACK * np.expm1(E2) * np.abs(r) + 8 * cond + fl * np.abs(r)
        elif fam == "loginvgamma":
            tol = SLACK * E2 + 8 * cond / np.abs(r) + fl * (np.abs(r_cmp) + abs(math.log(par["scale"])) + 1)
        elif fam == "gamma":
            tol = SLACK * E2 * par["scale"] + 8 * cond + fl * np.abs(r)
        else:
            tol = SLACK * E2 + 8 * cond + fl * np.abs(r)
    return r_cmp, tol


def jac_reference(fam, impl, par, x):
    """analytic derivative d/dx Q(Phi(x)) = phi(x)/pdf(Q) (of log Q for loginvgamma) and its absolute tolerance"""
    from scipy.stats import norm
    d = I.ref_dist(fam, par)
    r = I.ref_quantile(d, x)
    with warnings.catch_warnings():
        warnings.simplefilter("ignore")
        J = norm.pdf(x) / d.pdf(r)
        tail = 8 * I.EPS / norm.sf(np.abs(x))          # rounding of the cdf value near 1 enters 1/(1-y) or the table
    if fam == "loginvgamma":
        J = J / r
    if fam in ("uniform",):
        return J, RTOL * np.abs(J) + 1e-300
    if fam == "laplace":
        return J, (RTOL + tail) * np.abs(J) + 1e-300
    h = par.get("step", 0.01)
    E2, D1 = I.interp_bounds(fam, par, x, h)
    if fam == "invgamma":
        fp = J / r
        e2 = np.expm1(E2)
    elif fam == "loginvgamma":
        fp, e2 = J, 0 * x
    elif fam == "gamma":
        fp, e2 = J / par["scale"], 0 * x
    else:
        fp, e2 = J, 0 * x
    cond_f = np.maximum(I.ref_cond(d, x), I.ref_cond(d, np.sign(x) * (np.abs(x) + h)))
    cond_f = cond_f / np.abs(r) if fam in ("invgamma", "loginvgamma") else (cond_f / par["scale"] if fam == "gamma" else cond_f)
    cond_f = cond_f + 4 * I.EPS * np.abs(I.table_f(fam, par, x))      # rounding of the table entries themselves
    conv = np.abs(r) if fam == "invgamma" else (par["scale"] if fam == "gamma" else 1.0)   # table-space slope -> Jacobian
    with np.errstate(all="ignore"):
        tolj = np.abs(J) * (1e-7 + SLACK * e2 + tail) + conv * (SLACK * D1 + 8 * cond_f / h)
    tolj = np.where(np.isfinite(tolj), tolj, np.inf)
    return J, tolj


def judge(case, ev):
    """the property, stated on the outputs of the real code only -> None | (what, signature)"""
    fam, par = case["fam"], case["par"]
    d = I.ref_dist(fam, par)
    sig = lambda impl, kind: dict(fam=fam, impl=impl, kind=kind)
    ys = {}
    for impl, res in ev.items():
        if I.is_err(res):
            return (f"{fam}/{impl} {par}: valid parameters rejected with {res['error']}", sig(impl, "error"))
        x, y = res["x"], res["y"]
        if y.shape != x.shape or not np.all(np.isfinite(y)):
            return (f"{fam}/{impl} {par}: non-finite or mis-shaped output", sig(impl, "finite"))
        if fam in ("gamma", "beta") and impl.startswith("cl.") and _ringing_region(fam, par):
            # classic linear-space CubicSpline, small shape, coarse table: the spline rings in the lower tail (values below the
            # support, decreasing stretches) -- finding C30-classic_spline_small_shape; its own signature, only in this region
            dec = np.diff(y) < -1e-12 * np.maximum(np.abs(y[1:]), np.abs(y[:-1]))
            if np.any(y < 0) or np.any(dec):
                i = int(np.argmin(y)) if np.any(y < 0) else int(np.argmax(dec))
                return (f"{fam}/{impl} {par}: classic spline rings: T({x[i]!r})={y[i]!r} is below the support / the outputs "
                        f"decrease on the sorted grid ({int((y < 0).sum())} negative values, {int(dec.sum())} decreasing steps)",
                        dict(fam=fam, impl=impl, kind="classic-spline-ringing"))
        if fam in ("invgamma", "gamma", "beta", "lognormal") and np.any(y < 0):
            i = int(np.argmin(y))
            return (f"{fam}/{impl} {par}: T({x[i]!r})={y[i]!r} lies outside the support of the target distribution",
                    sig(impl, "support"))
        r, tol = tolerances(fam, impl, par, x)
        bad = np.abs(y - r) > tol
        if bad.any():
            i = int(np.argmax(np.abs(y - r) / tol))
            return (f"{fam}/{impl} {par}: T(x)={y[i]!r} but target quantile Q(Phi(x))={r[i]!r} at x={x[i]!r} "
                    f"(|diff|={abs(y[i]-r[i]):.3e} > tol={tol[i]:.3e})", sig(impl, "quantile"))
        # monotone: exact order of the outputs on the sorted grid (cubic spline: up to rounding of its evaluation)
        dy = np.diff(y)
        slack = 1e-12 * np.maximum(np.abs(y[1:]), np.abs(y[:-1])) if (impl.startswith("cl.") and fam in I_TABLE) else 0.0
        if np.any(dy < -slack):
            i = int(np.argmin(dy))
            return (f"{fam}/{impl} {par}: not monotone: T({x[i]!r})={y[i]!r} > T({x[i+1]!r})={y[i+1]!r}", sig(impl, "monotone"))
        if "xinv" in res:
            xi = res["xinv"]
            dl = 4 * I.EPS * (np.abs(y) + abs(par.get("loc", par.get("a", par.get("mean", 0.0)))))
            from scipy.stats import norm
            with warnings.catch_warnings():
                warnings.simplefilter("ignore")
                c = np.abs(I.ref_xi(d, y + dl) - I.ref_xi(d, y - dl))
                c = np.where(np.isfinite(c), c, np.inf)
                cdf_term = 8 * I.EPS / norm.pdf(x) if impl.startswith("cl.") else 0.0
            if fam == "lognormal":
                lm, ls = I.textbook_lognormal(par["mean"], par["std"])
                c = c + 100 * I.EPS * (np.abs(np.log(y)) + abs(lm)) / ls
            if fam == "normal":
                c = c + 100 * I.EPS * (np.abs(y) + abs(par["mean"])) / par["std"]
            tolx = RTOL * (1 + np.abs(x)) + 100 * c + cdf_term
            if fam == "invgamma":     # inverse of the piecewise-linear table: exact inverse of the forward transform
                tolx = tolx + 100 * I.EPS * (1 + np.abs(np.log(y))) / np.maximum(
                    np.abs(np.gradient(I.table_f(fam, par, x), x)) if len(x) > 1 else 1.0, 1e-3)
            badx = ~(np.abs(xi - x) <= tolx)
            if badx.any():
                i = int(np.argmax(np.where(badx, np.abs(xi - x) / tolx, 0)))
                return (f"{fam}/{impl} {par}: inverse(T(x))={xi[i]!r} for x={x[i]!r} (tol {tolx[i]:.2e})", sig(impl, "inverse"))
            # inverse(Q_target(p)) = Phi^-1(p): tolerance of the forward check mapped through dx/dy = pdf(y)/phi(x)
            from scipy.stats import norm as _n
            with warnings.catch_warnings():
                warnings.simplefilter("ignore")
                slope = _n.pdf(x) / d.pdf(r)
            tolr = 2 * tolx + 2 * tol / np.where(slope > 0, slope, np.inf)
            tolr = np.where(np.isfinite(tolr), tolr, np.inf)
            xr = res["xinv_ref"]
            badr = ~(np.abs(xr - x) <= tolr)
            if badr.any():
                i = int(np.argmax(np.where(badr, np.abs(xr - x) / tolr, 0)))
                return (f"{fam}/{impl} {par}: inverse(Q(p))={xr[i]!r} but Phi^-1(p)={x[i]!r} at y={r[i]!r} (tol {tolr[i]:.2e})",
                        sig(impl, "inverse-ref"))
        if "jac" in res:
            J, tolj = jac_reference(fam, impl, par, x)
            j, ja, lv = res["jac"], res["jacadj"], res["linval"]
            if not np.array_equal(lv, y):
                return (f"{fam}/{impl} {par}: Linearization value differs from the plain value", sig(impl, "linval"))
            if not np.array_equal(j, ja):
                return (f"{fam}/{impl} {par}: Jacobian (diagonal) differs from its adjoint", sig(impl, "jacadj"))
            badj = ~(np.abs(j - J) <= tolj) & np.isfinite(J)
            if badj.any() or not np.all(np.isfinite(j)):
                i = int(np.argmax(np.where(badj, np.abs(j - J) / tolj, 0)))
                return (f"{fam}/{impl} {par}: Jacobian {j[i]!r} but phi(x)/pdf(T(x)) = {J[i]!r} at x={x[i]!r} "
                        f"(tol {tolj[i]:.2e})", sig(impl, "jacobian"))
        ys[impl] = (x, y, tol)
        # documented parameter properties of the classic operators
        if impl == "cl.modemean":
            al, q = res.get("prop_alpha"), res.get("prop_q")
            if al is None or q is None or abs(q / (al + 1) - par["mode"]) > 1e-9 * par["mode"] or \
                    (al > 1 and abs(q / (al - 1) - par["mean"]) > 1e-9 * par["mean"]) or al <= 1:
                return (f"invgamma/cl.modemean {par}: alpha={al}, q={q} do not have mode q/(alpha+1) and mean q/(alpha-1)",
                        sig(impl, "params"))
        if fam in ("invgamma", "gamma") and impl in ("cl.op", "cl.modemean", "cl.beta", "cl.meanvar"):
            bad = _check_props(fam, par, res)
            if bad:
                return (f"{fam}/{impl} {par}: documented property {bad}", sig(impl, "params"))
        if impl == "cl.meanvar":
            al, th = res.get("prop_alpha"), res.get("prop_theta")
            if al is None or th is None or abs(al * th - par["mean"]) > 1e-9 * par["mean"] or \
                    abs(al * th * th - par["var"]) > 1e-9 * par["var"]:
                return (f"gamma/cl.meanvar {par}: alpha={al}, theta={th} do not have mean alpha*theta and var alpha*theta^2",
                        sig(impl, "params"))
    # classic vs JAX (and variants among themselves): same points, tolerance = sum of the two
    keys = sorted(ys)
    for a in range(len(keys)):
        for b in range(a + 1, len(keys)):
            xa, ya, ta = ys[keys[a]]
            xb, yb, tb = ys[keys[b]]
            if len(xa) != len(xb):
                idx = np.searchsorted(xb if len(xb) > len(xa) else xa, xa if len(xb) > len(xa) else xb)
                if len(xb) > len(xa):
                    xb, yb, tb = xb[idx], yb[idx], tb[idx]
                else:
                    xa, ya, ta = xa[idx], ya[idx], ta[idx]
            tight = fam in ("normal", "lognormal")        # identical formulas: agree far below the reference tolerance
            tt = (1e-12 * (np.abs(ya) + abs(par.get("mean", 0.0))) if fam == "normal" else
                  1e-12 * np.abs(ya) * (1 + abs(math.log(par["mean"])) + np.abs(xa))) if tight else (ta + tb)
            if np.any(np.abs(ya - yb) > tt):
                i = int(np.argmax(np.abs(ya - yb) / tt))
                return (f"{fam} {par}: {keys[a]} gives {ya[i]!r}, {keys[b]} gives {yb[i]!r} at x={xa[i]!r}",
                        dict(fam=fam, impl=keys[a] + "|" + keys[b], kind="pair"))
    return None


I_TABLE = TABLE_FAMS


def _ringing_region(fam, par):
    """where the classic operators' cubic spline through a LINEAR-space table is known to ring (shape <= 0.2 and a table
    step coarser than the default 0.01): GammaOperator, BetaOperator"""
    return par.get("step", 0.01) >= 0.02 and min(par["a"], par.get("b", 1.0) if fam == "beta" else 1.0) <= 0.2


def _check_props(fam, par, res):
    """the documented read-only properties of InverseGammaOperator / GammaOperator against the textbook moments"""
    d = I.ref_dist(fam, par)
    a, sc = par["a"], par["scale"]
    near = lambda u, v: u is not None and abs(u - v) <= 1e-9 * abs(v)
    if fam == "invgamma":
        want = dict(alpha=a, q=sc, mode=sc / (a + 1))
        if a > 1.001:
            want["mean"] = float(d.mean())
        if a > 2.001:
            want["var"] = float(d.var())
    else:
        want = dict(alpha=a, theta=sc, mean=float(d.mean()), var=float(d.var()))
        if a >= 1.0:
            want["mode"] = (a - 1) * sc
    for k, v in want.items():
        tol_ok = near(res.get("prop_" + k), v) if not (k == "mode" and v == 0) else True
        if k in ("alpha", "q", "theta", "mean", "var", "mode") and fam == "invgamma" and "mode" in par and k in ("alpha", "q"):
            tol_ok = res.get("prop_" + k) is not None and abs(res["prop_" + k] - v) <= 1e-7 * abs(v)   # derived via a division
        if not tol_ok:
            return f"{k} = {res.get('prop_' + k)!r}, textbook value {v!r}"
    return None


def oracle_moments(case):
    """lognormal_moments (both variants): the returned (mu_l, sigma_l) reproduce mean and std of exp(N(mu_l, sigma_l^2));
    non-positive arguments raise ValueError (documented)"""
    m, s = case["mean"], case["std"]

    @I.guard
    def re():
        I._jax()
        from nifty.re.num import stats_distributions as sd
        a, b = sd.lognormal_moments(m, s)
        return _f(a), _f(b)

    @I.guard
    def cl():
        from nifty.cl.utilities import lognormal_moments
        a, b = lognormal_moments(m, s)
        return _f(a), _f(b)
    for name, fn in (("re", re), ("cl", cl)):
        r = fn()
        sig = dict(fam="lognormal_moments", impl=name, kind="moments")
        if not (m > 0 and s > 0):
            if not (I.is_err(r) and r["error"] == "ValueError"):
                return (f"lognormal_moments[{name}]({m},{s}) should raise ValueError, got {r}", dict(sig, kind="error"))
            continue
        if I.is_err(r):
            return (f"lognormal_moments[{name}]({m},{s}) raised {r['error']}", dict(sig, kind="error"))
        lm, ls = r
        mean = math.exp(lm + ls * ls / 2)
        std = math.sqrt(math.expm1(ls * ls)) * mean
        tol = 1e-9 * (1 + abs(lm) + 1 / max(ls, 1e-300) ** 0)     # relative
        if not (ls > 0 and abs(mean - m) <= tol * m and abs(std - s) <= 1e-9 * s * (1 + abs(lm)) + 1e-7 * s * (ls < 1e-3)):
            return (f"lognormal_moments[{name}]({m},{s}) = ({lm},{ls}): exp-moments are mean={mean}, std={std}", sig)
    return None


def oracle(case):
    op = case.get("op", "transform")
    if op == "transform":
        return judge(case, evaluate(case))
    if op == "moments":
        return oracle_moments(case)
    if op == "interp":
        return oracle_interp(case)
    if op == "malformed":
        return oracle_malformed(case)
    if op == "extreme":
        return X.oracle_extreme(case)
    return None


# ------------------------------------------------------------------------------------------------
# interpolator stream (public function `interpolator`): exact dyadic tables, class E
# ------------------------------------------------------------------------------------------------
def _interp_run(case):
    """call the real `interpolator` with a table function that records the abscissae it is given"""
    I._jax()
    import jax.numpy as jnp
    from nifty.re.num import stats_distributions as sd
    inc = np.asarray(case["inc"], dtype=float)
    seen = []

    def func(xs):
        xs = np.asarray(xs, dtype=float)
        seen.append(xs.copy())
        k = np.arange(len(xs))
        return case["y0"] + np.cumsum(inc[k % len(inc)])

    @I.guard
    def run():
        kw = dict(step=case["step"]) if case.get("step") is not None else dict(num=case["num"])
        if case.get("log"):
            kw.update(table_func=jnp.log, inv_table_func=jnp.exp)
        f, finv = sd.interpolator(func, case["xmin"], case["xmax"], return_inverse=True, **kw)
        xs = seen[0]
        ys = func(xs)
        return dict(xs=xs, ys=ys, y=np.asarray(f(jnp.asarray(case["xq"])), dtype=float),
                    xinv=np.asarray(finv(jnp.asarray(case["yq"])), dtype=float))
    return run()


def oracle_interp(case):
    """documented semantics on the real code: table on arange(xmin, xmax+step, step) / linspace(xmin, xmax, num), exact at the
    nodes, between the neighbouring node values, monotone, clamped outside; inverse_interp undoes interp inside the table"""
    r = _interp_run(case)
    sig = dict(fam="interpolator", impl="re", kind="interp")
    if I.is_err(r):
        return (f"interpolator rejected a valid table request: {r['error']}", dict(sig, kind="error"))
    xs, ys, xq, y = r["xs"], r["ys"], np.asarray(case["xq"], dtype=float), r["y"]
    if case.get("step") is not None:
        want = np.arange(case["xmin"], case["xmax"] + case["step"], case["step"])
    else:
        want = np.linspace(case["xmin"], case["xmax"], case["num"])
    if len(xs) != len(want) or not np.array_equal(xs, want):
        return (f"interpolator tabulates {len(xs)} abscissae [{xs[0]}..{xs[-1]}], documented grid has {len(want)} "
                f"[{want[0]}..{want[-1]}]", dict(sig, kind="grid"))
    if case.get("log"):
        ref = np.exp(np.interp(xq, xs, np.log(ys)))
        tol = 1e-9 * np.abs(ref)
    else:
        ref = np.interp(xq, xs, ys)
        tol = 1e-12 * (np.abs(ref) + 1)
    if np.any(np.abs(y - ref) > tol):
        i = int(np.argmax(np.abs(y - ref)))
        return (f"interpolator value {y[i]!r} at x={xq[i]!r}, piecewise-linear interpolation of the table gives {ref[i]!r}", sig)
    inside = (np.asarray(case["yq"]) >= ys[0]) & (np.asarray(case["yq"]) <= ys[-1])
    back = np.exp(np.interp(r["xinv"], xs, np.log(ys))) if case.get("log") else np.interp(r["xinv"], xs, ys)
    yq = np.asarray(case["yq"], dtype=float)
    if np.any(np.abs(back - yq)[inside] > 1e-9 * (np.abs(yq[inside]) + 1)):
        return ("inverse_interp does not undo interp inside the table", dict(sig, kind="inverse"))
    return None


INTERP_GRIDS = [(-2.0, 2.0, 0.125), (-5.25, 3.75, 0.0625), (-7.0, 4.5, 0.015625), (-1.5, 8.75, 0.03125), (-8.25, 8.25, 0.0625),
                (-3.25, 3.5, 0.25)]
INTERP_NUMS = [(-2.0, 2.0, 17), (-3.25, 3.5, 3), (-1.0, 7.0, 33), (-8.0, 8.0, 9), (0.5, 1.5, 2)]


def gen_interp_case(rng, k):
    """dyadic table request for `interpolator`; grids come from a small menu (few distinct array shapes), the tabulated
    values, the queries and the log-space option vary"""
    inc = [rng.choice([0.25, 0.5, 1.0, 2.0, 4.0]) for _ in range(rng.randrange(3, 9))]
    case = dict(op="interp", inc=inc, y0=rng.choice([0.5, 1.0, 8.0]), log=(k % 4 == 3))
    if k % 3 == 2:
        xmin, xmax, num = INTERP_NUMS[(k // 3) % len(INTERP_NUMS)]
        case.update(xmin=xmin, xmax=xmax, num=num, step=None)
        step = (xmax - xmin) / (num - 1)
    else:
        xmin, xmax, step = INTERP_GRIDS[(k // 3) % len(INTERP_GRIDS)]
        case.update(xmin=xmin, xmax=xmax, step=step)
    lo, hi = xmin - 1, xmax + 1
    xq = {xmin, xmax, xmin + step, xmax - step / 2}
    while len(xq) < 16:
        xq.add(round(rng.uniform(lo, hi) * 1024) / 1024)
    case["xq"] = sorted(xq)
    yq = {case["y0"] + inc[0]}
    while len(yq) < 9:
        yq.add(rng.randrange(0, 4096) / 16)
    case["yq"] = sorted(yq)
    return case


# ------------------------------------------------------------------------------------------------
# malformed stream: documented error kinds
# ------------------------------------------------------------------------------------------------
MALFORMED = [
    dict(what="lognormal_moments mean<=0", call="re.lognormal_moments", args=[-1.0, 2.0], want="ValueError"),
    dict(what="lognormal_moments std<=0", call="re.lognormal_moments", args=[1.0, 0.0], want="ValueError"),
    dict(what="cl lognormal_moments mean<=0", call="cl.lognormal_moments", args=[0.0, 2.0], want="ValueError"),
    dict(what="cl lognormal_moments sigma<=0", call="cl.lognormal_moments", args=[1.0, -2.0], want="ValueError"),
    dict(what="interpolator step and num", call="re.interpolator", args=[dict(step=0.1, num=5)], want="ValueError"),
    dict(what="interpolator neither step nor num", call="re.interpolator", args=[dict()], want="ValueError"),
    dict(what="interpolator table_func without inverse", call="re.interpolator", args=[dict(step=0.1, table_func="log")],
         want="ValueError"),
    dict(what="invgamma_prior array-valued a", call="re.invgamma_prior", args=[[1.0, 2.0], 1.0, 0.0], want="TypeError"),
    dict(what="invgamma_prior array-valued scale with loc", call="re.invgamma_prior", args=[2.0, [1.0, 2.0], 1.0], want="TypeError"),
    dict(what="InverseGammaOperator mean<mode", call="cl.InverseGammaOperator", args=[dict(mode=2.0, mean=1.0)], want="ValueError"),
    dict(what="InverseGammaOperator no parameters", call="cl.InverseGammaOperator", args=[dict()], want="ValueError"),
    dict(what="GammaOperator without beta/theta", call="cl.GammaOperator", args=[dict(alpha=2.0)], want="ValueError"),
]


def oracle_malformed(case):
    @I.guard
    def run():
        I._jax()
        import jax.numpy as jnp
        from nifty.re.num import stats_distributions as sd
        from nifty.cl.library import special_distributions as sp
        from nifty.cl.utilities import lognormal_moments
        a = case["args"]
        c = case["call"]
        if c == "re.lognormal_moments":
            return sd.lognormal_moments(*a)
        if c == "cl.lognormal_moments":
            return lognormal_moments(*a)
        if c == "re.interpolator":
            kw = dict(a[0])
            if kw.get("table_func") == "log":
                kw["table_func"] = jnp.log
            return sd.interpolator(lambda x: x, -1.0, 1.0, **kw)
        if c == "re.invgamma_prior":
            return sd.invgamma_prior(*[np.asarray(v) if isinstance(v, list) else v for v in a])
        if c == "cl.InverseGammaOperator":
            return sp.InverseGammaOperator(I._cl_dom(2), **a[0])
        if c == "cl.GammaOperator":
            return sp.GammaOperator(I._cl_dom(2), **a[0])
        raise KeyError(c)
    r = run()
    got = r["error"] if I.is_err(r) else "no-error"
    if got != case["want"]:
        return (f"{case['what']}: documented {case['want']}, got {got}", dict(fam="malformed", impl=case["call"], kind="error"))
    return None


# ------------------------------------------------------------------------------------------------
# hypotheses on the special functions (a test, labelled so): Priors.StdNormal against SciPy / JAX
# ------------------------------------------------------------------------------------------------
def check_hypotheses(ctx):
    from scipy.stats import norm
    I._jax()
    import jax.numpy as jnp
    from jax.scipy.stats import norm as jnorm
    x = np.linspace(-8.0, 8.0, 3201)
    P, Pj = norm._cdf(x), np.asarray(jnorm.cdf(jnp.asarray(x)))
    bad = []
    if not (np.all(np.diff(P[x <= 5.5]) > 0) and np.all(np.diff(P) >= 0)):
        bad.append("Phi strictly increasing")
    if not np.all(np.abs(norm._cdf(-x) - (1 - P)) <= 2 * I.EPS):
        bad.append("Phi(-x) = 1 - Phi(x)")
    if not (np.all(P > 0) and np.all(P[x < 8] <= 1)):
        bad.append("0 < Phi <= 1")
    p = np.concatenate([np.logspace(-12, -0.31, 200), 1 - np.logspace(-12, -0.31, 200)])
    if not np.all(np.abs(norm._cdf(norm._ppf(p)) - p) <= 1e-12 * p + 4 * I.EPS):
        bad.append("Phi(Phi^-1 p) = p")
    xs = x[np.abs(x) <= 5]
    if not np.all(np.abs(norm._ppf(norm._cdf(xs)) - xs) <= 1e-9 + 8 * I.EPS / norm.pdf(xs)):
        bad.append("Phi^-1(Phi x) = x")
    if not np.all(np.abs(Pj - P) <= 1e-12 * P + 4 * I.EPS):
        bad.append("jax norm.cdf = scipy norm._cdf")
    lj = np.asarray(jnorm.logcdf(jnp.asarray(x)))
    if not np.all(np.abs(lj - norm.logcdf(x)) <= 1e-11 * np.abs(norm.logcdf(x)) + 4 * I.EPS):
        bad.append("jax norm.logcdf = log Phi")
    h = 1e-5
    fd = (norm._cdf(xs + h) - norm._cdf(xs - h)) / (2 * h)
    if not np.all(np.abs(fd - norm._pdf(xs)) <= 1e-6 * norm._pdf(xs) + 1e-11):
        bad.append("Phi' = phi")
    ctx.stat("hypothesis-grid-points", len(x) + len(p))
    for b in bad:
        ctx.broke("correspondence", "special-function hypothesis (numerical test): " + b, "fails on the SciPy/JAX grid")
    ctx.extra["special_function_hypotheses_tested"] = ["StdNormal.strictMono", "StdNormal.symm", "StdNormal.pos",
                                                       "StdNormal.right_inv", "StdNormal.left_inv", "logPhi=log Phi",
                                                       "HasDerivAt Phi phi", "jax cdf = scipy cdf"]


# ------------------------------------------------------------------------------------------------
# correspondence: model (Lean driver) vs code
# ------------------------------------------------------------------------------------------------
class Corr:
    """collects driver requests with a callback that compares the model's answer to the implementation's value"""

    def __init__(self, ctx):
        self.ctx = ctx
        self.lines = []
        self.cbs = []
        self.seen = {}

    def add(self, line, cb):
        self.lines.append(line)
        self.cbs.append(cb)

    def close(self, case, impl, model, tol, note, key=None):
        """class T comparison of one number (or arrays)"""
        impl = np.asarray(impl, dtype=float)
        model = np.asarray(model, dtype=float)
        ok = impl.shape == model.shape and bool(np.all(np.abs(impl - model) <= tol))
        self.ctx.stat("model-vs-code:" + (key or note.split(":")[0]))
        if not ok:
            self._disagree(case, impl.tolist(), model.tolist(), note)
        return ok

    def _disagree(self, case, impl, model, note):
        """register a disagreement; after 4 of the same kind only count (vcheck re-runs the oracle on every registered one)"""
        self.seen[note] = self.seen.get(note, 0) + 1
        if self.seen[note] <= 4:
            self.ctx.disagree(case, impl, model, note)
        else:
            self.ctx.stat("model-vs-code:further-disagreements-not-listed")

    def run(self):
        outs = self.ctx.model(DRIVER, self.lines)
        for o, cb in zip(outs, self.cbs):
            cb(o)


def corr_transform(co, case, ev):
    """model vs code for one transform case (values computed by `evaluate`)"""
    from scipy.stats import norm
    fam, par = case["fam"], case["par"]
    mini = dict(op="transform", fam=fam, par=par)

    def num(o, k):
        return unfrac(o[k]) if isinstance(o, dict) and k in o else float("nan")
    for impl, res in ev.items():
        if I.is_err(res):
            continue
        x, y = res["x"], res["y"]
        c1 = dict(mini, impls=[impl])
        if impl.startswith("re.") and fam in ("uniform", "laplace"):
            _, jnp = I._jax()
            from jax.scipy.stats import norm as jnorm
            xj = jnp.asarray(x)
            Pj, LPj, LMj = np.asarray(jnorm.cdf(xj)), np.asarray(jnorm.logcdf(xj)), np.asarray(jnorm.logcdf(-xj))
        for i in range(len(x)):
            xi, yi = float(x[i]), float(y[i])
            ci = dict(c1, x=[xi])
            if fam == "normal":
                tol = RTOL * (abs(yi) + abs(par["mean"]) + 1e-300)
                co.add(dict(op="normal", mean=frac(par["mean"]), std=frac(par["std"]), x=frac(xi)),
                       lambda o, ci=ci, yi=yi, tol=tol, impl=impl: co.close(ci, yi, num(o, "y"), tol, "normal: model vs " + impl))
                if "xinv" in res:
                    xv = float(res["xinv"][i])
                    co.add(dict(op="normalInv", mean=frac(par["mean"]), std=frac(par["std"]), y=frac(yi)),
                           lambda o, ci=ci, xv=xv: co.close(ci, xv, num(o, "x"), RTOL * (1 + abs(xv)), "normalInv: model vs re.func"))
            elif fam == "lognormal":
                opn = "lognormalPriorRe" if impl.startswith("re.") else "lognormalTransformCl"
                lm, ls = I.textbook_lognormal(par["mean"], par["std"])
                tol = RTOL * abs(yi) * (1 + abs(lm) + abs(ls * xi))
                co.add(dict(op=opn, mean=frac(par["mean"]), std=frac(par["std"]), x=frac(xi)),
                       lambda o, ci=ci, yi=yi, tol=tol, impl=impl, opn=opn: co.close(ci, yi, num(o, "y"), tol, opn + ": model vs " + impl))
                if "xinv" in res:
                    xv = float(res["xinv"][i])
                    tolx = RTOL * (1 + abs(xv)) + 100 * I.EPS * (abs(math.log(yi)) + abs(lm)) / ls
                    co.add(dict(op="lognormalInvPriorRe", mean=frac(par["mean"]), std=frac(par["std"]), y=frac(yi)),
                           lambda o, ci=ci, xv=xv, tolx=tolx: co.close(ci, xv, num(o, "y"), tolx, "lognormalInvPriorRe: model vs re.func"))
            elif fam == "uniform":
                if impl.startswith("re."):
                    P = float(Pj[i])
                    tol = RTOL * (abs(par["a"]) + abs(par["b"] - par["a"]))
                    line = dict(op="uniformPriorDefault", Phi=frac(P)) if par.get("default") else \
                        dict(op="uniformPriorRe", a=frac(par["a"]), b=frac(par["b"]), Phi=frac(P))
                    co.add(line, lambda o, ci=ci, yi=yi, tol=tol, impl=impl: co.close(ci, yi, num(o, "y"), tol, "uniformPriorRe: model vs " + impl))
                else:
                    P, ph = float(norm._cdf(xi)), float(norm._pdf(xi))
                    sc = par["b"] - par["a"]
                    tol = RTOL * (abs(par["a"]) + abs(sc))
                    jv = float(res["jac"][i])
                    co.add(dict(op="uniformCl", loc=frac(par["a"]), scale=frac(sc), Phi=frac(P), phi=frac(ph)),
                           lambda o, ci=ci, yi=yi, jv=jv, tol=tol: co.close(ci, [yi, jv], [num(o, "y"), num(o, "jac")],
                                                                       np.array([tol, RTOL * abs(jv) + 1e-300]), "uniformCl: model vs cl.op (value, Jacobian)"))
                    xv = float(res["xinv"][i])
                    co.add(dict(op="uniformClInvArg", loc=frac(par["a"]), scale=frac(sc), y=frac(yi)),
                           lambda o, ci=ci, xv=xv: co.close(ci, xv, float(norm._ppf(num(o, "arg"))),
                                                           RTOL * (1 + abs(xv)) + 64 * I.EPS / max(float(norm._pdf(xv)), 1e-300),
                                                           "uniformClInv: Phi^-1(model argument) vs cl.op.inverse"))
            elif fam == "laplace":
                if impl.startswith("re."):
                    lp, lmn = float(LPj[i]), float(LMj[i])
                    tol = RTOL * (abs(yi) + par["scale"])
                    co.add(dict(op="laplaceRe", alpha=frac(par["scale"]), x=frac(xi), logPhi=frac(lp), logPhiNeg=frac(lmn)),
                           lambda o, ci=ci, yi=yi, tol=tol, impl=impl: co.close(ci, yi, num(o, "y"), tol, "laplaceRe: model vs " + impl))
                else:
                    P, ph = float(norm._cdf(xi)), float(norm._pdf(xi))
                    loc = par.get("loc", 0.0)
                    tol = RTOL * (abs(yi) + par["scale"] + abs(loc))
                    jv = float(res["jac"][i])
                    co.add(dict(op="laplaceCl", loc=frac(loc), scale=frac(par["scale"]), Phi=frac(P), phi=frac(ph)),
                           lambda o, ci=ci, yi=yi, jv=jv, tol=tol: co.close(ci, [yi, jv], [num(o, "y"), num(o, "jac")],
                                                                       np.array([tol, RTOL * abs(jv) + 1e-300]), "laplaceCl: model vs cl.op (value, Jacobian)"))
                    xv = float(res["xinv"][i])
                    co.add(dict(op="laplaceClInvArg", loc=frac(loc), scale=frac(par["scale"]), y=frac(yi)),
                           lambda o, ci=ci, xv=xv: co.close(ci, xv, float(norm._ppf(num(o, "arg"))),
                                                           RTOL * (1 + abs(xv)) + 64 * I.EPS / max(float(norm._pdf(xv)), 1e-300),
                                                           "laplaceClInv: Phi^-1(model argument) vs cl.op.inverse"))
        # parameter conversions of the classic operators
        if impl == "cl.modemean" and "prop_alpha" in res:
            co.add(dict(op="invGammaFromModeMean", mode=frac(par["mode"]), mean=frac(par["mean"])),
                   lambda o, c1=c1, res=res: co.close(c1, [res["prop_alpha"], res["prop_q"]], [num(o, "alpha"), num(o, "q")],
                                                      RTOL * np.array([abs(res["prop_alpha"]), abs(res["prop_q"])]),
                                                      "invGammaFromModeMean: model vs InverseGammaOperator.alpha/q"))
        if impl == "cl.meanvar" and "prop_alpha" in res:
            co.add(dict(op="gammaFromMeanVar", mean=frac(par["mean"]), var=frac(par["var"])),
                   lambda o, c1=c1, res=res: co.close(c1, [res["prop_alpha"], res["prop_theta"]], [num(o, "alpha"), num(o, "theta")],
                                                      RTOL * np.array([abs(res["prop_alpha"]), abs(res["prop_theta"])]),
                                                      "gammaFromMeanVar: model vs GammaOperator.alpha/theta"))
        if impl == "cl.beta" and "prop_theta" in res:
            co.add(dict(op="gammaThetaFromBeta", beta=frac(1.0 / par["scale"])),
                   lambda o, c1=c1, res=res: co.close(c1, res["prop_theta"], num(o, "theta"), RTOL * abs(res["prop_theta"]),
                                                      "gammaThetaFromBeta: model vs GammaOperator.theta"))
        # tabulated transforms: the table / spline is built by the harness as documented and shipped to the model
        if fam in TABLE_FAMS:
            corr_table(co, case, impl, res)


def corr_table(co, case, impl, res):
    from scipy.interpolate import CubicSpline
    from scipy.stats import norm, invgamma, gamma, beta
    fam, par = case["fam"], case["par"]
    x, y = res["x"], res["y"]
    c1 = dict(op="transform", fam=fam, par=par, impls=[impl], x=[float(v) for v in x])
    h = par.get("step", 0.01)

    def nums(o, k):
        return [unfrac(s) for s in o[k]] if isinstance(o, dict) and k in o else [float("nan")] * len(x)
    if impl.startswith("re."):
        if impl != "re.func" or not case.get("ship_table"):
            return
        xs = np.arange(I.TABLE_XMIN, I.TABLE_XMAX + h, h)
        loc = par.get("loc", 0.0)
        with warnings.catch_warnings():
            warnings.simplefilter("ignore")
            if loc == 0.0:
                tab = np.log(invgamma.ppf(norm._cdf(xs), a=par["a"]))
            else:
                tab = np.log(invgamma.ppf(norm._cdf(xs), a=par["a"], loc=loc, scale=par["scale"]))
            tabinv = np.log(invgamma.ppf(norm._cdf(xs), a=par["a"], loc=loc, scale=par["scale"]))
        good = np.isfinite(tab)
        if not good.all():      # the far right of the table can overflow for tiny shape parameters: not shipped
            return
        co.add(dict(op="invgammaRe", xs=[frac(v) for v in xs], ys=[frac(v) for v in tab], x=[frac(v) for v in x],
                    scale=frac(par["scale"]), locIsZero=(loc == 0.0)),
               lambda o: co.close(c1, y, nums(o, "y"), RTOL * np.abs(y), "invgammaRe: model (documented table, Float) vs invgamma_prior"))
        if "xinv" in res and np.isfinite(tabinv).all():
            co.add(dict(op="invgammaInvRe", xs=[frac(v) for v in xs], ys=[frac(v) for v in tabinv], y=[frac(v) for v in y]),
                   lambda o: co.close(c1, res["xinv"], nums(o, "x"), 1e-7 * (1 + np.abs(x)), "invgammaInvRe: model vs invgamma_invprior"))
        return
    # classic: cubic spline through the documented table, value and derivative shipped as the model's function parameters
    xs = np.arange(I.TABLE_XMIN, I.TABLE_XMAX, h)
    with warnings.catch_warnings():
        warnings.simplefilter("ignore")
        if fam in ("invgamma", "loginvgamma"):
            a = par["a"]
            tab = np.log(invgamma.ppf(norm._cdf(xs), float(a)))
        elif fam == "gamma":
            tab = gamma.ppf(norm._cdf(xs), float(par["a"]))
        else:
            tab = beta.ppf(norm._cdf(xs), a=float(par["a"]), b=float(par["b"]))
    if not np.isfinite(tab).all():
        return
    sp = CubicSpline(xs, tab)
    s, ds = sp(x), sp.derivative()(x)
    jac = res.get("jac")
    for i in range(len(x)):
        ci = dict(c1, x=[float(x[i])])
        yi = float(y[i])
        if fam == "invgamma":
            jv = float(jac[i])
            co.add(dict(op="invGammaCl", q=frac(par["scale"]), s=frac(s[i]), ds=frac(ds[i])),
                   lambda o, ci=ci, yi=yi, jv=jv: co.close(ci, [yi, jv], [unfrac(o.get("y", "nan")), unfrac(o.get("jac", "nan"))],
                                                          np.array([1e-8 * abs(yi), 1e-8 * abs(jv)]), "invGammaCl: model vs " + impl + " (value, Jacobian)", key="invGammaCl"))
        elif fam == "gamma":
            co.add(dict(op="gammaCl", theta=frac(par["scale"]), s=frac(s[i])),
                   lambda o, ci=ci, yi=yi: co.close(ci, yi, unfrac(o.get("y", "nan")), 1e-8 * abs(yi) + 1e-300, "gammaCl: model vs " + impl, key="gammaCl"))
        elif fam == "loginvgamma":
            co.add(dict(op="logInvGammaCl", q=frac(par["scale"]), s=frac(s[i])),
                   lambda o, ci=ci, yi=yi: co.close(ci, yi, unfrac(o.get("y", "nan")), 1e-8 * (abs(yi) + abs(math.log(par["scale"])) + 1e-3),
                                                   "logInvGammaCl: model vs " + impl, key="logInvGammaCl"))


def corr_moments(co, case):
    m, s = case["mean"], case["std"]

    @I.guard
    def re():
        I._jax()
        from nifty.re.num import stats_distributions as sd
        a, b = sd.lognormal_moments(m, s)
        return dict(logmean=_f(a), logstd=_f(b))

    @I.guard
    def cl():
        from nifty.cl.utilities import lognormal_moments
        a, b = lognormal_moments(m, s)
        return dict(logmean=_f(a), logstd=_f(b))
    for opn, fn in (("lognormalMomentsRe", re), ("lognormalMomentsCl", cl)):
        r = fn()

        def cb(o, r=r, opn=opn):
            co.ctx.stat("model-vs-code:" + opn + (":error" if I.is_err(r) else ""))
            if I.is_err(r) or "error" in o:
                if not (I.is_err(r) and "error" in o and r["error"] == o["error"]):
                    co._disagree(case, r, o, opn + ": error kinds differ")
                return
            a = np.array([r["logmean"], r["logstd"]])
            b = np.array([unfrac(o["logmean"]), unfrac(o["logstd"])])
            if not np.all(np.abs(a - b) <= RTOL * (np.abs(a) + abs(math.log(m)) * 1e-3 + 1e-12)):
                co._disagree(case, a.tolist(), b.tolist(), opn + ": model vs code")
        co.add(dict(op=opn, mean=frac(m), std=frac(s)), cb)


def corr_interp(co, case):
    """class E: abscissae and piecewise-linear values of `interpolator` on dyadic tables equal the exact Rat model"""
    r = _interp_run(case)
    if I.is_err(r):
        return
    xs, ys = r["xs"], r["ys"]
    if case.get("step") is not None:
        line = dict(op="xsStep", xmin=frac(case["xmin"]), xmax=frac(case["xmax"]), step=frac(case["step"]))
    else:
        line = dict(op="xsNum", xmin=frac(case["xmin"]), xmax=frac(case["xmax"]), num=case["num"])

    def cb_xs(o):
        co.ctx.stat("model-vs-code:interpolator-grid(E)")
        mine = [unfrac(s) for s in o.get("xs", [])]
        if o.get("n") != len(xs) or mine != [float(v) for v in xs]:
            co._disagree(case, dict(n=len(xs), first=float(xs[0]), last=float(xs[-1])),
                            dict(n=o.get("n"), first=mine[:1], last=mine[-1:]), "interpolator abscissae: exact model vs code")
    exact_grid = case.get("step") is not None or (case["num"] - 1) in (1, 2, 4, 8, 16, 32)
    if exact_grid:
        co.add(line, cb_xs)
    if case.get("log"):
        return      # log-space tables are covered by the invgamma stream (class T)
    xq, yq = case["xq"], case["yq"]

    def cb_y(o):
        co.ctx.stat("model-vs-code:interp(E)")
        mine = [unfrac(s) for s in o.get("y", [])]
        got = [float(v) for v in r["y"]]
        if case.get("step") is not None:          # dx is a power of two: every float operation is exact (class E)
            ok = mine == got
        else:                                      # linspace grids: one rounded division per value
            ok = len(mine) == len(got) and bool(np.all(np.abs(np.array(mine) - np.array(got)) <= 1e-12 * (1 + np.abs(np.array(got)))))
        if not ok:
            co._disagree(case, got, mine, "interp: exact piecewise-linear model vs interpolator")
    co.add(dict(op="interp", xs=[frac(v) for v in xs], ys=[frac(v) for v in ys], x=[frac(v) for v in xq]), cb_y)

    def cb_inv(o):
        co.ctx.stat("model-vs-code:interpInv")
        mine = np.array([unfrac(s) for s in o.get("x", [])])
        got = np.asarray(r["xinv"], dtype=float)
        if mine.shape != got.shape or not np.all(np.abs(mine - got) <= 1e-12 * (1 + np.abs(got))):
            co._disagree(case, got.tolist(), mine.tolist(), "inverse_interp: exact model vs interpolator(return_inverse)")
    co.add(dict(op="interpInv", xs=[frac(v) for v in xs], ys=[frac(v) for v in ys], y=[frac(v) for v in yq]), cb_inv)


def corr_extreme(co, case):
    """model vs code at the extremes (float64 code paths): tolerance = X.K x eps x conditioning (the same units as the oracle).
    `lognormal_moments` is evaluated by the driver with the Kahan-stable `log1p` (over the reals the same function:
    theorem `lognormal_moments_stable`), everything else is the ordinary transcription at Float"""
    fam, par = case["fam"], case["par"]
    KE = X.K * X.EPS64

    def num(o, k):
        return unfrac(o[k]) if isinstance(o, dict) and k in o else float("nan")
    if fam == "lognormal_moments":
        m, s = par["mean"], par["std"]
        _, rs, v = X.lognormal_ref(m, s)
        tol = np.array([KE * (abs(math.log(m)) + 0.5 * v) + 1e-300, KE * rs])
        for impl, opn in (("re.f64", "lognormalMomentsReStable"), ("cl", "lognormalMomentsClStable")):
            r = I.guard(X.moments_eval)(impl, m, s)
            if I.is_err(r):
                continue
            co.add(dict(op=opn, mean=frac(m), std=frac(s)),
                   lambda o, r=r, opn=opn, impl=impl: co.close(dict(case, impls=[impl]), [r[0], r[1]], [num(o, "logmean"), num(o, "logstd")],
                                                               tol, opn + ": model (stable log1p) vs code, extremes", key="extreme:" + opn))
        return
    if fam not in ("normal", "uniform", "laplace") or "re.func.f64" not in case.get("impls", []):
        return
    x = np.asarray(case["x"], dtype=float)
    x = x[[0, len(x) // 3, len(x) - 1]]
    res = I.guard(X._re_eval)(fam, "func", "f64", par, x)
    if I.is_err(res):
        return
    y = res["y"]
    c1 = dict(case, impls=["re.func.f64"])
    if fam in ("uniform", "laplace"):
        _, jnp = I._jax()
        from jax.scipy.stats import norm as jnorm
        xj = jnp.asarray(x)
        Pj, LPj, LMj = np.asarray(jnorm.cdf(xj)), np.asarray(jnorm.logcdf(xj)), np.asarray(jnorm.logcdf(-xj))
    for i in range(len(x)):
        xi, yi = float(x[i]), float(y[i])
        ci = dict(c1, x=[xi])
        if fam == "normal":
            tol = KE * (abs(par["mean"]) + par["std"] * abs(xi)) + 1e-300
            co.add(dict(op="normal", mean=frac(par["mean"]), std=frac(par["std"]), x=frac(xi)),
                   lambda o, ci=ci, yi=yi, tol=tol: co.close(ci, yi, num(o, "y"), tol, "normal: model vs re.func, extremes", key="extreme:normal"))
        elif fam == "uniform":
            P = float(Pj[i])
            tol = KE * (abs(par["a"]) + abs(par["b"] - par["a"]) * P) + 1e-300
            line = dict(op="uniformPriorDefault", Phi=frac(P)) if par.get("default") else \
                dict(op="uniformPriorRe", a=frac(par["a"]), b=frac(par["b"]), Phi=frac(P))
            co.add(line, lambda o, ci=ci, yi=yi, tol=tol: co.close(ci, yi, num(o, "y"), tol, "uniformPriorRe: model vs re.func, extremes",
                                                                  key="extreme:uniformPriorRe"))
        else:
            lp, lmn = float(LPj[i]), float(LMj[i])
            tol = KE * par["scale"] * (abs(min(lp, lmn)) + 1.0)
            co.add(dict(op="laplaceRe", alpha=frac(par["scale"]), x=frac(xi), logPhi=frac(lp), logPhiNeg=frac(lmn)),
                   lambda o, ci=ci, yi=yi, tol=tol: co.close(ci, yi, num(o, "y"), tol, "laplaceRe: model vs re.func, extremes",
                                                              key="extreme:laplaceRe"))


def _extreme_stats(ctx, c):
    fam, par = c["fam"], c["par"]
    ctx.stat("extreme:" + fam)
    ratio = None
    if "std" in par and par.get("mean"):
        ratio = par["std"] / abs(par["mean"])
    elif "b" in par and par.get("a"):
        ratio = (par["b"] - par["a"]) / abs(par["a"])
    elif "loc" in par and par.get("loc"):
        ratio = par["scale"] / abs(par["loc"])
    if ratio is not None and ratio > 0:
        ctx.stat("extreme:%s:ratio-decade:1e%+03d" % (fam, math.floor(math.log10(ratio))))
    for k in ("mean", "a", "loc", "scale"):
        v = par.get(k)
        if isinstance(v, float) and v != 0 and (k != "scale" or "loc" not in par):
            ctx.stat("extreme:magnitude:" + ("<=1e-6" if abs(v) <= 1e-6 else (">=1e6" if abs(v) >= 1e6 else "1e-6..1e6")))
            break
    for impl in c.get("impls", []):
        ctx.stat("extreme:mode:" + (impl.rsplit(".", 1)[-1] if impl.startswith("re.") else "classic-f64"))


# ------------------------------------------------------------------------------------------------
# run / shrink / search
# ------------------------------------------------------------------------------------------------
def _nontrivial(case):
    if case.get("op", "transform") != "transform":
        return True
    x = case["x"]
    return bool(x) and min(x) < -1 and max(x) > 1 and not case["par"].get("default")


def _register(ctx, case, r):
    if r is not None:
        ctx.counterexample(case, r[0], r[1])


def corpus_cases():
    out = []
    for p in sorted(glob.glob(os.path.join(VERIF, "corpus", ID, "*.json"))):
        try:
            rec = json.load(open(p))
            out.append(rec.get("case", rec))
        except Exception:  # noqa: BLE001
            pass
    return out


def run(ctx):
    check_hypotheses(ctx)
    co = Corr(ctx)
    cases = []
    for c in corpus_cases():
        ctx.stat("corpus")
        cases.append(c)
    per_fam = ctx.n(4, 48)
    npts = ctx.n(14, 40)
    ship = 0
    for fam in FAMS:
        for k in range(per_fam):
            c = gen_case(ctx.rng, fam, npts, k)
            if ctx.quick and k % 2 == 1:     # quick tier: the compiled / array-parameter variants on every second case
                c["impls"] = [i for i in c["impls"] if i not in ("re.jit", "re.array", "cl.vecpar")]
            if fam == "invgamma" and "re.func" in c["impls"] and ship < ctx.n(3, 16):
                c["ship_table"] = True
                ship += 1
            cases.append(c)
    # every special (a, b) pair around the uniform fast path, each run (cheap: plain function and classic operator only in quick)
    for jj in range(8):
        c = gen_case(ctx.rng, "uniform", npts, 4 * jj + 1)
        if ctx.quick:
            c["impls"] = ["re.func", "cl.op"]
        cases.append(c)
    for k in range(ctx.n(8, 200)):
        m = _lu(ctx.rng, 1e-3, 1e3)
        cases.append(dict(op="moments", mean=m, std=m * _lu(ctx.rng, 1e-3, 1e2)))
    cases += [dict(op="moments", mean=-1.0, std=1.0), dict(op="moments", mean=1.0, std=0.0), dict(op="moments", mean=0.0, std=-2.0)]
    for k in range(ctx.n(9, 120)):
        cases.append(gen_interp_case(ctx.rng, k))
    for mcase in MALFORMED:
        cases.append(dict(op="malformed", **mcase))
    # round 2: the extremes of the parameter range (generated last: the streams above are unchanged)
    cases += X.gen_extreme(ctx.rng, ctx.quick)
    for k in range(ctx.n(6, 48)):
        c = gen_table_extreme(ctx.rng, k + (ctx.seed % 4) * 6 if ctx.quick else k, npts)
        if ctx.quick:
            c["impls"] = [i for i in c["impls"] if i not in ("re.jit", "cl.field")] or c["impls"]
        cases.append(c)

    for c in cases:
        op = c.get("op", "transform")
        ctx.stat("op:" + op)
        ctx.case({k: v for k, v in c.items() if k != "ship_table"}, _nontrivial(c))
        if op == "extreme":
            _extreme_stats(ctx, c)
            _register(ctx, c, X.oracle_extreme(c))
            corr_extreme(co, c)
        elif op == "transform":
            if c.get("extreme"):
                ctx.stat("extreme:table:" + c["fam"])
                ctx.stat("extreme:table:shape-decade:1e%+03d" % math.floor(math.log10(c["par"]["a"])))
            ctx.stat("fam:" + c["fam"])
            for impl in c["impls"]:
                ctx.stat("impl:" + c["fam"] + "/" + impl)
            x = np.asarray(c["x"])
            ctx.stat("points:x<0", int((x < 0).sum()))
            ctx.stat("points:x>0", int((x > 0).sum()))
            ctx.stat("points:x=0", int((x == 0).sum()))
            ctx.stat("points:p<1e-9|p>1-1e-9", int((np.abs(x) > 5.998).sum()))
            if c["par"].get("loc"):
                ctx.stat("branch:loc!=0")
            ev = evaluate(c)
            ctx.stat("transform-evaluations(points x implementations)", sum(len(r["x"]) for r in ev.values() if not I.is_err(r)))
            _register(ctx, c, judge(c, ev))
            corr_transform(co, c, ev)
        elif op == "moments":
            _register(ctx, c, oracle_moments(c))
            corr_moments(co, c)
        elif op == "interp":
            ctx.stat("interp:" + ("num" if c.get("step") is None else "step") + (":log" if c.get("log") else ""))
            _register(ctx, c, oracle_interp(c))
            corr_interp(co, c)
        elif op == "malformed":
            ctx.stat("malformed:" + c["want"])
            _register(ctx, c, oracle_malformed(c))
    co.run()
    worst = {}
    for (fam, name, impl), v in X.STATS.items():
        key = fam + ":" + name
        worst[key] = max(worst.get(key, 0.0), round(float(v), 3))
    ctx.extra["extreme_tolerance_factor_K"] = X.K
    ctx.extra["extreme_worst_error_in_units_of_eps_x_conditioning"] = dict(sorted(worst.items()))


def shrink(case):
    op = case.get("op", "transform")
    if op == "extreme":
        yield from X.shrink_extreme(case)
        return
    if op != "transform":
        return
    x = case["x"]
    if len(case["impls"]) > 1:
        for impl in case["impls"]:
            yield dict(case, impls=[impl])
        for i in range(len(case["impls"])):
            for j in range(i + 1, len(case["impls"])):
                yield dict(case, impls=[case["impls"][i], case["impls"][j]])
    if len(x) > 2:
        for i in range(len(x)):
            yield dict(case, x=[x[i]])
        for i in range(len(x) - 1):
            yield dict(case, x=[x[i], x[i + 1]])
        yield dict(case, x=x[: len(x) // 2])
        yield dict(case, x=x[len(x) // 2:])
    for k, v in case["par"].items():
        if isinstance(v, float) and v != round(v, 1) and k not in ("step",):
            for nd in (0, 1, 2):
                w = round(v, nd)
                if w != v and w != 0:
                    par = dict(case["par"], **{k: w})
                    if case["fam"] == "uniform" and not par["a"] < par["b"]:
                        continue
                    if k in ("mode", "mean", "var", "a", "scale") and case["fam"] in ("invgamma", "gamma") and \
                            ("mode" in par or "var" in par):
                        continue      # derived parameters must stay consistent
                    yield dict(case, par=par)
    for i in range(len(x)):
        w = round(x[i], 2)
        if w != x[i]:
            yield dict(case, x=sorted(set(x[:i] + [w] + x[i + 1:])))


def search(ctx):
    """a proof or the correspondence broke and no failing input is known: hunt on the real code"""
    import random
    rng = random.Random(ctx.seed + 12345)
    for c in corpus_cases():
        r = oracle(c)
        if r:
            ctx.counterexample(c, *r)
            return
    for mcase in MALFORMED:
        c = dict(op="malformed", **mcase)
        r = oracle(c)
        if r:
            ctx.counterexample(c, *r)
            return
    for c in X.gen_extreme(rng, True):
        r = oracle(c)
        if r:
            ctx.counterexample(c, *r)
            return
    for k in range(ctx.n(10, 40)):
        for fam in FAMS:
            c = gen_case(rng, fam, 30)
            r = oracle(c)
            if r:
                ctx.counterexample(c, *r)
                return
        c = gen_interp_case(rng, k)
        r = oracle(c)
        if r:
            ctx.counterexample(c, *r)
            return
        m = _lu(rng, 1e-3, 1e3)
        c = dict(op="moments", mean=m, std=m * _lu(rng, 1e-3, 1e2))
        r = oracle(c)
        if r:
            ctx.counterexample(c, *r)
            return
