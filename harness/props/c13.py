"""C13 — Gaussian sampling from covariance operators has the right covariance (DESIGN.md §5 C13, design.d/C13.md)."""
import contextlib
import io
import json
import os
from concurrent.futures import ThreadPoolExecutor

import numpy as np

from core.ctx import VERIF
from translators import t1_modetables
from . import _opalg_exact as X
from . import _opalg_world as OW
from . import c01

ID = "C13"
LEAN_MODULES = ["NiftyVerif.Props.C13", "NiftyVerif.Model.SamplingDriver", "NiftyVerif.Core.Proto"]
DRIVER = "Driver/C13.lean"
TRANSLATORS = [t1_modetables.translate]
OBLIGATIONS = ["NiftyVerif.C13." + t for t in (
    "cov_append", "cov_map_mul", "scaling_cov", "scaling_inv_cov", "diag_cov", "sandwich_cov", "sandwich_inv_cov",
    "sum_cov", "adapter_sampler", "enabler_cov", "scaling_refuses_iff", "diag_refuses_iff", "sum_refuses_iff",
    "blockdiag_cov", "scaling_multi_cov", "covC_uniform",
)]
RULE = ("covariance scripts (scaling, diagonal incl. partial-space, sandwich over random buns from the C01 generator, "
        "block-diagonal, sums, adjoint/inverse adapters, InversionEnabler, SamplingEnabler) with real or complex sampling "
        "dtype, forward and inverse draws, plus a refusal stream (no dtype, negative/complex/zero variances, subtracted "
        "summands, scaled chains); the RNG is replaced by basis excitations so the exact excitation-to-sample matrix A of "
        "the REAL sampler is observed; non-trivial = the real sampler produced a sample; distinct by (script, from_inverse)")
TRUSTED_BASE = [
    "Lean 4.33 kernel; axioms propext/Classical.choice/Quot.sound only (audited every run)",
    "an affine image A xi of a standard normal vector is Gaussian with covariance A A^H; numpy's Generator.normal is "
    "standard normal (replaced by basis vectors here, not tested)",
    "harness: RNG substitution (nifty.cl.random._rng / Random.normal), exact Gaussian-rational arithmetic, generator",
    "translator T1 (mode tables used by den/cap of the shared operator model)",
]
ASSUMPTIONS = [
    "complex sampling dtype: real and imaginary part of every excitation have variance 1 (Field.from_random), so "
    "E[s s^H] = 2 * operator and E[s s^T] = 0 is what 'covariance equal to the operator' means there",
    "comparison tolerance 1e-9 (1e-6 for the CG solve of SamplingEnabler / InversionEnabler); irrational square roots are "
    "checked by the oracle only (the exact model answers 'irrational')",
    "the CG solve is modelled as an exact inverse",
]

world = c01.world


# ------------------------------------------------------------------------------------------------------------
# RNG substitution
# ------------------------------------------------------------------------------------------------------------
class BasisGen:
    """stands in for numpy's Generator: the `hot`-th scalar drawn is 1, all others 0"""

    def __init__(self, hot):
        self.hot, self.k = hot, 0

    def normal(self, mean, std, shape):
        n = int(np.prod(shape)) if shape != () else 1
        out = np.zeros(n)
        if self.k <= self.hot < self.k + n:
            out[self.hot - self.k] = 1.0
        self.k += n
        return mean + std * out.reshape(shape)


@contextlib.contextmanager
def patched_rng(hot, record):
    import nifty.cl.random as R
    gen = BasisGen(hot)
    R._rng.append(gen)
    orig = R.Random.normal

    def normal(dtype, shape, mean=0., std=1.):
        record.append((2 if np.issubdtype(dtype, np.complexfloating) else 1, int(np.prod(shape)) if shape != () else 1))
        return orig(dtype, shape, mean, std)
    R.Random.normal = staticmethod(normal)
    try:
        yield gen
    finally:
        R.Random.normal = staticmethod(orig)
        R._rng.pop()


def build(W, case):
    import nifty.cl as ift
    if case.get("se"):
        se = case["se"]
        ic = ift.GradientNormController(iteration_limit=300, tol_abs_gradnorm=1e-13)
        return ift.SamplingEnabler(W.build(se["lik"]), W.build(se["prior"]), ic, start_from_zero=bool(se.get("zero", False)))
    return W.build(case["script"])


def draw(W, op, fi, hot, record):
    with patched_rng(hot, record) as gen, contextlib.redirect_stdout(io.StringIO()), np.errstate(all="ignore"):
        s = op.draw_sample(from_inverse=fi)
    return W.flat(W.dom_id(op.domain), s).astype(complex), gen.k


def run_real(W, case):
    """{'A': matrix over the real scalar draws, 'draws': [(dtcode, n)], 'mean': sample for all-zero excitations} | {'error'}"""
    try:
        op = build(W, case)
    except Exception as e:  # noqa: BLE001
        return dict(error=type(e).__name__, site=OW.err_site(e), stage="build")
    fi = bool(case["fi"])
    try:
        rec = []
        mean, n = draw(W, op, fi, -1, rec)
    except Exception as e:  # noqa: BLE001
        return dict(error=type(e).__name__, site=OW.err_site(e), stage="draw")
    cols = []
    try:
        for j in range(n):
            cols.append(draw(W, op, fi, j, [])[0])
    except Exception as e:  # noqa: BLE001
        return dict(error=type(e).__name__, site=OW.err_site(e), stage="draw")
    A = np.array(cols).T.reshape(len(mean), n)
    return dict(A=A, draws=rec, mean=mean, dom=W.dom_id(op.domain))


# ------------------------------------------------------------------------------------------------------------
# generator
# ------------------------------------------------------------------------------------------------------------
SQ = [(1, 0), (4, 0), (9, 0), ("1/4", 0), ("16/9", 0), ("1/9", 0), (16, 0)]
NONSQ = [(2, 0), (3, 0), ("1/2", 0), (5, 0)]
BAD = [(-1, 0), (-4, 0), (0, 1), (1, 1)]


def gj(c):
    return X.gjson(X.g(c))


def variance(rng, mode):
    r = rng.random()
    if mode == "bad" and r < 0.5:
        return rng.choice(BAD)
    if r < 0.07:
        return (0, 0)
    if r < 0.2:
        return rng.choice(NONSQ)
    return rng.choice(SQ)


def cov_scaling(W, rng, d, dt, mode):
    return dict(op="scaling", dom=d, c=gj(variance(rng, mode)), dt=dt, d=d, t=d)


def cov_diag(W, rng, d, dt, mode):
    n = W.sizes[d]
    spaces = None
    if d == 4 and rng.random() < 0.5:
        spaces = rng.choice([[0], [1]])
        k = 2 if spaces == [0] else 3
        vals = [variance(rng, "ok") for _ in range(k)]
        if mode == "bad":
            vals[rng.randrange(k)] = rng.choice(BAD)
        full = [vals[i // 3] for i in range(6)] if spaces == [0] else [vals[i % 3] for i in range(6)]
    else:
        vals = [variance(rng, "ok") for _ in range(n)]
        if mode == "bad":
            vals[rng.randrange(n)] = rng.choice(BAD)
        full = vals
    return dict(op="diag", dom=d, v=[gj(v) for v in full], dt=dt, d=d, t=d, py=dict(spaces=spaces, vals=[gj(v) for v in vals]))


def ok_bun(W, bun):
    """a bun must denote a matrix (no inverse of a non-invertible operator) and contain no zero scaling / diagonal entry
    (dividing by those is documented as the caller's responsibility)"""
    try:
        OW.naive_matrix(W, bun)
    except X.Singular:
        return False
    for n in c01.walk(bun):
        if n["d"] == n["t"] and n["op"] not in ("null",):
            try:
                X.minv(OW.naive_matrix(W, n))      # merged diagonals must not acquire zero entries either
            except X.Singular:
                return False
        if n["op"] in ("scaling", "scale") and X.g(n["c"]) == X.ZERO:
            return False
        if n["op"] == "diag" and any(X.g(v) == X.ZERO for v in n["v"]):
            return False
    return True


FLIPS = [["adjoint"], ["inverse"], ["adjoint", "inverse"], ["inverse", "adjoint"], ["inverse", "inverse"],
         ["adjoint", "adjoint"], ["adjoint", "inverse", "adjoint"], ["inverse", "adjoint", "inverse"],
         ["adjoint", "inverse", "inverse"]]


def cov(W, rng, d, dt, depth, mode="ok"):
    """a covariance-like script, with probability 0.45 below a random combination of `.adjoint` / `.inverse` (every pending
    transformation of diagonals, nested adapters around sandwiches / sums / block-diagonals, in both orders)"""
    e = cov_core(W, rng, d, dt, depth, mode)
    if rng.random() < 0.45:
        for f in rng.choice(FLIPS):
            e = dict(op=f, a=e, d=d, t=d)
    return e


def cov_core(W, rng, d, dt, depth, mode="ok"):
    """a script for a covariance-like operator on domain d with sampling dtype code dt"""
    if d in W.multi:
        kinds = ["block", "block", "scaling", "add"] if depth > 0 else ["block", "scaling"]
    elif depth <= 0:
        kinds = ["scaling", "diag", "diag"]
    else:
        kinds = ["scaling", "diag", "diag", "sandwich", "sandwich", "sandwich", "sandwich", "add", "add", "adjoint", "inverse",
                 "inverse", "inverse", "invEnabler", "sub", "scale", "matmul"]
    k = rng.choice(kinds)
    sub_mode = mode if rng.random() < 0.5 else "ok"
    dtx = dt if not (mode == "bad" and rng.random() < 0.3) else 0
    if k == "scaling":
        return cov_scaling(W, rng, d, dtx, mode)
    if k == "diag":
        return cov_diag(W, rng, d, dtx, mode)
    if k == "block":
        ents = []
        for sd in W.multi[d]:
            ents.append(None if (mode == "bad" and rng.random() < 0.3) else cov(W, rng, sd, dt, depth - 1, sub_mode))
        return dict(op="block", dom=d, subdoms=W.multi[d], ents=ents, d=d, t=d)
    if k == "sandwich":
        mids = [m for m in range(len(W.sizes)) if W.connected(d, m)]
        m = rng.choice(mids)
        for _ in range(20):
            bun = c01.gen(W, rng, d, m, rng.choice([0, 0, 1]))
            if ok_bun(W, bun):
                break
        else:
            bun = dict(op="scaling", dom=d, c=gj((2, 0)), dt=0, d=d, t=d)
            m = d
        cheese = None if rng.random() < 0.2 else cov(W, rng, m, dt, depth - 1, sub_mode)
        return dict(op="sandwich", bun=bun, cheese=cheese, dt=dtx, d=d, t=d)
    if k in ("add", "sub"):
        # now and then the two summands carry DIFFERENT sampling dtypes (merged scalings / diagonals must then lose theirs)
        dtb = dt if rng.random() < 0.8 else rng.choice([0, 1, 2])
        return dict(op=k, a=cov(W, rng, d, dt, depth - 1, sub_mode), b=cov(W, rng, d, dtb, depth - 1, "ok"), d=d, t=d)
    if k in ("adjoint", "inverse", "invEnabler"):
        inv_leaves = [lf for lf in W.leaves if lf.dom == d and lf.tgt == d and lf.cap == 15]
        if k == "inverse" and inv_leaves and rng.random() < 0.5:
            # an OperatorAdapter around a sandwich whose bun can be inverted: the adapter must swap forward and inverse draws
            lf = rng.choice(inv_leaves)
            inner = dict(op="sandwich", bun=dict(op="leaf", id=lf.id, d=d, t=d), cheese=cov(W, rng, d, dt, 0, sub_mode), dt=dtx, d=d, t=d)
            return dict(op="inverse", a=inner, d=d, t=d)
        return dict(op=k, a=cov(W, rng, d, dt, depth - 1, mode), d=d, t=d)
    if k == "scale":
        return dict(op="scale", a=cov(W, rng, d, dt, depth - 1, mode), c=gj(rng.choice(SQ)), d=d, t=d)
    if k == "matmul":
        return dict(op="matmul", a=cov(W, rng, d, dt, depth - 1, "ok"), b=cov(W, rng, d, dt, depth - 1, "ok"), d=d, t=d)
    raise AssertionError(k)


def cov_mixed(W, rng, d):
    """a sum of two to four scalings / diagonals whose sampling dtypes (none, real, complex) are drawn independently: merged
    scalings keep a dtype only if all agree, a scalar is absorbed only into a diagonal of the same dtype, diagonals of different
    dtypes stay separate"""
    terms = []
    for _ in range(rng.choice([2, 2, 3, 4])):
        dt = rng.choice([0, 1, 1, 2, 2])
        terms.append(cov_scaling(W, rng, d, dt, "ok") if rng.random() < 0.6 else cov_diag(W, rng, d, dt, "ok"))
    e = terms[0]
    for t in terms[1:]:
        e = dict(op="add", a=e, b=t, d=d, t=d) if rng.random() < 0.7 else dict(op="add", a=t, b=e, d=d, t=d)
    return e


def gen_case(W, rng, depth, force_se=False):
    d = rng.randrange(len(W.sizes))
    dt = rng.choice([1, 1, 2])
    mode = "bad" if rng.random() < 0.25 else "ok"
    fi = rng.random() < 0.45
    if not force_se and d not in W.multi and rng.random() < 0.08:
        return dict(script=cov_mixed(W, rng, d), fi=rng.random() < 0.2, dt=dt, d=d)
    if not force_se and d not in W.multi and rng.random() < 0.07:
        # positive SEMI-definite variances (some exactly zero) below every combination of flips, drawn forward and from the inverse:
        # which of the two is possible depends on the parity of the pending inversions, not on `from_inverse` alone
        e = cov_diag(W, rng, d, dt, "ok")
        zero = gj((0, 0))
        if e["py"]["spaces"] is None:
            k = rng.randrange(len(e["v"]))
            e["v"][k] = zero
            e["py"]["vals"][k] = zero
        for f in rng.choice(FLIPS):
            e = dict(op=f, a=e, d=d, t=d)
        return dict(script=e, fi=rng.random() < 0.5, dt=dt, d=d)
    if force_se:
        d = rng.choice([0, 1, 4])
        fi = True
    if force_se or rng.random() < 0.1:
        # likelihood: mostly a sandwich over a library leaf, so that likelihood + prior stays a SumOperator (numerical inversion)
        lik = cov(W, rng, d, dt, max(depth - 1, 0), "ok")
        sq = [lf for lf in W.leaves if lf.dom == d and lf.tgt == d and (lf.cap & 3) == 3]
        if sq and d not in W.multi and rng.random() < 0.75:
            lf = rng.choice(sq)
            lik = dict(op="sandwich", bun=dict(op="leaf", id=lf.id, d=d, t=d), cheese=cov(W, rng, d, dt, 0, "ok"), dt=dt, d=d, t=d)
        prior = cov(W, rng, d, dt, 0 if rng.random() < 0.7 else max(depth - 1, 0), "ok")
        if rng.random() < 0.5:
            lik, prior = (prior, lik) if rng.random() < 0.3 else (lik, prior)
        se = dict(lik=lik, prior=prior, zero=rng.random() < (0.25 if force_se else 0.4))
        return dict(se=se, fi=(True if force_se else rng.random() < 0.85), dt=dt, d=d)
    return dict(script=cov(W, rng, d, dt, depth, mode), fi=fi, dt=dt, d=d)


# ------------------------------------------------------------------------------------------------------------
# oracle (real code only)
# ------------------------------------------------------------------------------------------------------------
def uses_cg(case):
    if case.get("se"):
        return True
    return OW.has_op(case["script"], "invEnabler")


def peel(e, fi):
    """outer `.inverse` / `.adjoint` of a covariance script only select WHICH matrix is sampled: `X.inverse` drawn from its inverse
    is `X` drawn forward (also when `X` is singular, e.g. a diagonal with zero variances)"""
    adj = False
    while e["op"] in ("inverse", "adjoint"):
        if e["op"] == "inverse":
            fi = not fi
        else:
            adj = not adj
        e = e["a"]
    return e, fi, adj


def exact_cov(W, case):
    """the exact matrix the samples' covariance must equal, or None when it does not exist"""
    fi = case["fi"]
    try:
        if case.get("se"):
            m = X.madd(OW.naive_matrix(W, case["se"]["lik"]), OW.naive_matrix(W, case["se"]["prior"]))
        else:
            core, fi, adj = peel(case["script"], fi)
            m = OW.naive_matrix(W, core)
            if adj:
                m = X.mconjT(m)
    except X.Singular:
        return "vacuous"      # the expression itself denotes no matrix (it inverts a singular operator below the top level)
    try:
        return X.minv(m) if fi else m
    except X.Singular:
        return None


def plainly_representable(e, fi):
    """scripts every documented sampler must accept (forward draws; inverse draws of strictly positive variances)"""
    op = e["op"]
    if op == "scaling":
        c = X.g(e["c"])
        return e["dt"] != 0 and c[1] == 0 and (c[0] > 0 or (c[0] == 0 and not fi))
    if op == "diag":
        vs = [X.g(v) for v in e["v"]]
        return e["dt"] != 0 and all(v[1] == 0 and (v[0] > 0 or (v[0] == 0 and not fi)) for v in vs)
    if op == "block":
        return all(x is not None and plainly_representable(x, fi) for x in e["ents"])
    if op == "add":
        # summands with different sampling dtypes may be merged into one operator without a dtype, which then (rightly) refuses
        dts = set(n.get("dt") for n in c01.walk(e) if n["op"] in ("scaling", "diag"))
        return (not fi) and len(dts) == 1 and plainly_representable(e["a"], fi) and plainly_representable(e["b"], fi)
    return False


def oracle(case):
    W = world()
    real = run_real(W, case)
    tol = 1e-6 if uses_cg(case) else 1e-9
    if "error" in real:
        if real["stage"] == "build":
            if real["error"] == "ZeroDivisionError":
                return None
            return (f"covariance expression cannot be built: {real['error']} at {real['site']}",
                    dict(kind="crash-build", error=real["error"], site=real["site"]))
        if not case.get("se") and plainly_representable(*peel(case["script"], case["fi"])[:2]):
            return (f"a plainly representable covariance refuses to sample: {real['error']} at {real['site']}",
                    dict(kind="refuses-representable", error=real["error"], top=case["script"]["op"]))
        return None   # refusing is always safe
    A, mean = real["A"], real["mean"]
    if isinstance(exact_cov(W, case), str):
        return None
    if not case.get("se"):
        try:
            OW.naive_matrix(W, case["script"])
        except X.Singular:
            # the script inverts a singular operator at its top (`Scaling(0).inverse`, a diagonal with zero variances): dividing by
            # zero is the caller's responsibility; only the well-defined reading (`X.inverse` drawn from its inverse = `X` drawn
            # forward) with finite samples is judged
            if exact_cov(W, case) is None or not (np.all(np.isfinite(A)) and np.all(np.isfinite(mean))):
                return None
    if not np.all(np.isfinite(A)) or not np.all(np.isfinite(mean)):
        return ("sampler returns non-finite values instead of refusing", dict(kind="nonfinite", fi=case["fi"]))
    if np.max(np.abs(mean), initial=0.0) > tol:
        return ("sample for all-zero excitations is not zero (non-zero mean)", dict(kind="mean"))
    kinds = set(dt for dt, _ in real["draws"])
    if len(kinds) > 1:
        return None   # mixed sampling dtypes: no single covariance convention applies
    kappa = 2.0 if kinds == {2} else 1.0
    C = exact_cov(W, case)
    if isinstance(C, str):
        return None
    if C is None and case.get("se"):
        return None   # likelihood + prior is singular: the numerical (CG) inversion cannot notice; the property is about covariances
    if C is None:
        return ("sampler draws from an operator whose (inverse) covariance does not exist", dict(kind="no-covariance", fi=case["fi"]))
    Cn = X.mnumpy(C, len(mean), len(mean))
    AAh = A @ A.conj().T
    if not c01.close(AAh, kappa * Cn, tol):
        top = "SamplingEnabler" if case.get("se") else case["script"]["op"]
        return (f"A A^H differs from {'2x ' if kappa == 2 else ''}the {'inverse ' if case['fi'] else ''}operator "
                f"(max abs diff {float(np.max(np.abs(AAh - kappa * Cn))):.3g})", dict(kind="covariance", fi=case["fi"], top=top))
    if kappa == 2.0 and not c01.close(A @ A.T, np.zeros_like(Cn), tol):
        return ("complex samples are not circular (A A^T != 0)", dict(kind="pseudo-covariance", fi=case["fi"]))
    if kappa == 1.0 and np.max(np.abs(A.imag), initial=0.0) > tol and not np.any(np.abs(Cn.imag) > 0):
        return None
    return None


def shrink(case):
    if case.get("se"):
        for k in ("lik", "prior"):
            yield dict(script=case["se"][k], fi=case["fi"], dt=case.get("dt", 1), d=case.get("d", 0))
        return
    s = case["script"]
    for n in list(c01.walk(s))[1:]:
        if n["d"] == n["t"]:
            yield dict(case, script=n)
    for cand in c01.shrink(dict(script=s, valid=True)):
        yield dict(case, script=cand["script"])


# ------------------------------------------------------------------------------------------------------------
# model side
# ------------------------------------------------------------------------------------------------------------
def run_model(ctx, W, cases):
    reqs = []
    for c in cases:
        ids = set()
        for s in ([c["script"]] if not c.get("se") else [c["se"]["lik"], c["se"]["prior"]]):
            OW.leaf_ids(s, ids)
        lib = W.lib_json(ids)
        r = dict(sizes=lib["sizes"], leaves=lib["leaves"], fi=bool(c["fi"]), multi=[[dm] + subs for dm, subs in W.multi.items()])
        if c.get("se"):
            r["se"] = dict(lik=c01.strip(c["se"]["lik"]), prior=c01.strip(c["se"]["prior"]), zero=bool(c["se"].get("zero", False)))
            r["script"] = None
        else:
            r["script"] = c01.strip(c["script"])
        reqs.append(r)
    k = max(1, min(6, len(reqs) // 40))
    step = (len(reqs) + k - 1) // k
    chunks = [reqs[i:i + step] for i in range(0, len(reqs), step)]
    with ThreadPoolExecutor(max_workers=6) as ex:
        outs = list(ex.map(lambda ch: ctx.model(DRIVER, ch), chunks))
    return [o for ch in outs for o in ch]


def model_matrix(model, nrows):
    """the model's blocks as one matrix over the real scalar draws (complex draw = real part draws, then imaginary part draws)"""
    cols, draws = [], []
    for b in model["blocks"]:
        m = X.mnumpy(X.mfromjson(b["m"]), nrows, 0)
        draws.append((b["dt"], m.shape[1]))
        cols.append(m)
        if b["dt"] == 2:
            cols.append(1j * m)
    A = np.concatenate(cols, axis=1) if cols else np.zeros((nrows, 0), dtype=complex)
    return A, draws


def compare_one(ctx, W, case, real, model):
    tol = 1e-6 if uses_cg(case) else 1e-9
    if model.get("error") == "ZeroDivisionError":
        ctx.stat("skipped-inverse-of-zero-scaling")
        ctx.case(case, nontrivial=False)
        return
    if case.get("se") and exact_cov(W, case) is None:
        ctx.stat("skipped-singular-numerical-inversion")
        ctx.case(case, nontrivial=False)
        return
    if isinstance(exact_cov(W, case), str):
        # the script inverts a singular operator (e.g. a diagonal with zero entries): it denotes no matrix; NumPy yields inf/nan
        # where the exact model has 0 - not compared (documented as the caller's responsibility)
        ctx.stat("skipped-no-matrix-semantics")
        ctx.case(case, nontrivial=False)
        return
    if "irrational" in model:
        ctx.stat("model-irrational(oracle only)")
        ctx.case(case, nontrivial="error" not in real)
        if "error" in real:
            ctx.disagree(case, dict(error=real["error"]), model, "model samples (irrational root), code refuses")
        return
    if "error" in real or "error" in model:
        ri = dict(error=real["error"]) if "error" in real else dict(ok=True)
        mi = dict(error=model["error"]) if "error" in model else dict(ok=True)
        ctx.compare(case, ri, mi, note="refusal behaviour (error kind) differs between model and code", nontrivial=False)
        return
    n = real["A"].shape[0]
    Am, draws_m = model_matrix(model, n)
    ri = dict(draws=[list(x) for x in real["draws"]], A="ok")
    mi = dict(draws=[list(x) for x in draws_m], A="ok" if c01.close(real["A"], Am, tol) else "differs")
    if mi["A"] == "ok":
        ctx.stat("A-bit-exact" if np.array_equal(real["A"], Am) else "A-within-tol")
    ctx.compare(case, ri, mi, note="excitation-to-sample matrix / drawing order and dtypes: model vs real sampler", nontrivial=True)


def load_corpus():
    d = os.path.join(VERIF, "corpus", ID)
    out = []
    if os.path.isdir(d):
        for fn in sorted(os.listdir(d)):
            if fn.endswith(".json"):
                rec = json.load(open(os.path.join(d, fn)))
                out.append(rec.get("case", rec))
    return out


def run(ctx):
    W = world()
    cases = load_corpus()
    n = ctx.n(220, 2000)
    for i in range(n):
        cases.append(gen_case(W, ctx.rng, ctx.rng.choice([0, 1, 1, 2] if ctx.quick else [0, 1, 2, 2, 3]), force_se=(i % 8 == 7)))
    reals = [run_real(W, c) for c in cases]
    models = run_model(ctx, W, cases)
    for c, r, m in zip(cases, reals, models):
        ctx.stat("kind:" + ("SamplingEnabler" if c.get("se") else c["script"]["op"]))
        ctx.stat("from_inverse" if c["fi"] else "forward")
        ctx.stat("dtype:" + {1: "float64", 2: "complex128"}.get(c.get("dt"), "?"))
        if "error" in r:
            ctx.stat("refusal:" + r["error"])
        else:
            ctx.stat("sampled")
        compare_one(ctx, W, c, r, m)
        res = oracle(c)
        if res:
            ctx.counterexample(c, *res)


def search(ctx):
    W = world()
    for i in range(1200):
        c = gen_case(W, ctx.rng, ctx.rng.choice([0, 1, 2]))
        r = oracle(c)
        if r:
            ctx.counterexample(c, *r)
            return
