"""C14 — Classic conjugate gradient solves positive definite systems (DESIGN.md §5 C14, design.d/C14.md).

Lean: Model/Controllers.lean + Model/CgClassic.lean (executable, generic in scalar/vector type), theorems in
Props/C14.lean.  Tie: the real `ConjugateGradient`, `QuadraticEnergy`, the five controllers and `InversionEnabler` are run
in-process on generated Hermitian positive definite systems and compared with the exact-rational model run
(trajectory: alpha, curvature, gamma, energy, gradient norm, reset pattern, controller status/counters per iteration).
The oracle states the property on the real code only.
"""
import math
from fractions import Fraction

import numpy as np

from props import _c14_impl as impl
from props import _c14_gen as gen
from props._c14_impl import F, fstr

ID = "C14"
LEAN_MODULES = ["NiftyVerif.Props.C14", "NiftyVerif.Model.CgClassicDriver"]
DRIVER = "Driver/C14.lean"
OBLIGATIONS = ["NiftyVerif.C14." + t for t in (
    "qe_consistent", "qe_at_consistent", "cg_grad_invariant", "cg_value_correct",
    "ctrl_converged_criterion", "ctrl_start_converged_criterion", "ctrl_count_sound",
    "gradnorm_ctrl_sound", "gradinf_ctrl_sound", "deltaE_ctrl_sound", "absdeltaE_ctrl_sound", "stochastic_ctrl_sound",
    "norm_comparisons_sqrt_free",
    "cg_controller_replay", "cg_verdict_sound", "cg_ctrl_sound", "cg_gradnorm_sound", "cg_gradinf_sound",
    "cg_deltaE_sound", "cg_absdeltaE_sound", "cg_stochastic_sound", "cg_gradnorm_error_bound", "cg_energy_gap_is_error",
    "cg_alpha_positive_or_error", "cg_no_error_spd", "cg_energy_monotone",
    "cg_status_final", "cg_result_not_worse", "cg_conjugacy_invariants", "cg_exact_in_n_steps", "cg_exact_hermitian", "cg_exact_solution", "cg_optimal_on_subspace", "cg_optimal_on_krylov",
    "ie_modes_available", "inversion_enabler_direct", "inversion_enabler_solves", "inversion_enabler_run",
    "inversion_enabler_solves_gradinf", "inversion_enabler_solves_deltaE", "inversion_enabler_solves_absdeltaE",
    "inversion_enabler_solves_stochastic", "inversion_enabler_error_bound", "complex_hermitian_covered", "cg_exact_complex", "driver_instance_lawful")]
RULE = ("cases: (qe) QuadraticEnergy at/at_with_grad on integer systems, exact; (ctrl) each of the 5 controllers fed "
        "with generated observation sequences (exact dyadic), all levels/limits incl. degenerate; (cg) generated "
        "integer HPD systems real/complex, +-preconditioner, every controller, nreset 1..5/20, whole trajectory compared "
        "with the exact model (class T, decisions compared only outside a 1e-4 margin), plus exact one-step systems "
        "(class E) and a non-PD error stream; (ie) InversionEnabler over capabilities x modes x approximation. "
        "non-trivial = at least one loop iteration / controller call beyond start / CG actually invoked; "
        "distinct by canonical case JSON")
TRUSTED_BASE = [
    "Lean 4.33 kernel; axioms propext/Classical.choice/Quot.sound only (audited every run)",
    "hand-written models Model/Controllers.lean, Model/CgClassic.lean of iteration_controllers.py, quadratic_energy.py, "
    "conjugate_gradient.py, inversion_enabler.py (+ mode tables/OperatorAdapter.apply): tied by differential execution only",
    "complex Hermitian systems are run in the model as real systems of doubled dimension (embedding done in Driver/C14.lean)",
    "norm comparisons are modelled squared (sqrt-free); equivalence proved over the reals (Lemmas/Controllers.lean)",
    "harness: generators, trajectory extraction from the real run (recording operator/controller wrappers), tolerances",
    "NumPy/ducc0 arithmetic (IEEE rounding, reduction order) executed, not modelled; np.isnan guards not modelled"]
ASSUMPTIONS = [
    "oracle allows 1e-8*(|b|+|A||x|) for drift between recurrence residual and true residual (rounding, outside the model)",
    "DeltaEnergyController is modelled as repaired by fixes/C14_deltae_zero_energy.diff (two vanishing energies give "
    "rel = nan instead of ZeroDivisionError); on a tree without that fix the check reports the ZeroDivisionError as a "
    "violation (finding C14-deltae-zero-energy)"]

MARGIN = 1e-4      # relative margin inside which a float branch decision is not compared
TOL = 1e-6         # class-T relative tolerance on trajectory quantities (observed noise <= 1e-9, see design.d/C14.md)


# ------------------------------------------------------------------------------------------------------------------
# numerics on the real run (harness side; never the model)
# ------------------------------------------------------------------------------------------------------------------
def _ip(a, b):
    return float(np.vdot(a, b).real)


def _res(A, b, x):
    return A @ x if b is None else A @ x - b


def _val(A, b, x):
    v = 0.5 * _ip(x, A @ x)
    return v if b is None else v - _ip(b, x)


def _scale(A, b, x):
    nb = 0.0 if b is None else float(np.linalg.norm(b))
    return nb + float(np.linalg.norm(A)) * float(np.linalg.norm(x)) + 1e-300


def _close(a, b, rel, abs_=0.0):
    return abs(a - b) <= rel * max(abs(a), abs(b)) + abs_


def _approx(j):
    """model number -> float:  [m, e] = m*2^e  |  'p/q'"""
    if isinstance(j, list):
        return math.ldexp(float(j[0]), j[1]) if abs(j[1]) < 900 else float(Fraction(j[0]) * Fraction(2) ** j[1])
    return float(F(j))


def _mvec(case, lst):
    v = np.array([_approx(t) for t in lst])
    if case.get("cplx"):
        n = case["n"]
        return v[:n] + 1j * v[n:]
    return v


# ------------------------------------------------------------------------------------------------------------------
# criterion of each controller on *true* quantities (used by the oracle) and decision margins on observed quantities
# ------------------------------------------------------------------------------------------------------------------
def _crit_true(cj, k, tr):
    """does the controller's criterion hold at check k on the true residual/energy sequence `tr`
    (list of dict(res, resinf, val, slack)); returns (bool)"""
    t = cj["type"]
    cur = tr[k]
    sl = cur["slack"]
    if t == "gradnorm":
        ok = False
        if cj.get("tol_abs") is not None:
            ok |= cur["res"] <= float(F(cj["tol_abs"])) + sl
        if cj.get("tol_rel") is not None:
            ok |= cur["res"] <= float(F(cj["tol_rel"])) * tr[0]["res"] + sl
        return ok
    if t == "gradinf":
        if cj.get("tol") is None or cur["val"] == 0:
            return False
        return cur["resinf"] <= float(F(cj["tol"])) * abs(cur["val"]) + sl
    if k == 0:
        return False
    tol = float(F(cj["tol"]))
    if t == "deltae":
        prev = tr[k - 1]["val"]
        den = max(abs(prev), abs(cur["val"]))
        return den > 0 and abs(prev - cur["val"]) < tol * den + cur["vslack"]
    if t == "absdeltae":
        return abs(tr[k - 1]["val"] - cur["val"]) < tol + cur["vslack"]
    if t == "stochastic":
        ml = cj["memlen"]
        mem = [q["val"] for q in tr[:k + 1]]
        if len(mem) > ml:
            mem = mem[len(mem) - ml:] if ml > 0 else []
        return len(mem) > 0 and float(np.std(mem)) < tol + cur["vslack"]
    raise ValueError(t)


def _margin(cj, k, recs):
    """relative distance of the float decision(s) taken in check k from their thresholds (observed quantities)"""
    t = cj["type"]
    r = recs[k]

    def rel(a, b):
        return abs(a - b) / max(abs(a), abs(b), 1e-300)
    m = 1.0
    if t == "gradnorm":
        if cj.get("tol_abs") is not None:
            m = min(m, rel(r["gn"], float(F(cj["tol_abs"]))))
        if cj.get("tol_rel") is not None:
            m = min(m, rel(r["gn"], float(F(cj["tol_rel"])) * recs[0]["gn"]))
        return m
    if t == "gradinf":
        if cj.get("tol") is None:
            return 1.0
        return rel(float(np.max(np.abs(r["grad"]))), float(F(cj["tol"])) * abs(r["value"]))
    if k == 0:
        return 1.0
    tol = float(F(cj["tol"]))
    if t == "deltae":
        prev = recs[k - 1]["value"]
        return rel(abs(prev - r["value"]), tol * max(abs(prev), abs(r["value"])))
    if t == "absdeltae":
        return rel(abs(recs[k - 1]["value"] - r["value"]), tol)
    if t == "stochastic":
        ml = cj["memlen"]
        mem = [q["value"] for q in recs[:k + 1]]
        if len(mem) > ml:
            mem = mem[len(mem) - ml:] if ml > 0 else []
        if not mem:
            return 1.0
        return rel(float(np.std(mem)), tol)
    return 1.0


# ------------------------------------------------------------------------------------------------------------------
# the property, stated on the real code only
# ------------------------------------------------------------------------------------------------------------------
def _limit_reached(cj, itcount):
    return cj.get("limit") is not None and itcount is not None and itcount >= cj["limit"]


ROUNDING_LEVEL = 1e-12


def _past_rounding_level(A, b, positions):
    """Index of the first position whose true residual is at rounding level (<= 1e-12*(|b|+|A||x|)) although the run
    went on afterwards, else None.  What CG does from there on is decided by rounding errors alone (in exact arithmetic
    it would have left through `gamma == 0`); IEEE rounding is outside the model, so nothing is claimed about the rest
    of such a run (design.d/C14.md, "Partial")."""
    if len(positions) < 2:
        return None
    sc = max([_scale(A, b, x) for x in positions if np.all(np.isfinite(x))] + [1e-300])
    for k, x in enumerate(positions[:-1]):
        if np.all(np.isfinite(x)) and float(np.linalg.norm(_res(A, b, x))) <= ROUNDING_LEVEL * sc:
            return k
    return None


def _oracle_energies(A, b, energies, site):
    """QuadraticEnergy objects carry value and gradient consistent with their position"""
    sc = max([_scale(A, b, x) for x, _, _ in energies] + [1e-300])   # drift is relative to the largest state seen
    for idx, (x, g, v) in enumerate(energies):
        rt = _res(A, b, x)
        if not np.all(np.isfinite(g)) or float(np.linalg.norm(g - rt)) > 1e-8 * sc:
            return (f"energy #{idx}: carried gradient differs from A x - b by {float(np.linalg.norm(g - rt)):.3e}",
                    {"site": site, "kind": "gradient-inconsistent"})
        vt = _val(A, b, x)
        if not math.isfinite(v) or abs(v - vt) > 1e-8 * sc * sc / (float(np.linalg.norm(A)) + 1e-300) + 1e-12 * abs(vt):
            return (f"energy #{idx}: carried value {v!r} differs from 1/2 x^H A x - Re b^H x = {vt!r}",
                    {"site": site, "kind": "value-inconsistent"})
    return None


def _oracle_verdict(cj, A, b, recs, final_x, status, itcount, site):
    """CONVERGED before the iteration limit only with a residual/energy history that meets the criterion"""
    if status != 0 or _limit_reached(cj, itcount):
        return None
    sc = _scale(A, b, final_x)
    rfin = float(np.linalg.norm(_res(A, b, final_x)))
    if rfin <= 1e-8 * sc:
        return None                                   # solved to rounding level: every criterion on the residual holds
    tr = []
    s = max([_scale(A, b, r["pos"]) for r in recs] + [sc])
    for r in recs:
        x = r["pos"]
        rt = _res(A, b, x)
        tr.append(dict(res=float(np.linalg.norm(rt)), resinf=float(np.max(np.abs(rt))), val=_val(A, b, x),
                       slack=1e-8 * s, vslack=1e-9 * s * s / (float(np.linalg.norm(A)) + 1e-300)))
    if not recs or not np.array_equal(recs[-1]["pos"], final_x):
        return (f"CONVERGED with residual {rfin:.3e} without a controller verdict at the returned position",
                {"site": site, "kind": "converged-unchecked", "ctrl": cj["type"]})
    k = len(tr) - 1
    if not _crit_true(cj, k, tr):
        return (f"CONVERGED at check {k} (itcount {itcount}, no limit reached) but the {cj['type']} criterion fails on "
                f"the true residual {tr[k]['res']:.6e} / energy {tr[k]['val']:.6e}",
                {"site": site, "kind": "converged-criterion-fails", "ctrl": cj["type"]})
    lvl = cj["level"]
    cnt = sum(1 for i in range(len(tr)) if _crit_true(cj, i, tr))
    if cnt < lvl:
        return (f"CONVERGED with convergence_level {lvl} but the criterion held at only {cnt} of {len(tr)} checks",
                {"site": site, "kind": "converged-level", "ctrl": cj["type"]})
    return None


def oracle_cg(case):
    return oracle_cg_from(case, impl.run_cg(case))


def oracle_qe(case):
    out = impl.run_qe(case)
    if "error" in out:
        return (f"QuadraticEnergy raised {out['error']}", {"site": "qe", "kind": "raised:" + out["error"]})
    A, b, _, x = impl.build_system(case)
    n = case["n"]
    g = np.array([float(F(t)) for t in out["grad"]])
    g = g[:n] + 1j * g[n:] if case.get("cplx") else g
    v = float(F(out["value"]))
    if case.get("g") is None:
        return _oracle_energies(A, b, [(x, g, v)], "qe")
    # at_with_grad: consistent exactly when the supplied gradient is A x - b
    gin = impl.cvec(case, "g")
    if np.array_equal(gin, _res(A, b, x)):
        return _oracle_energies(A, b, [(x, g, v)], "qe")
    return None


def _ie_matrix(case, mode):
    o = case["opm"]
    M, Mi = impl.cmat(case, "mat", o), impl.cmat(case, "inv", o)
    return {1: M, 2: M.conj().T, 4: Mi, 8: Mi.conj().T}[mode]


def _ie_runaway_on_noise(case, out):
    """the CG inside InversionEnabler was stopped by the harness while iterating on rounding noise"""
    if case["mode"] not in (1, 2, 4, 8) or not out.get("recs"):
        return False
    inv = {1: 4, 2: 8, 4: 1, 8: 2}[case["mode"]]
    return _past_rounding_level(_ie_matrix(case, inv), impl.cvec(case, "x"), [q["pos"] for q in out["recs"]]) is not None


def oracle_ie(case):
    out = impl.run_ie(case)
    if "error" in out:
        if out["error"] == "Runaway" and _ie_runaway_on_noise(case, out):
            return None
        # NotImplementedError is the documented answer for modes neither the operator nor its inverse offers
        return None if out["error"] == "NotImplementedError" else \
            (f"InversionEnabler.apply raised {out['error']} (controller {case['ctrl']['type']})",
             {"site": "ie", "kind": "raised:" + out["error"], "ctrl": case["ctrl"]["type"]})
    mode, cap = case["mode"], case["opm"]["cap"]
    x = impl.cvec(case, "x")
    y = out["y"]
    if cap & mode:
        d = float(np.linalg.norm(y - _ie_matrix(case, mode) @ x))
        if d > 1e-12 * (float(np.linalg.norm(y)) + 1):
            return (f"InversionEnabler.apply in a mode the operator supports differs from the operator by {d:.3e}",
                    {"site": "ie", "kind": "direct-differs"})
        return None
    if not case.get("hpd", True):
        return None
    inv = {1: 4, 2: 8, 4: 1, 8: 2}[mode]
    Ainv = _ie_matrix(case, inv)           # the system that has to be solved:  Ainv y = x
    en = [(r["pos"], r["grad"], r["value"]) for r in out["recs"]]
    k = _past_rounding_level(Ainv, x, [e[0] for e in en] + ([] if (en and np.array_equal(en[-1][0], y)) else [y]))
    if k is not None:
        return _oracle_energies(Ainv, x, en[:k + 1], "ie")
    if out["warned"]:      # "Error detected during operator inversion": CG did not return CONVERGED
        return ("InversionEnabler: CG gave up on a Hermitian positive definite system", {"site": "ie", "kind": "error-on-hpd"})
    r = _oracle_energies(Ainv, x, en, "ie")
    if r:
        return r
    if not out["recs"]:
        return ("InversionEnabler returned without consulting the controller", {"site": "ie", "kind": "no-controller"})
    last = out["recs"][-1]
    # status as the controller saw it; gamma==0 exits return CONVERGED without a check: residual must then be ~0
    st = 0 if (last["status"] == 0 or not np.array_equal(last["pos"], y)) else last["status"]
    return _oracle_verdict(case["ctrl"], Ainv, x, out["recs"], y, st, out["itcount"], "ie")


def oracle(case):
    op = case.get("op")
    if op == "cg":
        return oracle_cg(case)
    if op == "qe":
        return oracle_qe(case)
    if op == "ie":
        return oracle_ie(case)
    return None     # "ctrl": pure state-machine correspondence, the property speaks about it through cg/ie


# ------------------------------------------------------------------------------------------------------------------
# correspondence: real trajectory vs. exact model run
# ------------------------------------------------------------------------------------------------------------------
def _real_iters(case, out):
    """per-iteration quantities of the real run, from the recorded operator calls and controller calls"""
    A, b, P = out["A"], out["b"], out["P"]
    recs = out["recs"]
    # energies after each iteration: recs[1:], plus the returned one if it was not shown to the controller
    ens = [dict(pos=r["pos"], grad=r["grad"], value=r["value"], gn=r["gn"], status=r["status"], ccount=r["ccount"])
           for r in recs[1:]]
    if recs and not np.array_equal(recs[-1]["pos"], out["pos"]) or not recs:
        ens.append(dict(pos=out["pos"], grad=out["grad"], value=out["value"],
                        gn=float(np.linalg.norm(out["grad"])), status=None, ccount=None))
    calls = [c[1] for c in out["calls"]]
    its = []
    ci = 0
    prev = recs[0]["pos"] if recs else out["x0"]
    for e in ens:
        if ci >= len(calls):
            break
        d = calls[ci]
        ci += 1
        reset = False
        if ci < len(calls) and np.array_equal(calls[ci], e["pos"]):
            reset = True
            ci += 1
        dd = _ip(d, d)
        alpha = _ip(d, prev - e["pos"]) / dd if dd > 0 else float("nan")
        s = e["grad"] if P is None else P @ e["grad"]
        its.append(dict(curv=_ip(d, A @ d), alpha=alpha, reset=reset, gamma=_ip(e["grad"], s), value=e["value"],
                        gnsq=e["gn"] ** 2, status=e["status"], ccount=e["ccount"]))
        prev = e["pos"]
    return its, ci, len(calls)


def compare_cg(ctx, case, out, mod):
    """-> None if they agree (or comparison legitimately stopped), else a short description"""
    cj = case["ctrl"]
    if "error" in out or "error" in mod:
        if "error" in out and "error" in mod and out["error"] == mod["error"]:
            return None
        if out.get("error") == "Runaway" and _past_rounding_level(out["A"], out["b"], [q["pos"] for q in out["recs"]]) is not None:
            ctx.stat("cg:runaway-on-rounding-noise")       # iterating on rounding noise after the system was solved
            ctx.skipped_near_threshold += 1
            return None
        if "error" in mod and mod["error"] == "fuel":
            ctx.stat("cg:model-out-of-fuel")
            return None
        return f"error kinds differ: impl={out.get('error')} model={mod.get('error')}"
    exact = case.get("klass") == "E"
    rt, at = (0.0, 0.0) if exact else (TOL, 0.0)
    its, used, ncalls = _real_iters(case, out)
    mits = mod["iters"]
    sc = _scale(out["A"], out["b"], out["pos"]) if not exact else 0.0
    gn0 = out["recs"][0]["gn"] if out["recs"] else 0.0
    # below this relative residual the trajectory is compared no further: rounding errors ~ 1e-16*cond / (|r|/|r0|)
    try:
        kappa = float(np.linalg.cond(out["A"])) * (1.0 if out["P"] is None else float(np.linalg.cond(out["P"])))
    except Exception:
        kappa = 1e16
    floor = min(1e-2, max(1e-7, 1e-9 * kappa)) if np.isfinite(kappa) else 1e-2
    stopped = False
    # start verdict
    if out["recs"] and _margin(cj, 0, out["recs"]) < MARGIN and not exact:
        stopped = True
        ctx.stat("cg:stopped:decision-in-margin")
    for k in range(max(len(its), len(mits))):
        if stopped:
            break
        if k >= len(its) or k >= len(mits):
            return f"iteration count differs: impl={len(its)} model={len(mits)}"
        a, m = its[k], mits[k]
        mg = _approx(m["gamma"])
        mgn = _approx(m["gnsq"])
        if not exact and (mg == 0 or mgn <= (floor * gn0) ** 2):
            # exact termination / residual at rounding level: `gamma == 0` and everything after is rounding noise
            stopped = True
            ctx.stat("cg:stopped:exact-termination" if mg == 0 else "cg:stopped:noise-floor")
            break
        for key, scale_abs in (("curv", 0.0), ("alpha", 0.0), ("gamma", 0.0), ("gnsq", 0.0), ("value", 1e-9 * sc * sc)):
            mv = _approx(m[key])
            if not exact and max(abs(a[key]), abs(mv)) > 0:      # measured class-T noise, reported in the evidence
                dev = abs(a[key] - mv) / max(abs(a[key]), abs(mv))
                if dev <= rt:
                    ctx.extra["max_rel_dev_" + key] = max(ctx.extra.get("max_rel_dev_" + key, 0.0), dev)
            if not (_close(a[key], mv, rt, scale_abs if not exact else 0.0)):
                return f"iteration {k + 1}: {key} impl={a[key]!r} model={mv!r}"
        if a["reset"] != m["reset"]:
            # when the residual is recomputed is an efficiency/accuracy matter, not part of the property (exact
            # arithmetic gives the same trajectory either way): recorded, not an alarm
            ctx.stat("cg:reset-pattern-differs")
        if a["status"] is not None and not exact and _margin(cj, k + 1, out["recs"]) < MARGIN:
            stopped = True
            ctx.stat("cg:stopped:decision-in-margin")
            break
        ctx.stat("cg:iterations-compared")
        if a["status"] != m["status"] or (a["status"] is not None and a["ccount"] != m["ccount"]):
            return (f"iteration {k + 1}: controller status/ccount impl={a['status']}/{a['ccount']} "
                    f"model={m['status']}/{m['ccount']}")
    if stopped:
        ctx.skipped_near_threshold += 1
        ctx.stat("cg:stopped-at-threshold")
        return None
    # an iteration given up before a new energy was made ("curv==0.", "alpha<0.") has applied A to d once more
    extra = 1 if (out["status"] == 2 and out["hint"] in ("curvZero", "alphaNeg")) else 0
    if used + extra != ncalls:
        return f"operator applied {ncalls} times, {used} accounted for by the iterations"
    if out["status"] != mod["status"]:
        return f"status impl={out['status']} model={mod['status']}"
    if out["status"] == 2 and out["hint"] is not None and out["hint"] != mod["reason"]:
        return f"error reason impl={out['hint']} model={mod['reason']}"
    if (out["itcount"], out["ccount"], len(out["recs"])) != (mod["itcount"], mod["ccount"], mod["nchecked"]):
        return (f"controller counters (itcount, ccount, calls) impl={(out['itcount'], out['ccount'], len(out['recs']))} "
                f"model={(mod['itcount'], mod['ccount'], mod['nchecked'])}")
    mp = _mvec(case, mod["pos"])
    if float(np.linalg.norm(out["pos"] - mp)) > (0.0 if exact else TOL * (float(np.linalg.norm(mp)) + 1e-300)):
        return f"returned position differs by {float(np.linalg.norm(out['pos'] - mp)):.3e}"
    mg = _mvec(case, mod["grad"])
    if float(np.linalg.norm(out["grad"] - mg)) > (0.0 if exact else TOL * (float(np.linalg.norm(mg)) + gn0 * 1e-3)):
        return f"returned gradient differs by {float(np.linalg.norm(out['grad'] - mg)):.3e}"
    if not _close(out["value"], _approx(mod["value"]), rt, 0.0 if exact else 1e-9 * sc * sc):
        return f"returned value impl={out['value']!r} model={_approx(mod['value'])!r}"
    return None


def _model_case(case, fuel=200):
    """what the model driver is sent for a case"""
    c = {k: v for k, v in case.items() if k not in ("hpd", "klass", "family", "reuse", "pre")}
    if case.get("op") == "ctrl":       # the model reads squared norms
        c["obs"] = [[fstr(F(a) ** 2), fstr(F(b) ** 2), v] for a, b, v in case["obs"]]
    if case.get("op") in ("cg", "ie"):
        c["fuel"] = fuel
        c["exact"] = case.get("klass") == "E"
    return c


def _strip(out):
    """JSON-able digest of a real run for the disagreement record"""
    if "error" in out:
        return {"error": out["error"]}
    return dict(status=out.get("status"), itcount=out.get("itcount"), ccount=out.get("ccount"), hint=out.get("hint"),
                nrecs=len(out.get("recs", [])), value=out.get("value"))


def _one_cg(ctx, c, mod):
    if True:
        out = impl.run_cg(c)
        nit = 0 if "error" in out else max(0, len(out["recs"]) - 1)
        ctx.case(c, nontrivial=nit > 0 or "error" in out)
        ctx.stat(f"cg:ctrl={c['ctrl']['type']}")
        ctx.stat(f"cg:{'complex' if c.get('cplx') else 'real'}")
        ctx.stat(f"cg:precond={'yes' if c.get('P') is not None else 'no'}")
        ctx.stat(f"cg:n<={[2, 4, 8, 16, 40][sum(c['n'] > t for t in (2, 4, 8, 16))]}")
        ctx.stat(f"cg:family={c.get('family')}")
        ctx.stat(f"cg:nreset={c['nreset']}")
        if c.get("reuse"):
            ctx.stat("cg:controller-reused")
        if "error" in out:
            ctx.stat(f"cg:error={out['error']}")
        else:
            ctx.stat(f"cg:status={out['status']}" + ("@limit" if _limit_reached(c['ctrl'], out['itcount']) else ""))
            ctx.stat("cg:iterations", nit)
            if out["hint"]:
                ctx.stat(f"cg:gaveup={out['hint']}")
        if isinstance(mod, dict) and "reason" in mod:
            ctx.stat(f"cg:model-exit={mod['reason']}")
        why = compare_cg(ctx, c, out, mod)
        if why is not None:
            ctx.disagree(c, _strip(out), {k: mod.get(k) for k in ("status", "reason", "itcount", "ccount", "error")},
                         "C14 cg trajectory: " + why)
        else:
            ctx.traces_validated += 1
        if "error" not in out and _past_rounding_level(
                out["A"], out["b"], [q["pos"] for q in out["recs"]] + [out["pos"]]) is not None:
            ctx.stat("cg:past-rounding-level(oracle-silent-after)")
        r = oracle_cg_from(c, out)
        if r:
            ctx.counterexample(c, *r)


def oracle_cg_from(case, out):
    """oracle on an already computed real run (same statement as oracle_cg)"""
    if "error" in out:
        if out["error"] == "Runaway" and _past_rounding_level(out["A"], out["b"], [q["pos"] for q in out["recs"]]) is not None:
            return _oracle_energies(out["A"], out["b"], [(q["pos"], q["grad"], q["value"]) for q in out["recs"]][
                :_past_rounding_level(out["A"], out["b"], [q["pos"] for q in out["recs"]]) + 1], "cg")
        return (f"ConjugateGradient raised {out['error']} on a {'Hermitian positive definite' if case.get('hpd', True) else 'non-PD'}"
                f" system with controller {case['ctrl']['type']}",
                {"site": "cg", "kind": "raised:" + out["error"], "ctrl": case["ctrl"]["type"]})
    A, b = out["A"], out["b"]
    en = [(r["pos"], r["grad"], r["value"]) for r in out["recs"]]
    if not out["recs"] or not np.array_equal(out["recs"][-1]["pos"], out["pos"]):
        en.append((out["pos"], out["grad"], out["value"]))
    k = _past_rounding_level(A, b, [e[0] for e in en])
    if k is not None:
        # the system was solved to rounding level at energy #k and the controller wanted more iterations
        return _oracle_energies(A, b, en[:k + 1], "cg")
    r = _oracle_energies(A, b, en, "cg")
    if r:
        return r
    if not case.get("hpd", True):
        return None
    if out["status"] == 2:
        return (f"ConjugateGradient returned ERROR on a Hermitian positive definite system ({out['hint']})",
                {"site": "cg", "kind": "error-on-hpd"})
    if out["status"] == 1:
        return ("ConjugateGradient returned CONTINUE", {"site": "cg", "kind": "status-continue"})
    return _oracle_verdict(case["ctrl"], A, b, out["recs"], out["pos"], out["status"], out["itcount"], "cg")


def _one_qe(ctx, c, mod):
    if True:
        ctx.stat("qe:" + ("at_with_grad" if c.get("g") is not None else "at") + (":b=None" if c.get("b") is None else ""))
        out = impl.run_qe(c)
        if str(c.get("family", "")).endswith("arbitrary-grad"):
            # what `at_with_grad` stores when it is handed a gradient that is not A x - b is outside the property
            # (it trusts its caller): compared for the statistics only
            from core.ctx import canon
            ctx.case(c, True)
            if canon(out) != canon(mod):
                ctx.stat("qe:arbitrary-grad-differs(not-an-alarm)")
        else:
            ctx.compare(c, out, mod, note="C14 QuadraticEnergy value/gradient (exact)", nontrivial=True)
        r = oracle_qe(c)
        if r:
            ctx.counterexample(c, *r)


def _one_ctrl(ctx, c, mod):
    if True:
        out = impl.run_ctrl(c)
        ctx.stat(f"ctrl:{c['ctrl']['type']}")
        if c.get("pre"):
            ctx.stat("ctrl:controller-reused")
        if out.get("raised"):
            ctx.stat("ctrl:raised")
        for st in (out.get("res") or []):
            ctx.stat(f"ctrl:status={st[0]}")
        # decisions inside the margin: compare only the prefix before the first such check
        cut = gen.ctrl_first_near(c, MARGIN)
        if cut is not None:
            ctx.skipped_near_threshold += 1
            out = dict(res=out["res"][:cut], raised=False)
            mod = dict(res=(mod.get("res") or [])[:cut], raised=False) if "error" not in mod else mod
        ctx.compare(c, out, mod, note="C14 controller state machine (status, itcount, ccount per call)",
                    nontrivial=len(c["obs"]) > 1)


def _one_ie(ctx, c, mod):
    if True:
        out = impl.run_ie(c)
        ctx.stat(f"ie:mode={c['mode']}:cap={c['opm']['cap']}:approx={'no' if c.get('approx') is None else c['approx']['cap']}")
        if c.get("reuse"):
            ctx.stat("ie:controller-reused")
        why = compare_ie(ctx, c, out, mod)
        ctx.case(c, nontrivial="error" not in out and len(out["recs"]) > 0)
        if why is not None:
            ctx.disagree(c, _strip(out) if "error" in out else dict(ncalls=out["ncalls"], itcount=out["itcount"]),
                         {k: mod.get(k) for k in ("kind", "error")}, "C14 InversionEnabler: " + why)
        else:
            ctx.traces_validated += 1
        r = oracle_ie(c)
        if r:
            ctx.counterexample(c, *r)


def _ie_trajectory(ctx, case, out, run):
    """the CG run inside InversionEnabler, compared like a plain cg case: the operator in the inverse mode, right-hand
    side x, start 0, preconditioner = approximation in the requested mode, nreset 20"""
    mode = case["mode"]
    inv = {1: 4, 2: 8, 4: 1, 8: 2}[mode]
    A = _ie_matrix(case, inv)
    x = impl.cvec(case, "x")
    P = None
    if case.get("approx") is not None:
        a = case["approx"]
        M, Mi = impl.cmat(case, "mat", a), impl.cmat(case, "inv", a)
        P = {1: M, 2: M.conj().T, 4: Mi, 8: Mi.conj().T}[mode]
    recs = out["recs"]
    y = out["y"]
    checked_last = bool(recs) and np.array_equal(recs[-1]["pos"], y)
    status = 2 if out["warned"] else 0     # CG returns CONVERGED or ERROR; InversionEnabler warns unless CONVERGED
    if checked_last:
        grad, value = recs[-1]["grad"], recs[-1]["value"]
    else:       # left through gamma == 0 or an error exit after the update; that energy object is not observable
        grad, value = _res(A, x, y), _val(A, x, y)
    calls = [c for c in out["calls"]][1:]          # the first application is QuadraticEnergy(x0, invop, x)
    like = dict(status=status, hint=impl._reason_from_log(out["msgs"]), pos=y, grad=grad, value=value, recs=recs,
                itcount=out["itcount"], ccount=out["ccount"], ncalls=len(calls), A=A, b=x, P=P,
                x0=np.zeros_like(y), calls=calls, msgs=out["msgs"])
    pc = dict(op="cg", n=case["n"], cplx=case.get("cplx", False), ctrl=case["ctrl"], klass="T", nreset=20)
    return compare_cg(ctx, pc, like, run)


def compare_ie(ctx, case, out, mod):
    if "error" in out or "error" in mod:
        ctx.stat(f"ie:error={out.get('error')}")
        if out.get("error") == mod.get("error"):
            return None
        if out.get("error") == "Runaway" and _ie_runaway_on_noise(case, out):
            ctx.skipped_near_threshold += 1
            return None
        return f"error kinds differ: impl={out.get('error')} model={mod.get('error')}"
    direct = not out["recs"]
    ctx.stat("ie:direct" if direct else "ie:solved")
    if direct != (mod["kind"] == "direct"):
        return f"impl {'applied the operator directly' if direct else 'ran CG'}, model kind={mod['kind']}"
    my = _mvec(case, mod["y"])
    if direct:
        if float(np.linalg.norm(out["y"] - my)) > 1e-12 * float(np.linalg.norm(my)):
            return "direct application differs"
        return None
    run = mod["run"]
    if "error" in run:
        return f"model run error {run['error']}"
    if set(out["modes"]) != {mod["opmode"]}:
        return f"operator applied in modes {sorted(set(out['modes']))}, model: {mod['opmode']}"
    if not set(out["apmodes"]) <= {mod["apmode"]}:
        return f"approximation applied in modes {sorted(set(out['apmodes']))}, model: {mod['apmode']}"
    why = _ie_trajectory(ctx, case, out, run)
    if why is not None:
        return "inner CG run: " + why
    cj = case["ctrl"]
    # controller verdict sequence (decisions outside the margin)
    for k, r in enumerate(out["recs"]):
        if _margin(cj, k, out["recs"]) < MARGIN:
            ctx.skipped_near_threshold += 1
            return None
    mst = [1] * (run["nchecked"] - 1) + ([run["status"]] if run["reason"] in ("ctrlStart", "ctrlCheck") else [1])
    ist = [r["status"] for r in out["recs"]]
    mg_zero = run["reason"] in ("gammaZero", "gammaZero0")
    if mg_zero:
        ctx.skipped_near_threshold += 1
        ctx.stat("ie:exact-termination")
        inv = {1: 4, 2: 8, 4: 1, 8: 2}[case["mode"]]
        if _past_rounding_level(_ie_matrix(case, inv), impl.cvec(case, "x"),
                                [r["pos"] for r in out["recs"]] + [out["y"]]) is not None:
            ctx.stat("ie:past-rounding-level")
            return None       # the real run went on iterating on rounding noise: nothing to compare
        if float(np.linalg.norm(out["y"] - my)) > TOL * (float(np.linalg.norm(my)) + 1e-300):
            return f"solution differs by {float(np.linalg.norm(out['y'] - my)):.3e}"
        return None
    if ist != mst:
        return f"controller verdicts impl={ist} model={mst}"
    if (out["itcount"], out["ccount"]) != (run["itcount"], run["ccount"]):
        return f"controller counters impl={(out['itcount'], out['ccount'])} model={(run['itcount'], run['ccount'])}"
    if float(np.linalg.norm(out["y"] - my)) > TOL * (float(np.linalg.norm(my)) + 1e-300):
        return f"solution differs by {float(np.linalg.norm(out['y'] - my)):.3e}"
    for k, (r, m) in enumerate(zip(out["recs"][1:], run["iters"])):
        if not _close(r["value"], _approx(m["value"]), TOL, 1e-9) or not _close(r["gn"] ** 2, _approx(m["gnsq"]), TOL, 0):
            if _approx(m["gnsq"]) > (1e-7 * out["recs"][0]["gn"]) ** 2:
                return f"iteration {k + 1}: energy/gradient norm differ"
    return None


def _batches(lst, size):
    for i in range(0, len(lst), size):
        yield lst[i:i + size]


def _corpus():
    import glob
    import json
    import os
    from core.ctx import VERIF
    res = []
    for p in sorted(glob.glob(os.path.join(VERIF, "corpus", "C14", "*.json"))):
        try:
            j = json.load(open(p))
            res.append(j.get("case", j))
        except Exception:
            pass
    return res


def _dispatch(ctx, cases, chunk=4000):
    """one model-driver start per chunk (a start costs seconds), then the real code case by case"""
    fn = {"qe": _one_qe, "ctrl": _one_ctrl, "cg": _one_cg, "ie": _one_ie}
    cases = [c for c in cases if c.get("op") in fn]
    for part in _batches(cases, chunk):
        mods = ctx.model(DRIVER, [_model_case(c) for c in part])
        for c, mod in zip(part, mods):
            fn[c["op"]](ctx, c, mod)


def run(ctx):
    impl.ift()
    rng = ctx.rng
    cases = _corpus()
    cases += [gen.qe_case(rng) for _ in range(ctx.n(120, 1200))]
    cases += [gen.ctrl_case(rng) for _ in range(ctx.n(500, 6000))]
    cases += gen.cg_exact_cases(rng, ctx.n(24, 120))
    cases += gen.cg_at_solution_cases(rng, ctx.n(12, 60))
    cases += gen.cg_error_cases(rng, ctx.n(24, 120))
    cases += gen.cg_reuse_cases(rng, ctx.n(40, 240))
    cases += [gen.cg_case(rng, nmax=8) for _ in range(ctx.n(150, 900))]
    if not ctx.quick:
        cases += [gen.cg_case(rng, nmax=40, nmin=9) for _ in range(48)]
    cases += gen.ie_cases(rng, ctx.n(160, 900))
    _dispatch(ctx, cases)
    ctx.extra["class_T_tolerance"] = TOL
    ctx.extra["decision_margin"] = MARGIN


def shrink(case):
    yield from gen.shrink(case)


def search(ctx):
    """targeted search for a failing input on the real code when a proof or the correspondence broke"""
    rng = ctx.rng
    for i in range(400):
        for c in (gen.cg_case(rng, nmax=5), gen.ie_cases(rng, 1)[0], gen.qe_case(rng)):
            r = oracle(c)
            if r:
                ctx.counterexample(c, *r)
                return
