"""Shared by C01 / C13: small domains, a leaf library with independently known exact matrices, script interpreter
for the REAL nifty.cl operators, dense probing, structure extraction, and the naive exact matrix semantics (oracle)."""
import contextlib
import io
import traceback
from fractions import Fraction as Fr

import numpy as np

from . import _opalg_exact as X

DT_NAMES = {0: None, 1: np.float64, 2: np.complex128}
MODES = (1, 2, 4, 8)


def dt_code(dt):
    if dt is None:
        return 0
    if dt == np.float64:
        return 1
    if dt == np.complex128:
        return 2
    return 9


class Leaf:
    def __init__(self, lid, name, op, cap, dom, tgt, mat, invertible):
        self.id, self.name, self.op, self.cap, self.dom, self.tgt, self.mat = lid, name, op, cap, dom, tgt, mat
        self.mats = {1: mat, 2: X.mconjT(mat)}
        if invertible:
            inv = X.minv(mat)
            self.mats[4] = inv
            self.mats[8] = X.mconjT(inv)

    def json(self):
        return dict(id=self.id, cap=self.cap, dom=self.dom, tgt=self.tgt,
                    mats={str(m): X.mjson(a) for m, a in self.mats.items()})


def _imat(rows):
    return [[X.g(x) for x in r] for r in rows]


class World:
    """domain ids: 0 U2, 1 U3, 2 RG4, 3 RG4 harmonic, 4 (U2,U3), 5 {a:U2,b:U3}, 6 RG2, 7 RG2 harmonic"""
    EDGES = {(0, 1), (1, 0), (2, 3), (3, 2), (6, 7), (7, 6)}

    def __init__(self):
        import nifty.cl as ift
        from nifty.cl.operators.linear_operator import LinearOperator
        self.ift = ift
        u2, u3 = ift.UnstructuredDomain(2), ift.UnstructuredDomain(3)
        rg4, rg2 = ift.RGSpace(4), ift.RGSpace(2)
        self.fft4, self.fft2 = ift.FFTOperator(rg4), ift.FFTOperator(rg2)
        mk = ift.DomainTuple.make
        self.doms = [mk(u2), mk(u3), mk(rg4), self.fft4.target, mk((u2, u3)),
                     ift.MultiDomain.make({"a": u2, "b": u3}), mk(rg2), self.fft2.target]
        self.sizes = [2, 3, 4, 4, 6, 5, 2, 2]
        self.multi = {5: [0, 1]}
        self.multi_keys = {5: ["a", "b"]}

        world = self

        class DenseLeaf(LinearOperator):
            """test-only leaf: a linear operator given by explicit matrices for the modes it advertises"""
            sampling_dtype = None   # what EndomorphicOperator provides for square operators

            def __init__(self, dom, tgt, mats, cap):
                self._domain = world.doms[dom]
                self._target = world.doms[tgt]
                self._capability = cap
                self._m = {}
                for m, a in mats.items():
                    arr = X.mnumpy(a)
                    self._m[m] = arr.real.copy() if np.all(arr.imag == 0) else arr

            def apply(self, x, mode):
                self._check_input(x, mode)
                out = self._tgt(mode)
                r = self._m[mode] @ x.asnumpy().reshape(-1)
                return ift.makeField(out, r.reshape(out.shape))

            def draw_sample(self, from_inverse=False, device_id=-1):
                raise NotImplementedError   # what EndomorphicOperator provides

            def __repr__(self):
                return "DenseLeaf"

        self.DenseLeaf = DenseLeaf
        self.leaves = []

        def add(name, op, cap, dom, tgt, mat, invertible):
            lf = Leaf(len(self.leaves), name, op, cap, dom, tgt, mat, invertible)
            if op is None:
                lf.op = DenseLeaf(dom, tgt, lf.mats, cap)
            self.leaves.append(lf)

        m2 = [[1, 2], [3, 4]]
        m3 = [[1, 0, 2], [-1, 3, 0], [0, 1, 1]]
        add("MatrixProduct U2", ift.MatrixProductOperator(u2, np.array(m2, dtype=float)), 3, 0, 0, _imat(m2), False)
        add("MatrixProduct U3", ift.MatrixProductOperator(u3, np.array(m3, dtype=float)), 3, 1, 1, _imat(m3), False)
        add("Dense U2 unimodular complex", None, 15, 0, 0, _imat([[1, 1j], [0, 1]]), True)
        add("Dense U2->U3", None, 3, 0, 1, _imat([[1, 2], [0, 1], [1j, -1]]), False)
        add("Dense U3->U2", None, 3, 1, 0, _imat([[1, 0, -1], [2, 1 + 1j, 0]]), False)
        add("Dense U3 unimodular", None, 15, 1, 1, _imat([[1, 1, 0], [0, 1, 2], [0, 0, 1]]), True)
        add("Dense U2 cap5", None, 5, 0, 0, _imat([[2, 1], [1, 1]]), True)
        add("Dense U3 cap10", None, 10, 1, 1, _imat([[1, 0, 0], [1j, 1, 0], [0, 2, 1]]), True)
        for n, fft, d, t in ((4, self.fft4, 2, 3), (2, self.fft2, 6, 7)):
            # documented convention: times = dvol * sum_x f(x) exp(-2 pi i k x / n); dvol = 1/n for the default RGSpace
            w = {0: (1, 0), 1: (0, -1), 2: (-1, 0), 3: (0, 1)}
            step = 4 // n
            fm = [[X.gmul(X.g((Fr(1, n), 0)), X.g(w[(j * k * step) % 4])) for j in range(n)] for k in range(n)]
            add(f"FFT RG{n}", fft, 15, d, t, fm, True)
            hm = [[(x[0] + x[1], Fr(0)) for x in r] for r in fm]   # non-canonical Hartley: Re + Im of the FFT kernel
            add(f"Hartley RG{n}", ift.HartleyOperator(self.doms[d]), 15, d, t, hm, True)
        k2 = [[X.g(m2[i // 3][j // 3]) if i % 3 == j % 3 else X.ZERO for j in range(6)] for i in range(6)]
        add("MatrixProduct (U2,U3) spaces=0", ift.MatrixProductOperator(self.doms[4], np.array(m2, dtype=float), spaces=(0,)),
            3, 4, 4, k2, False)
        k3 = [[X.g(m3[i % 3][j % 3]) if i // 3 == j // 3 else X.ZERO for j in range(6)] for i in range(6)]
        add("MatrixProduct (U2,U3) spaces=1", ift.MatrixProductOperator(self.doms[4], np.array(m3, dtype=float), spaces=(1,)),
            3, 4, 4, k3, False)
        # further capability masks (every adapter / chain / InversionEnabler table row gets exercised)
        add("Dense U2 cap13", None, 13, 0, 0, _imat([[1, 2], [1, 3]]), True)
        add("Dense U3 cap14", None, 14, 1, 1, _imat([[1, 0, 1], [0, 1, 1j], [0, 0, 1]]), True)
        add("Dense U2 cap7", None, 7, 0, 0, _imat([[0, 1], [-1, 1j]]), True)
        add("Dense U3 cap11", None, 11, 1, 1, _imat([[1, 2, 0], [0, 1, 0], [3, 0, 1]]), True)
        add("Dense U2 cap9", None, 9, 0, 0, _imat([[3, 1], [2, 1]]), True)
        add("Dense U3 cap6", None, 6, 1, 1, _imat([[1, 0, 0], [2, 1, 0], [0, -1, 1]]), True)
        add("Dense U2 cap12", None, 12, 0, 0, _imat([[1, 1], [1, 2]]), True)
        # B and C = B^H as separate leaves advertising TIMES | ADJOINT_INVERSE only: the chain B @ C is Hermitian positive
        # definite but advertises neither adjoint nor inverse, so InversionEnabler(B @ C) has to flip the chain with trafo 3
        add("Dense U2 cap9 B", None, 9, 0, 0, _imat([[2, 1], [0, 1]]), True)
        add("Dense U2 cap9 B^H", None, 9, 0, 0, _imat([[2, 0], [1, 1]]), True)
        self.spd_chain_leaves = (len(self.leaves) - 2, len(self.leaves) - 1)
        self.leaf_by_obj = {id(l.op): l.id for l in self.leaves}

    # ------------------------------------------------------------------------------------------
    def dom_id(self, d):
        for i, x in enumerate(self.doms):
            if x is d:
                return i
        return -1

    def lib_json(self, leaf_ids=None):
        ls = self.leaves if leaf_ids is None else [self.leaves[i] for i in sorted(leaf_ids)]
        return dict(sizes=self.sizes, leaves=[l.json() for l in ls])

    def connected(self, d, t):
        return d == t or (d, t) in self.EDGES

    # ---- fields ---------------------------------------------------------------------------------
    def field(self, d, vec):
        ift = self.ift
        dom = self.doms[d]
        if d in self.multi:
            parts, o = {}, 0
            for k, sd in zip(self.multi_keys[d], self.multi[d]):
                n = self.sizes[sd]
                parts[k] = ift.makeField(dom[k], np.array(vec[o:o + n]).reshape(dom[k].shape))
                o += n
            return ift.MultiField.from_dict(parts, dom)
        return ift.makeField(dom, np.array(vec).reshape(dom.shape))

    def flat(self, d, fld):
        if d in self.multi:
            return np.concatenate([np.asarray(fld[k].asnumpy()).reshape(-1) for k in self.multi_keys[d]])
        return np.asarray(fld.asnumpy()).reshape(-1)

    def dense(self, op, mode, imag=False):
        """dense matrix of the REAL operator in `mode`, probed with basis vectors (times i when imag)"""
        d, t = self.dom_id(op._dom(mode)), self.dom_id(op._tgt(mode))
        n = self.sizes[d]
        cols = []
        for j in range(n):
            v = np.zeros(n, dtype=complex if imag else float)
            v[j] = 1j if imag else 1.0
            with contextlib.redirect_stdout(io.StringIO()):   # MatrixProductOperator.apply prints a debug value
                r = op.apply(self.field(d, v), mode)
            cols.append(self.flat(t, r).astype(complex))
        return np.array(cols).T.reshape(self.sizes[t], n)

    # ---- interpreter for the real code ------------------------------------------------------------
    def pyscalar(self, c):
        z = X.g(c)
        return float(z[0]) if z[1] == 0 else complex(float(z[0]), float(z[1]))

    def build(self, e):
        ift = self.ift
        op = e["op"]
        if op == "leaf":
            return self.leaves[e["id"]].op
        if op == "scaling":
            return ift.ScalingOperator(self.doms[e["dom"]], self.pyscalar(e["c"]), sampling_dtype=DT_NAMES[e["dt"]])
        if op == "diag":
            py = e["py"]
            vals = np.array([X.gcomplex(X.g(v)) for v in py["vals"]])
            if np.all(vals.imag == 0):
                vals = vals.real.copy()
            dom = self.doms[e["dom"]]
            if py["spaces"] is None:
                return ift.DiagonalOperator(ift.makeField(dom, vals.reshape(dom.shape)), sampling_dtype=DT_NAMES[e["dt"]])
            sub = ift.DomainTuple.make([dom[i] for i in py["spaces"]])
            return ift.DiagonalOperator(ift.makeField(sub, vals.reshape(sub.shape)), domain=dom, spaces=tuple(py["spaces"]),
                                        sampling_dtype=DT_NAMES[e["dt"]])
        if op == "null":
            return ift.NullOperator(self.doms[e["dom"]], self.doms[e["tgt"]])
        if op == "block":
            keys = self.multi_keys[e["dom"]]
            ops = {k: self.build(x) for k, x in zip(keys, e["ents"]) if x is not None}
            return ift.BlockDiagonalOperator(self.doms[e["dom"]], ops)
        if op == "add":
            return self.build(e["a"]) + self.build(e["b"])
        if op == "sub":
            return self.build(e["a"]) - self.build(e["b"])
        if op == "matmul":
            return self.build(e["a"]) @ self.build(e["b"])
        if op == "adjoint":
            return self.build(e["a"]).adjoint
        if op == "inverse":
            return self.build(e["a"]).inverse
        if op == "neg":
            return -self.build(e["a"])
        if op == "scale":
            return self.build(e["a"]).scale(self.pyscalar(e["c"]))
        if op == "invEnabler":
            ic = ift.GradientNormController(iteration_limit=200, tol_abs_gradnorm=1e-13)
            return ift.InversionEnabler(self.build(e["a"]), ic)
        if op == "sandwich":
            ch = None if e.get("cheese") is None else self.build(e["cheese"])
            return ift.SandwichOperator.make(self.build(e["bun"]), ch, sampling_dtype=DT_NAMES[e.get("dt", 0)])
        raise ValueError("bad script op " + str(op))

    # ---- structure of the real object ------------------------------------------------------------
    def struct(self, o):
        ift = self.ift
        from nifty.cl.operators.operator_adapter import OperatorAdapter
        from nifty.cl.operators.sum_operator import SumOperator
        from nifty.cl.operators.chain_operator import ChainOperator
        if o is None:
            return None
        if id(o) in self.leaf_by_obj:
            return {"k": "Leaf", "id": self.leaf_by_obj[id(o)]}
        ty = type(o)
        if ty is ift.ScalingOperator:
            c = complex(o._factor)
            if not (np.isfinite(c.real) and np.isfinite(c.imag)):
                return {"k": "Scaling", "c": "nonfinite", "dt": dt_code(o._dtype)}
            return {"k": "Scaling", "c": [str(Fr(c.real)), str(Fr(c.imag))], "dt": dt_code(o._dtype)}
        if ty is ift.DiagonalOperator:
            return {"k": "Diag", "trafo": int(o._trafo), "dt": dt_code(o._dtype)}
        if ty is ift.BlockDiagonalOperator:
            return {"k": "Block", "ents": [self.struct(x) for x in o._ops]}
        if ty is ift.NullOperator:
            return {"k": "Null"}
        if ty is OperatorAdapter:
            return {"k": "Adapter", "t": int(o._trafo), "op": self.struct(o._op)}
        if ty is ChainOperator:
            return {"k": "Chain", "ops": [self.struct(x) for x in o._ops]}
        if ty is SumOperator:
            return {"k": "Sum", "ops": [self.struct(x) for x in o._ops], "neg": [bool(n) for n in o._neg]}
        if ty is ift.SandwichOperator:
            return {"k": "Sandwich", "bun": self.struct(o._bun), "cheese": self.struct(o._cheese), "op": self.struct(o._op)}
        if ty is ift.InversionEnabler:
            return {"k": "InvEnabler", "op": self.struct(o._op)}
        return {"k": "Unknown:" + ty.__name__}


def err_kind(e):
    return {"error": type(e).__name__}


def err_site(e):
    """innermost frame inside the nifty package: 'file.py:function'"""
    tb = traceback.extract_tb(e.__traceback__)
    site = ""
    for fr in tb:
        if "/nifty/" in fr.filename:
            site = fr.filename.split("/")[-1] + ":" + fr.name
    return site


# ---- naive exact matrix semantics of a script (the property's "corresponding matrix expression") ------------------

def naive_matrix(W, e):
    """exact matrix of the expression by the textbook rules; raises X.Singular where an inverse does not exist"""
    op = e["op"]
    if op == "leaf":
        return W.leaves[e["id"]].mat
    if op == "scaling":
        return X.msmul(X.g(e["c"]), X.eye(W.sizes[e["dom"]]))
    if op == "diag":
        return X.mdiag([X.g(v) for v in e["v"]])
    if op == "null":
        return X.zeros(W.sizes[e["tgt"]], W.sizes[e["dom"]])
    if op == "block":
        return X.mblocks([X.eye(W.sizes[sd]) if x is None else naive_matrix(W, x) for sd, x in zip(e["subdoms"], e["ents"])])
    if op == "add":
        return X.madd(naive_matrix(W, e["a"]), naive_matrix(W, e["b"]))
    if op == "sub":
        return X.madd(naive_matrix(W, e["a"]), X.mneg(naive_matrix(W, e["b"])))
    if op == "matmul":
        return X.mmul(naive_matrix(W, e["a"]), naive_matrix(W, e["b"]))
    if op == "adjoint":
        return X.mconjT(naive_matrix(W, e["a"]))
    if op == "inverse":
        return X.minv(naive_matrix(W, e["a"]))
    if op == "neg":
        return X.mneg(naive_matrix(W, e["a"]))
    if op == "scale":
        return X.msmul(X.g(e["c"]), naive_matrix(W, e["a"]))
    if op == "invEnabler":
        return naive_matrix(W, e["a"])
    if op == "sandwich":
        b = naive_matrix(W, e["bun"])
        c = X.eye(len(b)) if e.get("cheese") is None else naive_matrix(W, e["cheese"])
        return X.mmul(X.mmul(X.mconjT(b), c), b)
    raise ValueError(op)


def mode_matrix(W, e, mode):
    """exact action of the expression in `mode` by the mode-indexed rules (no inverse of composites is ever formed):
    used when the naive matrix does not exist (e.g. the inverse adapter of a singular sum, asked for its own inverse)"""
    adj, inv = mode in (2, 8), mode in (4, 8)
    flipa = {1: 2, 2: 1, 4: 8, 8: 4}
    flipi = {1: 4, 4: 1, 2: 8, 8: 2}
    op = e["op"]

    def ma(m, a, i):
        if i:
            m = X.minv(m)
        return X.mconjT(m) if a else m
    if op in ("leaf",):
        lf = W.leaves[e["id"]]
        if mode in lf.mats:
            return lf.mats[mode]
        raise X.Singular()
    if op in ("scaling", "diag", "null"):
        m = naive_matrix(W, e)
        if op == "null":
            if inv:
                raise X.Singular()
            return X.mconjT(m) if adj else m
        return ma(m, adj, inv)
    if op == "block":
        return X.mblocks([X.eye(W.sizes[sd]) if x is None else mode_matrix(W, x, mode) for sd, x in zip(e["subdoms"], e["ents"])])
    if op in ("add", "sub"):
        if inv:
            return ma(naive_matrix(W, e), adj, inv)
        b = mode_matrix(W, e["b"], mode)
        return X.madd(mode_matrix(W, e["a"], mode), X.mneg(b) if op == "sub" else b)
    if op == "matmul":
        a, b = mode_matrix(W, e["a"], mode), mode_matrix(W, e["b"], mode)
        return X.mmul(b, a) if (adj != inv) else X.mmul(a, b)
    if op == "adjoint":
        return mode_matrix(W, e["a"], flipa[mode])
    if op == "inverse":
        return mode_matrix(W, e["a"], flipi[mode])
    if op in ("neg", "scale"):
        c = X.g((-1, 0)) if op == "neg" else X.g(e["c"])
        if adj:
            c = X.gconj(c)
        if inv:
            c = X.ginv(c)
        return X.msmul(c, mode_matrix(W, e["a"], mode))
    if op == "invEnabler":
        try:
            return mode_matrix(W, e["a"], mode)
        except X.Singular:
            return X.minv(mode_matrix(W, e["a"], flipi[mode]))
    if op == "sandwich":
        return ma(naive_matrix(W, e), adj, inv)
    raise ValueError(op)


def required_cap(W, e):
    """capability the property demands at least: every constituent provides what the mode requires"""
    perm_adj = lambda c: ((c & 1) << 1) | ((c & 2) >> 1) | ((c & 4) << 1) | ((c & 8) >> 1)
    perm_inv = lambda c: ((c & 1) << 2) | ((c & 4) >> 2) | ((c & 2) << 2) | ((c & 8) >> 2)
    op = e["op"]
    if op == "leaf":
        return W.leaves[e["id"]].cap
    if op in ("scaling", "diag"):
        return 15
    if op == "null":
        return 3
    if op == "block":
        c = 15
        for x in e["ents"]:
            if x is not None:
                c &= required_cap(W, x)
        return c
    if op in ("add", "sub"):
        return 3 & required_cap(W, e["a"]) & required_cap(W, e["b"])
    if op == "matmul":
        return required_cap(W, e["a"]) & required_cap(W, e["b"])
    if op == "adjoint":
        return perm_adj(required_cap(W, e["a"]))
    if op == "inverse":
        return perm_inv(required_cap(W, e["a"]))
    if op in ("neg", "scale"):
        return required_cap(W, e["a"])
    if op == "invEnabler":
        c = required_cap(W, e["a"])
        return c | perm_inv(c)
    if op == "sandwich":
        b = required_cap(W, e["bun"])
        c = 15 if e.get("cheese") is None else required_cap(W, e["cheese"])
        return b & perm_adj(b) & c
    raise ValueError(op)


def has_op(e, name):
    if not isinstance(e, dict):
        return False
    if e.get("op") == name:
        return True
    return any(has_op(v, name) for v in e.values() if isinstance(v, dict)) or \
        any(has_op(x, name) for v in e.values() if isinstance(v, list) for x in v if isinstance(x, dict))


def leaf_ids(e, acc=None):
    acc = set() if acc is None else acc
    if isinstance(e, dict):
        if e.get("op") == "leaf":
            acc.add(e["id"])
        for v in e.values():
            if isinstance(v, dict):
                leaf_ids(v, acc)
            elif isinstance(v, list):
                for x in v:
                    if isinstance(x, dict):
                        leaf_ids(x, acc)
    return acc


def children(e):
    out = []
    for k in ("a", "b", "bun", "cheese"):
        if isinstance(e.get(k), dict):
            out.append((k, e[k]))
    return out


def size_of(e):
    n = 1
    for _, c in children(e):
        n += size_of(c)
    for x in e.get("ents", []) or []:
        if isinstance(x, dict):
            n += size_of(x)
    return n
