"""C30 round 2 — the EXTREMES of the supported parameter range, float64 and float32 (design.d/C30.md "round 2: extremes").

Every check here is stated on the real code only and has the form  err <= K * unit  where `unit` is
`eps(dtype of the output) x analytic conditioning of the documented formula` (stated next to each check) and the
reference is evaluated stably in float64 / exact `fractions.Fraction` arithmetic:

  sigma_l = sqrt(log1p((std/mean)^2)),  mu_l = log(mean) - log1p((std/mean)^2)/2      (Props/C30.lean: lognormal_moments_stable)
  Q_laplace(Phi x) = log_ndtr(x) + log 2  (x<0),  -(log_ndtr(-x) + log 2)  (x>0)       (Props/C30.lean: laplaceRe_eq)
  Q_uniform(Phi x) = a + (b-a) ndtr(x),   Q_normal = mean + std x (exact rational arithmetic)

K = 512 for all checks: the measured error of the unchanged code is <= 4.0 units everywhere (quick seeds 0..3 and thorough
seeds 0,1; STATS below is printed into the evidence), i.e. the margin to the observed noise is >= 128x, while a loss of
precision that is "orders of magnitude worse than conditioning" (log(1+x) instead of log1p at std/mean = 1e-6: 1e11 units)
is far outside.

Modes of the JAX code: `f64` (jax_enable_x64 on, Python-float parameters), `f32in` (x64 on, float32 arrays for parameters and
points: the arithmetic runs in float32), `f32def` (inside `jax.enable_x64(False)`: JAX's default configuration, Python-float
parameters are weakly typed and everything runs in float32). In the float32 modes the parameters/points are first rounded
to float32 and the reference is computed (in float64) from the rounded values.
"""
import contextlib
import math
import warnings
from fractions import Fraction

import numpy as np

from props import _c30_impl as I

EPS64 = 2.0 ** -52
EPS32 = 2.0 ** -23
K = 512.0
LN2 = math.log(2.0)
X12 = 7.034483825011475          # -Phi^-1(1e-12)
STATS = {}                       # (fam, check, mode) -> worst observed err/unit (calibration record, goes to the evidence)
TINY = 1e-300
H32 = 2.0 ** -7                   # finite-difference step for the slope of the log-table (conditioning only)

RE_IMPLS = ("re.func.f64", "re.prior.f64", "re.jit.f64", "re.func.f32in", "re.func.f32def", "re.prior.f32def")


def _ratio(err, unit):
    with np.errstate(all="ignore"):
        r = np.asarray(err, dtype=float) / np.asarray(unit, dtype=float)
    return np.where(np.isinf(unit), 0.0, np.where(np.isnan(r), np.inf, r))


def _note(key, ratio):
    r = float(np.max(ratio)) if np.size(ratio) else 0.0
    if r > STATS.get(key, -1.0):
        STATS[key] = r


def _fr(v):
    return Fraction(float(v))


def _ferr(y, ref_fr):
    """|y - ref| with the difference taken exactly (no cancellation in the reference)"""
    return np.array([abs(float(_fr(a) - b)) for a, b in zip(np.asarray(y, dtype=float).ravel(), ref_fr)])


def eff(par, mode):
    """the parameters as the implementation receives them in `mode` (float32 modes: rounded to float32)"""
    if "f32" in mode:
        return {k: (float(np.float32(v)) if isinstance(v, float) else v) for k, v in par.items()}
    return dict(par)


def effx(x, mode):
    x = np.asarray(x, dtype=float)
    if "f32" in mode:
        x = np.unique(np.asarray(x, dtype=np.float32)).astype(float)
    return x


# ------------------------------------------------------------------------------------------------
# stable references (float64)
# ------------------------------------------------------------------------------------------------
def lognormal_ref(mean, std):
    """(mu_l, sigma_l, v) with v = log1p((std/mean)^2); the ratio is squared exactly and rounded once"""
    r2 = float((_fr(std) / _fr(mean)) ** 2)
    v = math.log1p(r2)
    return math.log(mean) - 0.5 * v, math.sqrt(v), v


def laplace_q(x):
    from scipy.special import log_ndtr
    x = np.asarray(x, dtype=float)
    q = np.where(x < 0, log_ndtr(np.minimum(x, 0.0)) + LN2, -(log_ndtr(-np.maximum(x, 0.0)) + LN2))
    return np.where(x == 0, 0.0, q)


# ------------------------------------------------------------------------------------------------
# adapters to the real code
# ------------------------------------------------------------------------------------------------
_JIT = []


def _jit_apply():
    """one compiled `apply` for all parameter values (the Partial is a pytree argument, its parameters are traced)"""
    if not _JIT:
        jax, _ = I._jax()
        _JIT.append(jax.jit(lambda f, t: f(t)))
    return _JIT[0]


def _re_eval(fam, variant, mode, par, x):
    jax, jnp = I._jax()
    import nifty.re as jft
    from nifty.re.num import stats_distributions as sd
    cm = jax.enable_x64(False) if mode == "f32def" else contextlib.nullcontext()
    with cm:
        if mode == "f32in":
            P = lambda v: jnp.asarray(v, dtype=jnp.float32)
            X = jnp.asarray(np.asarray(x, dtype=np.float32), dtype=jnp.float32)
        elif mode == "f32def":
            P = float
            X = jnp.asarray(np.asarray(x, dtype=np.float32))
        else:
            P = float
            X = jnp.asarray(np.asarray(x, dtype=np.float64), dtype=jnp.float64)
        n = len(x)
        inv = None
        if fam == "normal":
            a = (P(par["mean"]), P(par["std"]))
            f, inv = sd.normal_prior(*a), sd.normal_invprior(*a)
            mk = lambda: jft.NormalPrior(*a, name="z", shape=(n,))
        elif fam == "lognormal":
            a = (P(par["mean"]), P(par["std"]))
            f, inv = sd.lognormal_prior(*a), sd.lognormal_invprior(*a)
            mk = lambda: jft.LogNormalPrior(*a, name="z", shape=(n,))
        elif fam == "uniform":
            if par.get("default"):
                a = ()
                f = sd.uniform_prior()
                mk = lambda: jft.UniformPrior(0.0, 1.0, name="z", shape=(n,))
            else:
                a = (P(par["a"]), P(par["b"]))
                f = sd.uniform_prior(*a)
                mk = lambda: jft.UniformPrior(*a, name="z", shape=(n,))
        elif fam == "laplace":
            a = (P(par["scale"]),)
            f = sd.laplace_prior(*a)
            mk = lambda: jft.LaplacePrior(*a, name="z", shape=(n,))
        else:
            raise KeyError(fam)
        res = {}
        if variant == "prior":
            y = mk()({"z": X})
        elif variant == "jit":
            y = _jit_apply()(f, X)
        else:
            y = f(X)
        res["dtype"] = str(np.asarray(y).dtype)
        res["y"] = np.asarray(y).astype(float)
        if inv is not None and variant == "func":
            res["xinv"] = np.asarray(inv(y)).astype(float)
    return res


def _cl_eval(fam, impl, par, x):
    p = dict(par)
    t = I.build(fam, impl, p, len(x))
    res = dict(dtype="float64", y=np.asarray(t["forward"](x), dtype=float))
    if t.get("inverse") is not None:
        res["xinv"] = np.asarray(t["inverse"](res["y"]), dtype=float)
    if t.get("jac") is not None and fam in ("uniform", "laplace"):
        v, j, ja = t["jac"](x)
        res.update(linval=np.asarray(v, dtype=float), jac=np.asarray(j, dtype=float), jacadj=np.asarray(ja, dtype=float))
    return res


def moments_eval(impl, mean, std):
    """(mu_l, sigma_l, dtype) of the real `lognormal_moments` in the variant `impl`"""
    if impl.startswith("re."):
        jax, jnp = I._jax()
        from nifty.re.num import stats_distributions as sd
        mode = impl.split(".", 1)[1]
        cm = jax.enable_x64(False) if mode == "f32def" else contextlib.nullcontext()
        with cm:
            if mode == "f32in":
                a, b = sd.lognormal_moments(jnp.asarray(mean, dtype=jnp.float32), jnp.asarray(std, dtype=jnp.float32))
            elif mode == "f32np":
                a, b = sd.lognormal_moments(np.float32(mean), np.float32(std))
            elif mode == "f64arr":
                a, b = sd.lognormal_moments(jnp.asarray([mean, mean]), jnp.asarray([std, std]))
                a, b = a[1], b[1]
            else:
                a, b = sd.lognormal_moments(float(mean), float(std))
            a, b = np.asarray(a), np.asarray(b)
            return float(a), float(b), str(b.dtype)
    from nifty.cl.utilities import lognormal_moments
    if impl == "cl.N":
        a, b = lognormal_moments(np.array([mean, mean]), np.array([std, std]), 2)
        return float(a[1]), float(b[1]), "float64"
    a, b = lognormal_moments(mean, std)
    return float(a), float(b), "float64"


# ------------------------------------------------------------------------------------------------
# the checks:  list of (name, err, unit)  with the property holding iff err <= K*unit
# ------------------------------------------------------------------------------------------------
def _phi(x):
    return np.exp(-0.5 * np.asarray(x, dtype=float) ** 2) / math.sqrt(2 * math.pi)


def _resolvable(dp, x, unit):
    """an inverse that goes through a probability p is only determined where the rounding dp of p is small against the
    tail mass min(p, 1-p) (else p may round to 0 or 1 and Phi^-1 is unbounded): elsewhere nothing is claimed (unit = inf)"""
    from scipy.special import ndtr
    return np.where(4 * K * dp < ndtr(-np.abs(x)), unit, np.inf)


def checks(fam, impl, par, x, res, eps):
    from scipy.special import ndtr
    x = np.asarray(x, dtype=float)
    y = res["y"]
    out = []
    ax = np.abs(x)
    if fam == "normal":
        m, s = par["mean"], par["std"]
        ref = [_fr(m) + _fr(s) * _fr(t) for t in x]
        # one multiplication, one addition: error <= 1.5 ulp of (|mean| + std|x|)
        out.append(("quantile", _ferr(y, ref), eps * (abs(m) + s * ax) + TINY))
        if "xinv" in res:
            # y carries a rounding of size eps(|mean|+std|x|); dividing by std: condition (|mean|/std + |x|)
            out.append(("inverse", np.abs(res["xinv"] - x), eps * (abs(m) / s + 2 * ax) + TINY))
            # as a function of the (exactly given) float y the inverse (y-mean)/std is one exact-or-nearly-exact subtraction
            # and one division: 1.5 ulp of the exact rational value
            xe = [(_fr(t) - _fr(m)) / _fr(s) for t in y]
            out.append(("inverse-exact", _ferr(res["xinv"], xe), eps * np.array([abs(float(t)) for t in xe]) + TINY))
    elif fam == "lognormal":
        lm, ls, _ = lognormal_ref(par["mean"], par["std"])
        with np.errstate(all="ignore"):
            L = np.log(y)
        # log T(x) = mu_l + sigma_l x : absolute error eps(|mu_l| + sigma_l|x|) from the affine part and the parameters,
        # + eps from exp / the rounding of T itself
        u = eps * (abs(lm) + ls * ax + 1.0)
        out.append(("quantile", np.where(np.isfinite(L), np.abs(L - (lm + ls * x)), np.inf), u))
        if "xinv" in res:
            out.append(("inverse", np.abs(res["xinv"] - x), u / ls + eps * ax))
    elif fam == "uniform":
        a, b = par["a"], par["b"]
        W = _fr(b) - _fr(a)
        Wf = float(W)
        P = ndtr(x)
        ref = [_fr(a) + W * _fr(p) for p in P]
        # Phi(x) = erfc(-x/sqrt2)/2 : relative condition x*phi/Phi ~ x^2 in the lower tail, absolute eps in the upper one
        condP = P * (1.0 + np.where(x < 0, x * x, 0.0))
        out.append(("quantile", _ferr(y, ref), eps * (abs(a) + Wf * condP) + TINY))
        if "xinv" in res:
            # p = (y-loc)/scale : y is rounded at eps(|a| + W Phi) -> dp ; dx = dp / phi(x)
            dp = eps * (abs(a) / Wf + np.where(x < 0, condP, 1.0))
            out.append(("inverse", np.abs(res["xinv"] - x), _resolvable(dp, x, dp / _phi(x) + eps * ax + TINY)))
            # as a function of the exactly given y: p = (y-loc)/scale (exact rational, rounded once), x = Phi^-1(p);
            # an error eps*p of p moves x by eps*p/phi(x)
            from scipy.special import ndtri
            pe = np.array([float((_fr(t) - _fr(a)) / W) for t in y])
            inside = (pe > 0) & (pe < 1)
            with np.errstate(all="ignore"):
                xr = ndtri(np.where(inside, pe, 0.5))
                ue = eps * (pe / _phi(xr) + np.abs(xr)) + TINY
            out.append(("inverse-exact", np.where(inside, np.abs(res["xinv"] - xr), 0.0), np.where(inside, ue, np.inf)))
        if "jac" in res:
            # classic Jacobian scale*phi(x): phi has relative condition x^2
            J = Wf * _phi(x)
            out.append(("jacobian", np.abs(res["jac"] - J), eps * J * (2.0 + x * x) + TINY))
    elif fam == "laplace":
        sc, loc = par["scale"], par.get("loc", 0.0)
        q = laplace_q(x)
        ref = [_fr(loc) + _fr(sc) * _fr(t) for t in q]
        u = eps * (abs(loc) + sc * (np.abs(q) + 1.0))
        if impl.startswith("cl."):
            # the classic code goes through the cdf VALUE: 1-Phi(x) cancels in the upper tail (documented algorithm,
            # `ref_cond` = movement of the quantile under a 4-rounding perturbation of the cdf value)
            u = u + 8.0 / K * I.ref_cond(I.ref_dist("laplace", par), x)
        out.append(("quantile", _ferr(y, ref), u + TINY))
        if "xinv" in res:
            P = ndtr(x)
            dz = eps * (abs(loc) / sc + np.abs(q) + 1.0)
            dp = np.where(x < 0, P * (dz + eps * (1 + x * x)), ndtr(-ax) * dz + eps)
            out.append(("inverse", np.abs(res["xinv"] - x), _resolvable(dp, x, dp / _phi(x) + eps * ax + TINY)))
        if "jac" in res:
            # classic Jacobian scale*phi(x)/min(Phi,1-Phi): phi has relative condition x^2, Phi in the lower tail too; in the upper
            # tail the code forms 1-Phi(x) from the rounded cdf value: relative error eps/(1-Phi(x))
            tail = ndtr(-ax)
            J = sc * _phi(x) / tail
            out.append(("jacobian", np.abs(res["jac"] - J), eps * J * (3.0 + 2 * x * x + np.where(x > 0, 1.0 / tail, 0.0)) + TINY))
    return out


def moments_checks(mean, std, lm, ls, eps):
    """lognormal_moments: returned (mu_l, sigma_l) against the stable closed form and against the documented moments"""
    rm, rs, v = lognormal_ref(mean, std)
    out = []
    # sigma_l: relative condition w.r.t. the ratio r = std/mean is r^2/((1+r^2) v) <= 1; division, square, log1p, sqrt
    out.append(("logstd", np.array([abs(ls - rs)]), np.array([eps * rs])))
    out.append(("logmean", np.array([abs(lm - rm)]), np.array([eps * (abs(math.log(mean)) + 0.5 * v) + TINY])))
    # the documented moments are attained: mean' = exp(mu+sigma^2/2), std' = mean' sqrt(expm1 sigma^2), float64 from the outputs
    with np.errstate(all="ignore"):
        e = lm + 0.5 * ls * ls
        lmean = e                                             # log mean'
        lstd = e + 0.5 * math.log(math.expm1(ls * ls)) if ls > 0 else -math.inf
    g = v / -math.expm1(-v)                                   # d log expm1(v) / d log v
    # log mean' = mu + sigma^2/2: the errors of mu (eps(|log m| + v/2)) and of sigma^2/2 (eps v); for mean = 1 this is a RELATIVE
    # statement about mu_l = -v/2.  log std' = log mean' + log(expm1 sigma^2)/2 adds g * (relative error of sigma^2)
    um = eps * (abs(math.log(mean)) + v) + EPS64 * (abs(math.log(mean)) + v)
    out.append(("mean-attained", np.array([abs(lmean - math.log(mean))]), np.array([um + TINY])))
    out.append(("std-attained", np.array([abs(lstd - math.log(std))]),
                np.array([um + eps * g + EPS64 * (abs(math.log(std)) + abs(lstd - lmean))])))
    return out


# ------------------------------------------------------------------------------------------------
# oracle
# ------------------------------------------------------------------------------------------------
def _eps_of(dtype):
    return EPS32 if dtype == "float32" else EPS64


def _worst(fam, impl, par, x, name, err, unit, extra=""):
    ratio = np.where(err <= K * unit, 0.0, _ratio(err, unit))
    if not np.any(ratio > 0):
        return None
    i = int(np.argmax(ratio))
    xi = x[i] if i < len(x) else None
    return (f"extreme {fam}/{impl} {par}: {name} error {err[i]:.3e} = {err[i]/unit[i]:.3g} units of eps*conditioning "
            f"(allowed {K:g}) at x={xi!r}{extra}", dict(fam=fam, impl=impl, kind="extreme-" + name))


def oracle_extreme(case):
    fam, par = case["fam"], case["par"]
    if fam == "lognormal_moments":
        return _oracle_moments(case)
    if fam == "invgamma32":
        return _oracle_invgamma32(case)
    ys = {}
    for impl in case["impls"]:
        mode = impl.rsplit(".", 1)[1] if impl.startswith("re.") else "f64"
        p = eff(par, mode)
        x = effx(case["x"], mode)
        if fam == "uniform" and not p["a"] < p["b"]:
            continue                      # the float32 rounding collapsed the interval: not a valid parameter set in this mode

        @I.guard
        def run():
            if impl.startswith("re."):
                return _re_eval(fam, impl.split(".")[1], mode, p, x)
            return _cl_eval(fam, impl, p, x)
        res = run()
        sig = dict(fam=fam, impl=impl, kind="extreme-error")
        if I.is_err(res):
            return (f"extreme {fam}/{impl} {par}: valid parameters rejected with {res['error']}", sig)
        y = res["y"]
        if y.shape != x.shape or not np.all(np.isfinite(y)):
            return (f"extreme {fam}/{impl} {par}: non-finite or mis-shaped output", dict(sig, kind="extreme-finite"))
        if "f32" in mode and res["dtype"] != "float32":
            return (f"extreme {fam}/{impl} {par}: float32 inputs give {res['dtype']} output", dict(sig, kind="extreme-dtype"))
        eps = _eps_of(res["dtype"])
        for name, err, unit in checks(fam, impl, p, x, res, eps):
            _note((fam, name, impl), _ratio(err, unit))
            bad = _worst(fam, impl, par, x, name, err, unit)
            if bad:
                return bad
        # monotone: exact order of the outputs on the sorted grid. Exception: float32 through jnp.exp / cdf / logcdf -- XLA's
        # CPU float32 `exp` is position dependent (15 equal float32 arguments give two different results, vector lanes vs
        # remainder loop, for ~10% of the arguments; float64: none of 4001) -> 2 ulp slack there, exact everywhere else
        if "jac" in res and not (np.array_equal(res["linval"], y) and np.array_equal(res["jac"], res["jacadj"])):
            return (f"extreme {fam}/{impl} {par}: Linearization value differs from the plain value or Jacobian from its adjoint",
                    dict(sig, kind="extreme-linearization"))
        dy = np.diff(y)
        slack = 2 * EPS32 * np.maximum(np.abs(y[1:]), np.abs(y[:-1])) if ("f32" in mode and fam != "normal") else 0.0
        if np.any(dy < -slack):
            i = int(np.argmin(dy))
            return (f"extreme {fam}/{impl} {par}: not monotone: T({x[i]!r})={y[i]!r} > T({x[i+1]!r})={y[i+1]!r}",
                    dict(sig, kind="extreme-monotone"))
        if mode == "f64":
            ys[impl] = y
    # classic vs JAX vs variants (float64): same points, same formula -> agree to K units of the quantile check
    keys = sorted(ys)
    for i in range(len(keys)):
        for j in range(i + 1, len(keys)):
            a, b = ys[keys[i]], ys[keys[j]]
            if len(a) != len(b):
                continue
            x = effx(case["x"], "f64")
            unit = np.maximum(checks(fam, keys[i], eff(par, "f64"), x, dict(y=a), EPS64)[0][2],
                              checks(fam, keys[j], eff(par, "f64"), x, dict(y=b), EPS64)[0][2])
            if fam == "lognormal":
                with np.errstate(all="ignore"):
                    err = np.abs(np.log(a) - np.log(b))
            else:
                err = np.abs(a - b)
            _note((fam, "pair", keys[i] + "|" + keys[j]), _ratio(err, unit))
            bad = _worst(fam, keys[i] + "|" + keys[j], par, x, "pair", err, unit)
            if bad:
                return bad
    return _dense_monotone(case)


DENSE_N = 2048
DENSE_IMPLS = {"uniform": ("cl.op", "re.func.f64"), "normal": ("cl.vector", "re.func.f64"),
               "lognormal": ("cl.vector", "re.func.f64"), "laplace": ("cl.op",)}


def dense_grid(fam, par, x):
    """near-degenerate parameters (ratio <= 1e-5): 2048 equidistant points starting at the middle point of the case, spaced so
    that the outputs sweep ~700 ulps of the location -> consecutive outputs differ by about a third of an ulp and every
    rounding decision of the implementation is exercised; None if the parameters are not near-degenerate"""
    x0 = float(x[len(x) // 2])
    if fam == "uniform":
        loc, slope = abs(par["a"]), (par["b"] - par["a"]) * float(_phi(x0))
    elif fam in ("normal", "lognormal"):
        loc, slope = abs(par["mean"]), par["std"]
    elif fam == "laplace" and par.get("loc"):
        loc, slope = abs(par["loc"]), 2 * par["scale"] * float(_phi(x0))
    else:
        return None
    if not (loc > 0 and slope > 0 and slope <= 1e-5 * loc):
        return None
    delta = 700 * EPS64 * loc / slope
    if not delta < 0.5:
        return None
    return x0 + np.linspace(0.0, delta, DENSE_N)


def _dense_monotone(case):
    """monotone, on a dense sorted grid in float64 (exact order). Measured on the unchanged code: 0 violations in 750 random
    configurations per implementation, except the JAX log-normal (7/600: XLA's float64 `exp` is not monotone at the ulp level,
    NumPy's is) which therefore gets a 2-ulp slack"""
    fam, par = case["fam"], case["par"]
    xd = dense_grid(fam, par, case["x"]) if fam in DENSE_IMPLS and len(case.get("x", [])) > 2 else None
    if xd is None:
        return None
    for impl in case["impls"]:
        if impl not in DENSE_IMPLS[fam]:
            continue

        @I.guard
        def run():
            if impl.startswith("re."):
                return _re_eval(fam, "func", "f64", par, xd)
            return _cl_eval(fam, impl, {k: v for k, v in par.items()}, xd)
        res = run()
        if I.is_err(res):
            return (f"extreme {fam}/{impl} {par}: dense grid rejected with {res['error']}", dict(fam=fam, impl=impl, kind="extreme-error"))
        y = res["y"]
        dy = np.diff(y)
        slack = 2 * EPS64 * np.abs(y[1:]) if (fam == "lognormal" and impl.startswith("re.")) else 0.0
        _note((fam, "dense-decreasing-steps", impl), np.array([float((dy < -slack).sum())]))
        if np.any(dy < -slack):
            i = int(np.argmin(dy + slack))
            return (f"extreme {fam}/{impl} {par}: not monotone on a dense grid of {DENSE_N} points from x={xd[0]!r} (spacing "
                    f"{xd[1]-xd[0]:.3e}): T({xd[i]!r})={y[i]!r} > T({xd[i+1]!r})={y[i+1]!r}; {int((dy < -slack).sum())} decreasing steps",
                    dict(fam=fam, impl=impl, kind="extreme-dense-monotone"))
    return None


def _oracle_moments(case):
    par = case["par"]
    for impl in case["impls"]:
        mode = impl.split(".", 1)[1] if impl.startswith("re.") else "f64"
        p = eff(par, mode)
        m, s = p["mean"], p["std"]
        if not (m > 0 and s > 0):
            continue

        @I.guard
        def run():
            return moments_eval(impl, m, s)
        r = run()
        sig = dict(fam="lognormal_moments", impl=impl, kind="extreme-error")
        if I.is_err(r):
            return (f"extreme lognormal_moments[{impl}]({m},{s}) raised {r['error']}", sig)
        lm, ls, dt = r
        if "f32" in mode and dt != "float32":
            return (f"extreme lognormal_moments[{impl}]: float32 inputs give {dt}", dict(sig, kind="extreme-dtype"))
        if not (math.isfinite(lm) and math.isfinite(ls) and ls > 0):
            return (f"extreme lognormal_moments[{impl}]({m},{s}) = ({lm},{ls}): log-std must be positive and finite",
                    dict(sig, kind="extreme-logstd"))
        eps = _eps_of(dt)
        for name, err, unit in moments_checks(m, s, lm, ls, eps):
            _note(("lognormal_moments", name, impl), _ratio(err, unit))
            bad = _worst("lognormal_moments", impl, par, [None], name, err, unit,
                         extra=f"; returned ({lm!r},{ls!r}), stable closed form {lognormal_ref(m, s)[:2]}")
            if bad:
                return bad
    return None


def _oracle_invgamma32(case):
    """JAX default configuration (float32) of the tabulated inverse-gamma transform against its own float64 evaluation:
    table entries t = log Q(Phi x) and abscissae are rounded to float32: |dlog y| <= eps32 (|t| + |x t'(x)| + 1)"""
    jax, jnp = I._jax()
    from nifty.re.num import stats_distributions as sd
    par = case["par"]
    x = effx(case["x"], "f32def")
    kw = dict(step=par["step"])

    @I.guard
    def run():
        with jax.enable_x64(False):
            f = sd.invgamma_prior(par["a"], par["scale"], **kw)
            y32 = f(jnp.asarray(np.asarray(x, dtype=np.float32)))
            dt = str(np.asarray(y32).dtype)
        f = sd.invgamma_prior(par["a"], par["scale"], **kw)
        ev = lambda t: np.asarray(f(jnp.asarray(t))).astype(float)
        return np.asarray(y32).astype(float), ev(x), ev(x + H32), ev(x - H32), dt
    r = run()
    sig = dict(fam="invgamma32", impl="re.func.f32def", kind="extreme-error")
    if I.is_err(r):
        return (f"extreme invgamma_prior {par} (float32 default mode) raised {r['error']}", sig)
    y32, y64, yp, ym, dt = r
    ok = (y64 > 1e-36) & (y64 < 1e36)            # representable in float32 (tiny shapes overflow in the upper tail)
    x, y32, y64, yp, ym = x[ok], y32[ok], y64[ok], yp[ok], ym[ok]
    if not len(x):
        return None
    if dt != "float32" or not (np.all(np.isfinite(y32)) and np.all(y32 > 0)):
        return (f"extreme invgamma_prior {par}: float32 mode gives dtype {dt} / non-finite or non-positive values",
                dict(sig, kind="extreme-finite"))
    t = np.log(y64 / par["scale"])
    tp = (np.log(yp) - np.log(ym)) / (2 * H32)
    err = np.abs(np.log(y32) - np.log(y64))
    unit = EPS32 * (np.abs(t) + np.abs(x * tp) + 1.0)
    _note(("invgamma32", "quantile", "re.func.f32def"), _ratio(err, unit))
    bad = _worst("invgamma32", "re.func.f32def", par, x, "quantile", err, unit)
    if bad:
        return bad
    if np.any(np.diff(y32) < -2 * EPS32 * y32[1:]):
        return (f"extreme invgamma_prior {par}: float32 mode not monotone", dict(sig, kind="extreme-monotone"))
    return None


# ------------------------------------------------------------------------------------------------
# generators: log-uniformly STRATIFIED (one case per decade of the ratio in every run)
# ------------------------------------------------------------------------------------------------
def _lu(rng, lo, hi):
    return float(math.exp(rng.uniform(math.log(lo), math.log(hi))))


def gen_xpoints(rng, n):
    """sorted points: both 1e-12 tails exactly, 0, +-tiny, log-uniform tails, the centre"""
    from scipy.stats import norm
    xs = {-X12, X12, 0.0, -1e-8, 1e-8}
    while len(xs) < n:
        u = rng.random()
        if u < 0.3:
            xs.add(float(norm.ppf(rng.uniform(0.02, 0.98))))
        else:
            q = math.exp(rng.uniform(math.log(1e-12), math.log(0.5)))
            t = float(norm.ppf(q))
            xs.add(t if rng.random() < 0.5 else -t)
    return sorted(xs)


DECADES = list(range(-9, 3))          # ratio (std/mean, width/|a|, scale/|loc|) in [1e-9, 1e3]: 12 decades


def _loc(rng, k):
    """location magnitude: tiny / ordinary / huge, cycling with the case index (1e-12 ... 1e12)"""
    lo, hi = [(1e-12, 1e-6), (1e-3, 1e3), (1e6, 1e12), (1e-6, 1e6)][k % 4]
    return _lu(rng, lo, hi)


def gen_extreme(rng, quick, npts=15):
    """the extreme stream of one run"""
    cases = []
    reps = 1 if quick else 6
    for rep in range(reps):
        for d in DECADES:
            k = d + 9 + rep
            r = _lu(rng, 10.0 ** d, 10.0 ** (d + 1))
            sgn = (1.0, -1.0)[k % 2]
            # --- lognormal_moments and the log-normal transform
            m = _loc(rng, k) if k % 4 != 3 else 1.0        # mean = 1 exactly: log(mean) = 0, mu_l = -v/2 must be relatively accurate
            cases.append(dict(op="extreme", fam="lognormal_moments", par=dict(mean=m, std=m * r),
                              impls=["re.f64", "re.f64arr", "re.f32in", "re.f32np", "re.f32def", "cl", "cl.N"]))
            m = _loc(rng, k + 1)
            cases.append(dict(op="extreme", fam="lognormal", par=dict(mean=m, std=m * r), x=gen_xpoints(rng, npts),
                              impls=list(RE_IMPLS) + ["cl.vector", "cl.scalar"]))
            # --- normal: |mean| tiny ... huge, std/|mean| = r; every third decade additionally mean = 0, std over 24 decades
            m = _loc(rng, k + 2)
            imp = list(RE_IMPLS) + ["cl.vector", "cl.scalar"]
            cases.append(dict(op="extreme", fam="normal", par=dict(mean=sgn * m, std=m * r), x=gen_xpoints(rng, npts), impls=imp))
            if k % 3 == 0:
                cases.append(dict(op="extreme", fam="normal", par=dict(mean=0.0, std=_lu(rng, 1e-12, 1e12)),
                                  x=gen_xpoints(rng, npts), impls=imp))
            # --- uniform: near-degenerate intervals (b-a)/|a| = r; every third decade additionally a = 0 exactly (there the
            #     relative accuracy of the lower tail is visible)
            a = _loc(rng, k + 3)
            par = dict(a=sgn * a, b=sgn * a + a * r)
            if par["a"] < par["b"]:
                cases.append(dict(op="extreme", fam="uniform", par=par, x=gen_xpoints(rng, npts),
                                  impls=list(RE_IMPLS) + ["cl.op"]))
            if k % 3 == 1:
                cases.append(dict(op="extreme", fam="uniform", par=dict(a=0.0, b=_lu(rng, 1e-12, 1e12)), x=gen_xpoints(rng, npts),
                                  impls=list(RE_IMPLS) + ["cl.op"]))
            # --- Laplace: JAX (scale only, 24 decades) and classic (loc, scale = |loc| r)
            cases.append(dict(op="extreme", fam="laplace", par=dict(scale=_lu(rng, 1e-12, 1e12)), x=gen_xpoints(rng, npts),
                              impls=list(RE_IMPLS) + ["cl.op"]))
            loc = _loc(rng, k)
            cases.append(dict(op="extreme", fam="laplace", par=dict(loc=sgn * loc, scale=loc * r), x=gen_xpoints(rng, npts),
                              impls=["cl.op"]))
    cases.append(dict(op="extreme", fam="uniform", par=dict(a=0.0, b=1.0, default=True), x=gen_xpoints(rng, npts),
                      impls=["re.func.f64", "re.func.f32def", "re.prior.f64", "cl.op"]))
    for k in range(3 if quick else 12):
        cases.append(dict(op="extreme", fam="invgamma32",
                          par=dict(a=_lu(rng, *[(0.3, 1.0), (1.0, 30.0), (30.0, 3e3)][k % 3]), scale=_lu(rng, 1e-12, 1e12),
                                   step=[0.01, 0.02, 0.05][k % 3]),
                          x=gen_xpoints(rng, npts)))
    return cases


def shrink_extreme(case):
    if len(case.get("impls", [])) > 1:
        for impl in case["impls"]:
            yield dict(case, impls=[impl])
    x = case.get("x")
    if x and len(x) > 1:
        for t in x:
            yield dict(case, x=[t])
        yield dict(case, x=x[: len(x) // 2])
        yield dict(case, x=x[len(x) // 2:])
