"""C11 case generators and the translation of an energy spec into the Lean model tree.

A case: {"op":"lh","dom":domspec,"e":spec,"pos":{key|"":[real coords]},"pos2":{...},"cplx":{key|"":bool}}
(spec grammar: see _c11_impl.py).  Real coordinates of a complex key: real block then imaginary block.
Range classes of a coordinate block: real ⊃ pos ⊃ unit ⊃ prob.
"""
import math

CLASSES = ["real", "pos", "unit", "prob"]
NEED = {"gauss": "real", "studentt": "real", "poisson": "pos", "invgamma": "pos", "sgamma": "pos",
        "bernoulli": "unit", "categorical": "prob"}


def sub(a, b):
    """class a is contained in class b"""
    return CLASSES.index(a) >= CLASSES.index(b)


def fl(x):
    return float(x)


# ------------------------------------------------------------------------------------------------
# spec helpers
def leaves(e):
    k = e["k"]
    if k in ("scale", "chain", "ham", "lin", "vmodel", "cmodel"):
        yield from leaves(e["e"])
    elif k == "sum":
        for s in e["es"]:
            yield from leaves(s)
    else:
        yield e


def leaf_keys(l):
    if l["k"] == "varcov":
        return [l.get("kr", "a"), l.get("ki", "b")]
    return [l.get("key") or ""]


def has(e, pred):
    return any(pred(l) for l in leaves(e))


def npix(dom):
    n = 1
    for s in dom["shape"]:
        n *= s
    return n


def layout(case):
    n = npix(case["dom"])
    keys = sorted(case["pos"].keys())
    if keys == [""]:
        return [[None, n, bool(case["cplx"].get("", False))]]
    return [[k, n, bool(case["cplx"].get(k, False))] for k in keys]


def flatx(case, which="pos"):
    out = []
    for k in sorted(case[which].keys()):
        out += list(case[which][k])
    return out


def with_flat(case):
    """the form _c11_impl wants: flat x + layout"""
    return dict(case, x=flatx(case), layout=layout(case))


# ------------------------------------------------------------------------------------------------
# generation
def rnd(rng, lo, hi, digits=3):
    return round(rng.uniform(lo, hi), digits)


def gen_block(rng, cls, n, dom=None, axis=0):
    if cls == "real":
        return [rnd(rng, -3, 3) for _ in range(n)]
    if cls == "pos":
        return [rnd(rng, 0.2, 5) for _ in range(n)]
    if cls == "unit":
        return [rnd(rng, 0.06, 0.94) for _ in range(n)]
    if cls == "prob":
        s0, s1 = dom["shape"]
        raw = [[rng.uniform(0.1, 1) for _ in range(s1)] for _ in range(s0)]
        if axis == 0:
            tot = [sum(raw[i][j] for i in range(s0)) for j in range(s1)]
            return [raw[i][j] / tot[j] for i in range(s0) for j in range(s1)]
        tot = [sum(raw[i]) for i in range(s0)]
        return [raw[i][j] / tot[i] for i in range(s0) for j in range(s1)]
    raise ValueError(cls)


def perturb(rng, cls, block, dom=None, axis=0):
    """a second position in the same class"""
    if cls == "real":
        return [v + rnd(rng, -1, 1) for v in block]
    if cls == "pos":
        return [v * math.exp(rnd(rng, -0.5, 0.5)) for v in block]
    if cls == "unit":
        out = []
        for v in block:
            z = math.log(v / (1 - v)) + rnd(rng, -0.7, 0.7)
            out.append(1 / (1 + math.exp(-z)))
        return out
    if cls == "prob":
        s0, s1 = dom["shape"]
        raw = [v * math.exp(rnd(rng, -0.4, 0.4)) for v in block]
        m = [[raw[i * s1 + j] for j in range(s1)] for i in range(s0)]
        if axis == 0:
            tot = [sum(m[i][j] for i in range(s0)) for j in range(s1)]
            return [m[i][j] / tot[j] for i in range(s0) for j in range(s1)]
        tot = [sum(m[i]) for i in range(s0)]
        return [m[i][j] / tot[i] for i in range(s0) for j in range(s1)]
    raise ValueError(cls)


def f_out_class(f, cin):
    """class of f(x) for x of class cin (None if not usable)"""
    t = f["f"]
    if t == "id":
        return cin
    if t == "scal":
        c = f["c"]
        if c > 0:
            return {"real": "real", "pos": "pos", "unit": "unit" if c <= 1 else "pos", "prob": "unit" if c <= 1 else "pos"}[cin]
        return "real" if cin == "real" else None
    if t == "diag":
        if min(f["v"]) > 0:
            return {"real": "real", "pos": "pos", "unit": "unit" if max(f["v"]) <= 1 else "pos",
                    "prob": "unit" if max(f["v"]) <= 1 else "pos"}[cin]
        return "real" if cin == "real" else None
    if t in ("exp", "expscal"):
        return "pos"
    if t == "sigmoid":
        return "unit"
    if t == "sqr":
        return {"real": "pos", "pos": "pos", "unit": "unit", "prob": "unit"}[cin]
    return None


def gen_f(rng, n):
    t = rng.choice(["id", "scal", "scal", "diag", "exp", "expscal", "sigmoid", "sqr"])
    if t == "scal":
        return {"f": "scal", "c": rnd(rng, 0.2, 2.5) if rng.random() < 0.8 else rnd(rng, -2, -0.3)}
    if t == "diag":
        return {"f": "diag", "v": [rnd(rng, 0.2, 2) for _ in range(n)]}
    if t == "expscal":
        return {"f": "expscal", "c": rnd(rng, -0.8, 0.8) or 0.5}
    return {"f": t}


def pick_f(rng, n, cin, need, cplx=False, tries=30):
    for _ in range(tries):
        f = gen_f(rng, n)
        if cplx and f["f"] not in ("id", "scal"):
            continue
        co = f_out_class(f, cin)
        if co is not None and sub(co, need):
            return f
    return {"f": "id"} if sub(cin, need) else None


def gen_leaf(rng, kind, dom, n):
    if kind == "gauss":
        cplx = rng.random() < 0.25
        ic = rng.choice(["none", "scal", "diag", "diag", "sand"])
        if cplx and ic == "sand":
            ic = "diag"
        e = {"k": "gauss", "icov": ic, "cplx": cplx}
        nodata = rng.random() < 0.3
        if nodata:
            e["d"] = None
        elif cplx:
            e["d"] = [[rnd(rng, -3, 3) for _ in range(n)], [rnd(rng, -3, 3) for _ in range(n)]]
        else:
            e["d"] = [rnd(rng, -3, 3) for _ in range(n)]
        e["sdt"] = "c16" if cplx else rng.choice(["f8", "f8", None]) if (nodata or ic != "none") else None
        if ic == "none" and nodata and not cplx:
            e["sdt"] = rng.choice(["f8", None])
        if ic == "scal":
            e["c"] = rnd(rng, 0.1, 5)
        if ic in ("diag", "sand"):
            e["diag"] = [rnd(rng, 0.1, 5) for _ in range(n)]
        if ic == "sand":
            e["bun"] = [[rnd(rng, -2, 2, 2) for _ in range(n)] for _ in range(n)]
            e["sdt"] = "f8"
        return e
    if kind == "poisson":
        return {"k": "poisson", "d": [rng.choice([0, 0, 1, 2, 3, 5, 8, 13, 40]) for _ in range(n)]}
    if kind == "bernoulli":
        return {"k": "bernoulli", "d": [rng.randint(0, 1) for _ in range(n)]}
    if kind == "categorical":
        s0, s1 = dom["shape"]
        axis = rng.randint(0, 1)
        d = [[0] * s1 for _ in range(s0)]
        if axis == 0:
            for j in range(s1):
                d[rng.randrange(s0)][j] = 1
        else:
            for i in range(s0):
                d[i][rng.randrange(s1)] = 1
        return {"k": "categorical", "d": d, "axis": axis}
    if kind == "studentt":
        if rng.random() < 0.5:
            return {"k": "studentt", "theta": rnd(rng, 0.5, 30)}
        return {"k": "studentt", "theta": [rnd(rng, 0.5, 30) for _ in range(n)]}
    if kind == "invgamma":
        e = {"k": "invgamma", "beta": [rnd(rng, 0.1, 5) for _ in range(n)]}
        e["alpha"] = rnd(rng, -0.9, 5) if rng.random() < 0.5 else [rnd(rng, -0.9, 5) for _ in range(n)]
        return e
    if kind == "varcov":
        return {"k": "varcov", "cplx": rng.random() < 0.4, "full": rng.random() < 0.5, "kr": "a", "ki": "b"}
    if kind == "sgamma":
        cplx = rng.random() < 0.4
        r = [rnd(rng, -3, 3) for _ in range(n)]
        return {"k": "sgamma", "cplx": cplx, "r": [r, [rnd(rng, -3, 3) for _ in range(n)]] if cplx else r}
    raise ValueError(kind)


KINDS = ["gauss", "gauss", "poisson", "bernoulli", "studentt", "invgamma", "categorical", "varcov", "sgamma"]


def gen_dom(rng, small, need2d=False):
    t = rng.choice(["rg1", "rg2", "un", "un2"]) if not need2d else rng.choice(["rg2", "un2"])
    if t == "rg1":
        return {"t": "rg", "shape": [rng.randint(1, 4 if small else 6)], "dist": [rng.choice([0.5, 1.0, 2.0, 0.1])]}
    if t == "rg2":
        return {"t": "rg", "shape": [rng.randint(2, 3), rng.randint(1 if not need2d else 2, 2 if small else 3)],
                "dist": [rng.choice([0.5, 1.0, 2.0]), rng.choice([0.25, 1.0, 3.0])]}
    if t == "un":
        return {"t": "un", "shape": [rng.randint(1, 4 if small else 6)]}
    return {"t": "un", "shape": [rng.randint(2, 3), rng.randint(2, 2 if small else 3)]}


def gen_case(rng, small=True, force_kind=None, simple=None):
    """one random case; `simple` = bare leaf (no wrappers)"""
    for _ in range(200):
        c = _gen_case(rng, small, force_kind, simple)
        if c is not None:
            return c
    raise RuntimeError("generator failed")


def _gen_case(rng, small, force_kind, simple):
    if simple is None:
        simple = rng.random() < 0.35
    nsum = 1 if simple else rng.choice([1, 1, 2, 2, 3])
    kinds = [force_kind if (force_kind and i == 0) else rng.choice(KINDS) for i in range(nsum)]
    dom = gen_dom(rng, small, need2d="categorical" in kinds)
    n = npix(dom)
    keyed = nsum > 1 and rng.random() < 0.8 or "varcov" in kinds
    if "varcov" in kinds and kinds.count("varcov") > 1:
        return None
    summands, pos_cls, cplxk, axis_of = [], {}, {}, {}
    for kind in kinds:
        leaf = gen_leaf(rng, kind, dom, n)
        if kind == "varcov":
            reqs = [("a", "real", leaf["cplx"]), ("b", "pos", False)]
        else:
            key = rng.choice(["u", "v", "a", "b"]) if keyed else ""
            if keyed:
                leaf["key"] = key
            reqs = [(key, NEED[kind], bool(leaf.get("cplx")) and kind == "gauss")]
        fs = {}
        ok = True
        for key, need, cplx in reqs:
            if key in pos_cls:
                if cplxk[key] != cplx:
                    ok = False
                    break
                cin = pos_cls[key]
            else:
                cin = rng.choice(["real", "pos", "unit"]) if need != "prob" else "prob"
                if simple or rng.random() < 0.3:
                    cin = need
                if cplx:
                    cin = "real"
            usef = (not simple) and rng.random() < 0.6
            f = pick_f(rng, n, cin, need, cplx) if usef else ({"f": "id"} if sub(cin, need) else pick_f(rng, n, cin, need, cplx))
            if f is None:
                ok = False
                break
            if key not in pos_cls:
                pos_cls[key] = cin
                cplxk[key] = cplx
                if need == "prob":
                    axis_of[key] = leaf["axis"]
            fs[key] = f
        if not ok:
            return None
        node = leaf
        if any(f["f"] != "id" for f in fs.values()):
            node = {"k": "chain", "e": leaf, "f": fs}
        elif (not simple) and kind in ("gauss", "studentt") and not leaf.get("cplx") and rng.random() < 0.25:
            node = {"k": "lin", "e": leaf, "A": [[rnd(rng, -1.5, 1.5, 2) for _ in range(n)] for _ in range(n)]}
        if (not simple) and rng.random() < 0.35:
            node = {"k": "scale", "c": rnd(rng, 0.1, 4), "e": node, "left": rng.random() < 0.7}
        summands.append(node)
    e = summands[0] if nsum == 1 else {"k": "sum", "es": summands}
    outer_f = {}
    if (not simple) and rng.random() < 0.3:
        # (lh_1 + ... + lh_k) @ model: an invertible point-wise model per key; the outer position is model^-1(inner position)
        for key, cls in pos_cls.items():
            outer_f[key] = gen_inv_f(rng, n, cls, cplxk[key])
        if any(f["f"] != "id" for f in outer_f.values()):
            e = {"k": "chain", "e": e, "f": outer_f}
        else:
            outer_f = {}
    if (not simple) and rng.random() < 0.3:
        e = {"k": "scale", "c": rnd(rng, 0.1, 4), "e": e, "left": rng.random() < 0.7}
    if (not simple) and rng.random() < 0.3:
        e = {"k": "ham", "e": e, "ic": rng.random() < 0.5}
    pos, pos2 = {}, {}
    for key, cls in pos_cls.items():
        b = gen_block(rng, cls, n, dom, axis_of.get(key, 0))
        b2 = perturb(rng, cls, b, dom, axis_of.get(key, 0))
        if cplxk[key]:
            b = b + gen_block(rng, "real", n)
            b2 = b2 + gen_block(rng, "real", n)
        pos[key], pos2[key] = b, b2
    # exp of large arguments etc. are avoided by the ranges; sqr needs x != 0
    for key, blk in pos.items():
        if any(abs(v) < 0.05 for v in blk) or any(abs(v) < 0.05 for v in pos2[key]):
            if pos_cls[key] == "real" and not cplxk[key]:
                pos[key] = [v if abs(v) >= 0.05 else 0.25 for v in blk]
                pos2[key] = [v if abs(v) >= 0.05 else -0.3 for v in pos2[key]]
    for key, f in outer_f.items():
        pos[key] = f_inverse(f, pos[key])
        pos2[key] = f_inverse(f, pos2[key])
    return {"op": "lh", "dom": dom, "e": e, "pos": pos, "pos2": pos2, "cplx": cplxk, "cls": pos_cls}


def gen_vmodel_case(rng, small=True):
    """VariableCovarianceGaussianEnergy (real) composed with a model on a single input domain: residual A·xi, inverse
    variance exp(B·xi) (dense, so the pulled-back metric has cross terms); optionally scaled / in a Hamiltonian"""
    dom = gen_dom(rng, small)
    n = npix(dom)
    leaf = {"k": "varcov", "cplx": False, "full": rng.random() < 0.5, "kr": "a", "ki": "b"}
    e = {"k": "vmodel", "e": leaf, "A": [[rnd(rng, -1.5, 1.5, 2) for _ in range(n)] for _ in range(n)],
         "B": [[rnd(rng, -0.4, 0.4, 2) for _ in range(n)] for _ in range(n)]}
    if rng.random() < 0.3:
        e = {"k": "scale", "c": rnd(rng, 0.1, 4), "e": e, "left": rng.random() < 0.7}
    if rng.random() < 0.3:
        e = {"k": "ham", "e": e, "ic": rng.random() < 0.5}
    b = [rnd(rng, -2, 2) for _ in range(n)]
    return {"op": "lh", "dom": dom, "e": e, "pos": {"": b}, "pos2": {"": perturb(rng, "real", b)},
            "cplx": {"": False}, "cls": {"": "real"}}


def gen_inv_f(rng, n, cls, cplx):
    """an invertible point-wise function whose image contains the class `cls`"""
    if cplx:
        return rng.choice([{"f": "id"}, {"f": "scal", "c": rnd(rng, 0.3, 2.5)}])
    opts = [{"f": "id"}, {"f": "scal", "c": rnd(rng, 0.3, 2.5)}, {"f": "diag", "v": [rnd(rng, 0.3, 2) for _ in range(n)]}]
    if cls == "real":
        opts.append({"f": "scal", "c": rnd(rng, -2, -0.3)})
    else:
        opts += [{"f": "exp"}, {"f": "expscal", "c": rng.choice([-1, 1]) * rnd(rng, 0.3, 0.9)}, {"f": "sqr"}]
        if cls in ("unit", "prob"):
            opts.append({"f": "sigmoid"})
    return rng.choice(opts)


def f_inverse(f, block):
    t = f["f"]
    if t == "id":
        return list(block)
    if t == "scal":
        return [v / f["c"] for v in block]
    if t == "diag":
        m = len(f["v"])
        return [v / f["v"][j % m] for j, v in enumerate(block)]
    if t == "exp":
        return [math.log(v) for v in block]
    if t == "expscal":
        return [math.log(v) / f["c"] for v in block]
    if t == "sqr":
        return [math.sqrt(v) for v in block]
    if t == "sigmoid":
        return [math.atanh(2 * v - 1) for v in block]
    raise ValueError(t)


# ------------------------------------------------------------------------------------------------
# translation spec -> Lean model tree  (harness glue; the model itself is lean/NiftyVerif/Model/Likelihood.lean)
def num(v):
    p, q = float(v).as_integer_ratio()
    return f"{p}/{q}" if q != 1 else str(p)


def nums(l):
    return [num(v) for v in l]


def key_offsets(case):
    off, o = {}, 0
    for k, n, c in layout(case):
        kk = "" if k is None else k
        off[kk] = (o, n * (2 if c else 1))
        o += n * (2 if c else 1)
    return off, o


def sel_matrix(case, keys):
    """rows = concatenated coordinates of `keys`, cols = all coordinates"""
    off, N = key_offsets(case)
    rows = []
    for k in keys:
        o, m = off[k]
        for j in range(m):
            rows.append(["1" if c == o + j else "0" for c in range(N)])
    return rows, N


def model_leaf(l, n):
    k = l["k"]
    if k == "gauss":
        cplx = bool(l.get("cplx"))
        m = 2 * n if cplx else n
        if l.get("d") is None:
            d = [0.0] * m
        elif cplx:
            d = list(l["d"][0]) + list(l["d"][1])
        else:
            d = list(l["d"])
        if l["icov"] == "none":
            return {"k": "gaussNone", "d": nums(d)}
        if l["icov"] == "scal":
            return {"k": "gaussDiag", "w": nums([l["c"]] * m), "d": nums(d)}
        if l["icov"] == "diag":
            return {"k": "gaussDiag", "w": nums(list(l["diag"]) * (2 if cplx else 1)), "d": nums(d)}
        if l["icov"] == "csand":
            # complex bun (chain of complex-linear operators): real-coordinate matrix of the bun, cheese doubled
            from . import _c11_cplx as C
            J = C.chain_ref(l["bunops"], [0.0] * m, True, {"shape": [n], "dist": [1.0]})[1]
            return {"k": "gaussSand", "A": [nums(r) for r in J.tolist()], "D": nums(list(l["diag"]) * 2), "d": nums(d)}
        return {"k": "gaussSand", "A": [nums(r) for r in l["bun"]], "D": nums(l["diag"]), "d": nums(d)}
    if k in ("poisson", "bernoulli"):
        return {"k": k, "d": nums(l["d"])}
    if k == "categorical":
        return {"k": "categorical", "d": nums([v for row in l["d"] for v in row])}
    if k == "studentt":
        th = l["theta"]
        return {"k": "student", "theta": nums(th if isinstance(th, list) else [th] * n)}
    if k == "invgamma":
        al = l["alpha"]
        return {"k": "invGamma", "alpha": nums(al if isinstance(al, list) else [al] * n), "beta": nums(l["beta"])}
    if k == "varcov":
        return {"k": "varcov", "n": n, "cplx": bool(l["cplx"]), "full": bool(l["full"])}
    if k == "sgamma":
        if l.get("cplx"):
            return {"k": "sgamma", "re": nums(l["r"][0]), "im": nums(l["r"][1]), "cplx": True}
        return {"k": "sgamma", "re": nums(l["r"]), "im": nums([0.0] * n), "cplx": False}
    raise ValueError(k)


def model_pf(f, j):
    t = f["f"]
    if t == "diag":
        return {"f": "scal", "c": num(f["v"][j])}
    if t in ("scal", "expscal"):
        return {"f": t, "c": num(f["c"])}
    return {"f": t}


def model_node(case, e):
    n = npix(case["dom"])
    k = e["k"]
    if k == "scale":
        sub_ = model_node(case, e["e"])
        return None if sub_ is None else {"k": "scale", "c": num(e["c"]), "e": sub_}
    if k == "ham":
        sub_ = model_node(case, e["e"])
        return None if sub_ is None else {"k": "ham", "e": sub_}
    if k == "sum":
        parts = [model_node(case, s) for s in e["es"]]
        if any(p_ is None for p_ in parts):
            return None
        r = parts[0]
        for p_ in parts[1:]:
            r = {"k": "add", "a": r, "b": p_}
        return r
    if k == "chain" and e["e"]["k"] in ("sum", "scale", "chain", "lin", "ham"):
        fs = []
        for kk, m, c in layout(case):
            kk = "" if kk is None else kk
            f = e["f"].get(kk, {"f": "id"})
            fs += [model_pf(f, j % m) for j in range(m * (2 if c else 1))]
        return {"k": "ptw", "fs": fs, "e": model_node(case, e["e"])}
    if k == "cmodel":
        # complex model: representable in the list model iff every chain is (real-)linear: one `lin` node with the
        # real-coordinate matrix of the chains (from the NumPy definition side; harness glue)
        from . import _c11_cplx as C
        import numpy as np
        if not all(C.is_linear(ops) for ops in e["ops"].values()):
            return None
        off, N = key_offsets(case)
        keys = sorted({kk for l in leaves(e["e"]) for kk in leaf_keys(l)})
        blocks, o2, cin = [], 0, {}
        for kk in keys:
            o, m = off[kk]
            _, J, c2, _ = C.chain_ref(e["ops"].get(kk, []), [0.0] * m, bool(case["cplx"].get(kk)), case["dom"])
            blocks.append((o, m, J))
            cin[kk] = c2
            o2 += J.shape[0]
        Jt = np.zeros((o2, N))
        r = 0
        for o, m, J in blocks:
            Jt[r:r + J.shape[0], o:o + m] = J
            r += J.shape[0]
        case_in = dict(case, pos={kk: [] for kk in keys}, cplx=cin)
        inner = model_node(case_in, e["e"])
        if inner is None:
            return None
        return {"k": "lin", "rows": o2, "A": [nums(r_) for r_ in Jt.tolist()], "e": inner}
    if k == "vmodel":
        return {"k": "lin", "rows": 2 * n, "A": [nums(r) for r in e["A"]] + [nums(r) for r in e["B"]],
                "e": {"k": "ptw", "fs": [{"f": "id"}] * n + [{"f": "exp"}] * n,
                      "e": {"k": "leaf", "l": model_leaf(e["e"], n)}}}
    leaf = e["e"] if k in ("chain", "lin") else e
    keys = leaf_keys(leaf)
    inner = {"k": "leaf", "l": model_leaf(leaf, n)}
    if k == "lin":
        inner = {"k": "lin", "rows": n, "A": [nums(r) for r in e["A"]], "e": inner}
    if k == "chain":
        fs = []
        for kk in keys:
            f = e["f"].get(kk, {"f": "id"})
            m = n * (2 if case["cplx"].get(kk) else 1)
            fs += [model_pf(f, j % n) for j in range(m)]
        inner = {"k": "ptw", "fs": fs, "e": inner}
    if sorted(case["pos"].keys()) == [""]:
        return inner
    P, N = sel_matrix(case, keys)
    return {"k": "lin", "rows": len(P), "A": P, "e": inner}


def model_line(case):
    """None: the case contains a non-linear complex model the list model cannot express (oracle only)"""
    node = model_node(case, case["e"])
    return None if node is None else {"op": "eval", "x": nums(flatx(case)), "e": node}
