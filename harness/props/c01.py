"""C01 — Linear-operator algebra has exact matrix semantics (DESIGN.md §5 C01, design.d/C01.md)."""
import copy
import json
import os
from concurrent.futures import ThreadPoolExecutor

import numpy as np

from core.ctx import VERIF
from translators import t1_modetables
from . import _opalg_exact as X
from . import _opalg_world as OW

ID = "C01"
LEAN_MODULES = ["NiftyVerif.Props.C01", "NiftyVerif.Model.OpAlgebra", "NiftyVerif.Model.GaussMat", "NiftyVerif.Core.Proto"]
DRIVER = "Driver/C01.lean"
TRANSLATORS = [t1_modetables.translate]
OBLIGATIONS = ["NiftyVerif.C01." + t for t in (
    "ilog_spec", "validMode_spec", "modeTable_is_xor", "capTable_matches_modeTable", "addInverse_is_closure",
    "dom_tgt_masks", "backwards_spec", "mask_specs", "adapter_table_specs", "diag_kind_specs",
    "den_scaling", "den_diag", "den_adapter", "den_chain", "den_sum", "den_sandwich", "den_null", "den_idEntry",
    "diagScale_sound", "diagCombineProd_sound", "diagCombineProd_comm", "diagAdd_sound", "diagCombineSum_sound",
    "flip_scaling_sound", "flip_diag_sound", "flip_adapter_sound", "cap_spec",
    "den_chain_mprod", "chainMergeDiag_sound", "chainCollect_sound", "chainAbsorb_sound", "chainFlatten_sound",
    "chainAppend_sound", "chainNullCollapse_sound", "chainPost_sound", "chainSimplifyCore_sound", "mkChainU_sound",
    "sumAbsorb_sound", "sumAbsorbDiags_sound", "sumMergeDiags_sound", "sumScalings_split", "sumProcessGroup_sound",
    "groupKeys_spec", "ssum_groups", "sumFlatten_sound", "sumSimplify_sound", "mkSumU_sound",
    "sum_no_inverse_modes", "flip_member", "flip_sound", "invEnabler_invop_sound",
    "mkChainU_opnd", "matmul_sound", "flip_opnd", "scale_sound", "sandwichCore_sound", "mkSandwich_sound",
    "chainPost_pres", "mkChainU_Inv", "sumSimplify_pres", "mkSumU_Inv", "flip_Inv", "adjointOf_sound",
    "sandwichCore_sound2", "mkSum_pair", "sumRooted_lt", "tree_sound",
    "blockHom_proj", "den_unitEntry", "combineSum_sound", "mkSumU_pair_sound", "combineSum_missing_missing",
    "combineSum_mkSumU_sound", "sumMergeBlocksInner_sound", "sumMergeBlocks_sound", "combineChainEntry_sound",
    "combineChain_sound", "chainMergeBlock_sound",
)]
RULE = ("random construction scripts (typed generator over 8 small domains, 14 leaves with independently known exact "
        "matrices, scaling/diagonal/partial-space diagonal/null/block-diagonal/sandwich/InversionEnabler, combined with "
        "+ - @ .adjoint .inverse scale neg) plus a malformed stream (domain mismatches); non-trivial = the script has at "
        "least one combinator and the real construction succeeded; distinct by script")
TRUSTED_BASE = [
    "Lean 4.33 kernel; axioms propext/Classical.choice/Quot.sound only (audited every run)",
    "translator T1 (translators/t1_modetables.py): literal tables and mode expressions -> Gen/ModeTables.lean; literal "
    "tables validated every run against the imported Python class attributes",
    "harness: script generator, exact Gaussian-rational matrix arithmetic (_opalg_exact.py), dense probing",
    "numpy / ducc0 FFT kernels: executed, not modelled (leaf matrices are given by explicit formulas)",
]
ASSUMPTIONS = [
    "model/code dense matrices are compared with tolerance 1e-9 (1e-6 when an InversionEnabler solves by CG): "
    "float rounding of non-dyadic entries is outside the model",
    "InversionEnabler's CG solve is modelled as an exact inverse (operator generated symmetric positive definite)",
    "domains are opaque identifiers; MultiDomain sums over different sub-domains are not generated",
]

_W = None


def world():
    global _W
    if _W is None:
        import nifty.cl as ift
        ift.logger.setLevel("CRITICAL")
        _W = OW.World()
    return _W


# ------------------------------------------------------------------------------------------------------------
# generator
# ------------------------------------------------------------------------------------------------------------
SCALARS = [(1, 0), (-1, 0), (2, 0), ("1/2", 0), (-2, 0), (0, 0), (0, 1), (0, -1), (1, 1), (0, 2), ("1/2", "-1/2"), (3, 0),
           ("3/2", 0), (4, 0), (1, -1)]
DVALS = [(1, 0), (-1, 0), (2, 0), (-2, 0), ("1/2", 0), (4, 0), (0, 1), (1, 1), (1, -1), (3, 0), (0, -2), (-3, 0)]
POS = [(1, 0), (2, 0), (4, 0), ("1/2", 0), (3, 0), ("1/4", 0)]


def gj(c):
    return X.gjson(X.g(c))


def pick_dt(rng):
    r = rng.random()
    return 0 if r < 0.6 else (1 if r < 0.85 else 2)


def atom_scaling(W, rng, d, pos=False):
    c = rng.choice(POS if pos else SCALARS)
    return dict(op="scaling", dom=d, c=gj(c), dt=pick_dt(rng), d=d, t=d)


def atom_diag(W, rng, d, pos=False):
    pool = POS if pos else DVALS
    real_only = rng.random() < 0.5
    if real_only and not pos:
        pool = [v for v in DVALS if v[1] == 0]
    spaces = None
    n = W.sizes[d]
    if d == 4 and rng.random() < 0.6:
        spaces = rng.choice([[0], [1]])
        k = 2 if spaces == [0] else 3
        vals = [rng.choice(pool) for _ in range(k)]
        full = [vals[i // 3] for i in range(6)] if spaces == [0] else [vals[i % 3] for i in range(6)]
    else:
        vals = [rng.choice(pool) for _ in range(n)]
        if not pos and rng.random() < 0.04:
            vals[rng.randrange(n)] = (0, 0)
        full = vals
    return dict(op="diag", dom=d, v=[gj(v) for v in full], dt=pick_dt(rng), d=d, t=d,
                py=dict(spaces=spaces, vals=[gj(v) for v in vals]))


def atoms(W, rng, d, t):
    """leaf-level scripts for an operator d -> t"""
    out = []
    for lf in W.leaves:
        if (lf.dom, lf.tgt) == (d, t):
            out += [dict(op="leaf", id=lf.id, d=d, t=t)] * 2
        if (lf.dom, lf.tgt) == (t, d) and (d != t or rng.random() < 0.35):
            out.append(dict(op="adjoint", a=dict(op="leaf", id=lf.id, d=t, t=d), d=d, t=t))
            out.append(dict(op="inverse", a=dict(op="leaf", id=lf.id, d=t, t=d), d=d, t=t))
    if d == t:
        out += [atom_scaling(W, rng, d) for _ in range(2)]
        if d not in W.multi:
            out += [atom_diag(W, rng, d) for _ in range(3)]
        else:
            out += [gen_block(W, rng, d, 0) for _ in range(3)]
    if rng.random() < 0.06 or not out:
        out.append(dict(op="null", dom=d, tgt=t, d=d, t=t))
    return rng.choice(out)


def gen_block(W, rng, d, depth):
    subs = W.multi[d]
    ents = [None if rng.random() < 0.3 else gen(W, rng, sd, sd, depth) for sd in subs]
    return dict(op="block", dom=d, subdoms=subs, ents=ents, d=d, t=d)


def gen_spd(W, rng, d):
    r = rng.random()
    if d in W.multi:
        return dict(op="block", dom=d, subdoms=W.multi[d], ents=[gen_spd(W, rng, sd) for sd in W.multi[d]], d=d, t=d)
    if r < 0.3:
        return atom_diag(W, rng, d, pos=True)
    if r < 0.4:
        return atom_scaling(W, rng, d, pos=True)
    mids = [m for m in range(len(W.sizes)) if W.connected(d, m) and m not in W.multi]
    m = rng.choice(mids)
    bun = atoms(W, rng, d, m)
    sw = dict(op="sandwich", bun=bun, cheese=atom_diag(W, rng, m, pos=True), dt=0, d=d, t=d)
    return dict(op="add", a=sw, b=atom_scaling(W, rng, d, pos=True), d=d, t=d)


def gen(W, rng, d, t, depth):
    if depth <= 0 or rng.random() < 0.12:
        return atoms(W, rng, d, t)
    if d == t:
        kinds = ["add", "add", "sub", "matmul", "matmul", "matmul", "adjoint", "inverse", "scale", "neg", "sandwich"]
        if d in W.multi:
            kinds += ["block", "block"]
        if rng.random() < 0.08:
            kinds = ["invEnabler"]
    else:
        kinds = ["matmul", "matmul", "add", "sub", "adjoint", "inverse", "scale", "neg"]
    k = rng.choice(kinds)
    if k in ("add", "sub"):
        return dict(op=k, a=gen(W, rng, d, t, depth - 1), b=gen(W, rng, d, t, depth - 1), d=d, t=t)
    if k == "matmul":
        mids = [m for m in range(len(W.sizes)) if W.connected(d, m) and W.connected(m, t)]
        m = rng.choice(mids)
        return dict(op=k, a=gen(W, rng, m, t, depth - 1), b=gen(W, rng, d, m, depth - 1), d=d, t=t)
    if k in ("adjoint", "inverse"):
        return dict(op=k, a=gen(W, rng, t, d, depth - 1), d=d, t=t)
    if k == "neg":
        return dict(op=k, a=gen(W, rng, d, t, depth - 1), d=d, t=t)
    if k == "scale":
        return dict(op=k, a=gen(W, rng, d, t, depth - 1), c=gj(rng.choice(SCALARS)), d=d, t=t)
    if k == "sandwich":
        mids = [m for m in range(len(W.sizes)) if W.connected(d, m)]
        m = rng.choice(mids)
        cheese = None if rng.random() < 0.25 else gen(W, rng, m, m, depth - 1)
        return dict(op=k, bun=gen(W, rng, d, m, depth - 1), cheese=cheese, dt=pick_dt(rng), d=d, t=t)
    if k == "block":
        return gen_block(W, rng, d, depth - 1)
    if k == "invEnabler":
        return dict(op=k, a=gen_spd(W, rng, d), d=d, t=t)
    raise AssertionError(k)


def gen_targeted(W, rng, kind=None):
    """small scripts aimed at one rewriting rule each (DESIGN §5 C01 'Search'): scaling absorbed into a (negated) diagonal of a
    sum, real/complex scalings collected in a chain, diagonals with pending transformations merged in chains and sums, different
    sampling dtypes, block-diagonals with missing keys, sandwiches with scaling buns, flipped chains"""
    d = rng.choice([0, 1, 4, 2])
    dt = pick_dt(rng)

    def diag(trafo=None, same_dt=True):
        e = atom_diag(W, rng, d)
        e["dt"] = dt if same_dt else pick_dt(rng)
        t = rng.choice(["", "", "adjoint", "inverse", "adjinv"]) if trafo is None else trafo
        if any(X.g(v) == X.ZERO for v in e["v"]):
            t = ""
        if t in ("adjoint", "inverse"):
            e = dict(op=t, a=e, d=d, t=d)
        elif t == "adjinv":
            e = dict(op="adjoint", a=dict(op="inverse", a=e, d=d, t=d), d=d, t=d)
        return e

    def scal(cplx=None):
        e = atom_scaling(W, rng, d)
        e["dt"] = dt if rng.random() < 0.7 else pick_dt(rng)
        if cplx is True:
            e["c"] = gj(rng.choice([(0, 1), (1, 1), (0, 2), ("1/2", "-1/2"), (1, -1)]))
        if cplx is False:
            e["c"] = gj(rng.choice([(2, 0), (-1, 0), ("1/2", 0), (3, 0), (-2, 0), (4, 0)]))
        return e

    def other():
        ls = [lf for lf in W.leaves if lf.dom == d and lf.tgt == d]
        if ls and rng.random() < 0.8:
            return dict(op="leaf", id=rng.choice(ls).id, d=d, t=d)
        return diag(same_dt=False)

    def bin_(op, a, b):
        return dict(op=op, a=a, b=b, d=d, t=d)
    kind = kind or rng.choice(["sum-absorb", "sum-absorb", "sum-diags", "chain-scal", "chain-scal", "chain-diags", "flip-chain",
                               "sandwich-scal", "block", "block", "block", "neg-single", "enabler-chain"])
    if kind == "enabler-chain":
        # InversionEnabler around a Hermitian positive definite CHAIN that advertises only TIMES and ADJOINT_INVERSE_TIMES:
        # ADJOINT_TIMES / INVERSE_TIMES are then solved numerically with `chain._flip_modes(3)` / `_flip_modes(1)`
        b, c = W.spd_chain_leaves
        ch = dict(op="matmul", a=dict(op="leaf", id=b, d=0, t=0), b=dict(op="leaf", id=c, d=0, t=0), d=0, t=0)
        e = dict(op="invEnabler", a=ch, d=0, t=0)
        r = rng.random()
        if r < 0.3:
            e = dict(op="matmul", a=e, b=atom_diag(W, rng, 0), d=0, t=0)
        elif r < 0.5:
            e = dict(op="adjoint", a=e, d=0, t=0)
        return e
    if kind == "sum-absorb":
        # X ± D ± c (in random order and nesting): the summed scaling goes into the first diagonal with its sign
        terms = [other(), diag(), scal()] + ([scal()] if rng.random() < 0.4 else []) + ([diag()] if rng.random() < 0.3 else [])
        rng.shuffle(terms)
        e = terms[0] if rng.random() < 0.6 else dict(op="neg", a=terms[0], d=d, t=d)
        for t in terms[1:]:
            e = bin_(rng.choice(["add", "sub"]), e, t) if rng.random() < 0.7 else bin_(rng.choice(["add", "sub"]), t, e)
        return e
    if kind == "sum-diags":
        terms = [diag(same_dt=rng.random() < 0.7) for _ in range(rng.choice([2, 3]))] + ([other()] if rng.random() < 0.5 else [])
        rng.shuffle(terms)
        e = terms[0]
        for t in terms[1:]:
            e = bin_(rng.choice(["add", "sub"]), e, t)
        return e
    if kind == "chain-scal":
        fac = [scal(cplx=rng.random() < 0.5), other()] + ([diag()] if rng.random() < 0.6 else []) + ([scal()] if rng.random() < 0.5 else [])
        rng.shuffle(fac)
        e = fac[0]
        for f in fac[1:]:
            e = bin_("matmul", e, f)
        if rng.random() < 0.4:
            e = dict(op=rng.choice(["adjoint", "inverse"]), a=e, d=d, t=d)
        return e
    if kind == "chain-diags":
        fac = [diag(same_dt=rng.random() < 0.6) for _ in range(rng.choice([2, 3]))] + ([other()] if rng.random() < 0.5 else [])
        if rng.random() < 0.5:
            rng.shuffle(fac)
        e = fac[0]
        for f in fac[1:]:
            e = bin_("matmul", e, f)
        return e
    if kind == "flip-chain":
        e = bin_("matmul", bin_("matmul", other(), scal(cplx=True)), other())
        e = dict(op=rng.choice(["adjoint", "inverse"]), a=e, d=d, t=d)
        if rng.random() < 0.5:
            e = dict(op=rng.choice(["adjoint", "inverse"]), a=e, d=d, t=d)
        return e
    if kind == "sandwich-scal":
        return dict(op="sandwich", bun=scal(cplx=rng.random() < 0.6), cheese=rng.choice([None, diag(), other()]), dt=dt, d=d, t=d)
    if kind == "neg-single":
        return bin_("sub", scal(False), diag()) if rng.random() < 0.5 else dict(op="neg", a=bin_("add", diag(), diag()), d=d, t=d)
    # block-diagonals with missing keys meeting in chains, sums and differences: every pattern of missing keys in the two
    # operands is produced, in particular the SAME key missing in both (missing ± missing = 2·id resp. 0, missing @ missing = id),
    # also below adjoint / inverse / further combinations
    def blk(missing):
        subs = W.multi[5]
        ents = [None if i in missing else gen(W, rng, sd, sd, rng.choice([0, 0, 1])) for i, sd in enumerate(subs)]
        return dict(op="block", dom=5, subdoms=subs, ents=ents, d=5, t=5)
    patterns = [((0,), (0,)), ((1,), (1,)), ((0,), (1,)), ((1,), (0,)), ((0, 1), (0,)), ((1,), (0, 1)), ((0, 1), (0, 1)),
                ((), (0,)), ((1,), ()), ((), ())]
    weights = [6, 6, 2, 2, 3, 3, 2, 1, 1, 1]
    ma, mb = rng.choices(patterns, weights)[0]
    e = dict(op=rng.choice(["matmul", "add", "sub", "add", "sub"]), a=blk(ma), b=blk(mb), d=5, t=5)
    r = rng.random()
    if r < 0.25:
        e = dict(op=rng.choice(["matmul", "add", "sub"]), a=e, b=blk(rng.choice([(), (0,), (1,)])), d=5, t=5)
    elif r < 0.4:
        e = dict(op=rng.choice(["adjoint", "inverse"]), a=e, d=5, t=5)
    elif r < 0.5:
        e = dict(op="scale", a=e, c=gj(rng.choice(SCALARS[1:])), d=5, t=5)
    elif r < 0.6:
        e = dict(op="matmul", a=atom_scaling(W, rng, 5), b=e, d=5, t=5)
    return e


def gen_case(W, rng, depth, malformed=False):
    d = rng.randrange(len(W.sizes))
    t = d if rng.random() < 0.7 else rng.choice([x for x in range(len(W.sizes)) if W.connected(d, x)])
    s = gen(W, rng, d, t, depth)
    if malformed:
        # break one binary node: an operand on a different domain
        nodes = [n for n in walk(s) if n["op"] in ("add", "sub", "matmul")]
        if nodes:
            n = rng.choice(nodes)
            d2 = rng.choice([x for x in range(len(W.sizes)) if x != n["b"]["t"] and x != n["b"]["d"]])
            n["b"] = atoms(W, rng, d2, d2)
        return dict(script=s, valid=False)
    return dict(script=s, valid=True)


def walk(e):
    yield e
    for _, c in OW.children(e):
        yield from walk(c)
    for x in e.get("ents", []) or []:
        if isinstance(x, dict):
            yield from walk(x)


# ------------------------------------------------------------------------------------------------------------
# the real code
# ------------------------------------------------------------------------------------------------------------
def run_real(W, case):
    """construct with the real nifty.cl classes; capability, domains, structure, dense matrix of every advertised mode"""
    try:
        op = W.build(case["script"])
    except Exception as e:  # noqa: BLE001 - the kind is the observable
        return dict(error=type(e).__name__, site=OW.err_site(e)), None
    out = dict(cap=int(op.capability), dom=W.dom_id(op.domain), tgt=W.dom_id(op.target), struct=W.struct(op))
    mats = {}
    for m in OW.MODES:
        if op.capability & m:
            try:
                with np.errstate(all="ignore"):
                    mats[m] = W.dense(op, m)
            except Exception as e:  # noqa: BLE001
                mats[m] = dict(error=type(e).__name__, site=OW.err_site(e))
    out["mats"] = mats
    return out, op


def tol_for(script):
    return 1e-6 if OW.has_op(script, "invEnabler") else 1e-9


def close(a, b, tol):
    if a.shape != b.shape:
        return False
    if not (np.all(np.isfinite(a)) and np.all(np.isfinite(b))):
        return False
    return bool(np.max(np.abs(a - b), initial=0.0) <= tol * max(1.0, float(np.max(np.abs(b), initial=0.0))))


def expected_matrix(W, script, mode):
    """exact action the property demands in `mode`, or None when the matrix expression has no such inverse"""
    adj, inv = mode in (2, 8), mode in (4, 8)
    try:
        m = OW.naive_matrix(W, script)
        if inv:
            m = X.minv(m)
        return X.mconjT(m) if adj else m
    except X.Singular:
        pass
    try:
        return OW.mode_matrix(W, script, mode)
    except X.Singular:
        return None


def oracle(case):
    """The property on the real code only: a well-typed script must build; the result must advertise at least the modes
    its constituents provide; every advertised mode must act as the matrix expression (real and imaginary inputs)."""
    W = world()
    script = case["script"]
    real, op = run_real(W, case)
    if not case.get("valid", True):
        if "error" not in real:
            # the property says nothing about ill-typed expressions that happen to be accepted
            return None
        return None
    if "error" in real:
        if real["error"] == "ZeroDivisionError" and real["site"] == "scaling_operator.py:_flip_modes":
            try:
                OW.naive_matrix(W, script)
            except X.Singular:
                return None     # the inverse of a zero scaling has no matrix expression; refusing it is fine
        return (f"well-typed operator expression cannot be built: {real['error']} at {real['site']}",
                dict(kind="crash", error=real["error"], site=real["site"]))
    need = OW.required_cap(W, script)
    if need & ~real["cap"]:
        return (f"capability {real['cap']} lacks modes {need & ~real['cap']} that all constituents provide",
                dict(kind="capability", top=script["op"]))
    if (real["dom"], real["tgt"]) != (script["d"], script["t"]):
        return (f"domain/target ids {(real['dom'], real['tgt'])} differ from the expression's {(script['d'], script['t'])}",
                dict(kind="domain", top=script["op"]))
    tol = tol_for(script)
    for m, a in real["mats"].items():
        exp = expected_matrix(W, script, m)
        if isinstance(a, dict):
            if exp is None:
                continue
            return (f"advertised mode {m} raises {a['error']} at {a['site']}", dict(kind="crash-apply", error=a["error"], site=a["site"]))
        if exp is None:
            continue
        e = X.mnumpy(exp, *a.shape)
        if not close(a, e, tol):
            return (f"mode {m}: dense action differs from the matrix expression (max abs diff "
                    f"{float(np.max(np.abs(a - e))) if a.shape == e.shape else 'shape'})",
                    dict(kind="matrix", mode=m, classes=sorted(set(kinds_in(real['struct'])))))
        if not OW.has_op(script, "invEnabler"):
            try:
                with np.errstate(all="ignore"):
                    ai = W.dense(op, m, imag=True)
            except Exception as ex:  # noqa: BLE001
                return (f"mode {m} raises {type(ex).__name__} on an imaginary input", dict(kind="crash-apply-imag", error=type(ex).__name__))
            if not close(ai, 1j * e, tol):
                return (f"mode {m}: action on i*e_j is not i times the action on e_j",
                        dict(kind="matrix-imag", mode=m, classes=sorted(set(kinds_in(real['struct'])))))
    return None


def kinds_in(s):
    if isinstance(s, dict):
        if "k" in s:
            yield s["k"]
        for v in s.values():
            yield from kinds_in(v)
    elif isinstance(s, list):
        for x in s:
            yield from kinds_in(x)


def shrink(case):
    s = case["script"]
    # any proper sub-expression is itself a script
    for n in list(walk(s))[1:]:
        yield dict(script=n, valid=case.get("valid", True))
    # replace a node by one of its same-typed children
    def rebuild(e, target, repl):
        if e is target:
            return repl
        e2 = dict(e)
        for k, c in OW.children(e):
            e2[k] = rebuild(c, target, repl)
        if e.get("ents"):
            e2["ents"] = [rebuild(x, target, repl) if isinstance(x, dict) else x for x in e["ents"]]
        return e2
    for n in walk(s):
        for _, c in OW.children(n):
            if (c["d"], c["t"]) == (n["d"], n["t"]):
                yield dict(script=rebuild(s, n, c), valid=case.get("valid", True))


# ------------------------------------------------------------------------------------------------------------
# model side
# ------------------------------------------------------------------------------------------------------------
def strip(e):
    """script as sent to the driver (python-only annotations removed)"""
    if isinstance(e, dict):
        return {k: strip(v) for k, v in e.items() if k not in ("py", "d", "t")}
    if isinstance(e, list):
        return [strip(x) for x in e]
    return e


def run_model(ctx, W, cases):
    reqs = []
    for c in cases:
        lib = W.lib_json(OW.leaf_ids(c["script"]))
        reqs.append(dict(sizes=lib["sizes"], leaves=lib["leaves"], script=strip(c["script"])))
    k = max(1, min(6, len(reqs) // 40))          # few processes: `lean --run` start-up dominates small batches
    step = (len(reqs) + k - 1) // k
    chunks = [reqs[i:i + step] for i in range(0, len(reqs), step)]
    with ThreadPoolExecutor(max_workers=6) as ex:
        outs = list(ex.map(lambda ch: ctx.model(DRIVER, ch), chunks))
    return [o for ch in outs for o in ch]


def snap_scalings(a, b):
    """scaling factors in the structure: the code's float is snapped to the model's exact value when within 1e-12"""
    if isinstance(a, dict) and isinstance(b, dict):
        if a.get("k") == "Scaling" and b.get("k") == "Scaling":
            try:
                ca, cb = X.gcomplex(X.g(a["c"])), X.gcomplex(X.g(b["c"]))
                if abs(ca - cb) <= 1e-12 * max(1.0, abs(cb)):
                    a["c"] = b["c"]
            except Exception:  # noqa: BLE001
                pass
        for k in a:
            if k in b:
                snap_scalings(a[k], b[k])
    elif isinstance(a, list) and isinstance(b, list):
        for x, y in zip(a, b):
            snap_scalings(x, y)


def compare_one(ctx, W, case, real, model):
    """canonical summaries of both sides; dense matrices compared numerically (class E up to float rounding)"""
    script = case["script"]
    nontrivial = "error" not in real and script["op"] not in ("leaf", "scaling", "diag", "null")
    if model.get("error") == "ZeroDivisionError":
        # the script inverts a zero scaling: no matrix semantics; the code raises or produces inf depending on whether the
        # factor is a Python or a NumPy float at that point (documented as the caller's responsibility) - not compared
        ctx.stat("skipped-inverse-of-zero-scaling")
        ctx.case(case, nontrivial=False)
        return True
    if "error" in real or "error" in model:
        # ill-typed scripts: only "rejected or not" is compared (the kind depends on where the mismatch surfaces)
        kind = (lambda k: k) if case.get("valid", True) else (lambda k: "rejected")
        ri = dict(error=kind(real.get("error"))) if "error" in real else dict(ok=True)
        mi = dict(error=kind(model.get("error"))) if "error" in model else dict(ok=True)
        return ctx.compare(case, ri, mi, note="construction outcome (error kind) differs between model and code", nontrivial=False)
    tol = tol_for(script)
    ri = dict(cap=real["cap"], dom=real["dom"], tgt=real["tgt"], struct=copy.deepcopy(real["struct"]), mats={})
    mi = dict(cap=model["cap"], dom=model["dom"], tgt=model["tgt"], struct=model["struct"], mats={})
    snap_scalings(ri["struct"], mi["struct"])
    for m, a in real["mats"].items():
        exp = expected_matrix(W, script, m)
        if exp is None:
            ctx.stat("mode-skipped-singular")
            continue
        ri["mats"][str(m)] = "ok" if not isinstance(a, dict) else "error:" + a["error"]
    for ms, mm in model.get("mats", {}).items():
        m = int(ms)
        if expected_matrix(W, script, m) is None:
            continue
        a = real["mats"].get(m)
        if a is None or isinstance(a, dict):
            mi["mats"][ms] = "model-has-mode"
            continue
        e = X.mnumpy(X.mfromjson(mm), *a.shape)
        if close(a, e, tol):
            mi["mats"][ms] = "ok"
            ctx.stat("mode-bit-exact" if np.array_equal(a, e) else "mode-within-tol")
        else:
            mi["mats"][ms] = "differs"
    return ctx.compare(case, json.loads(json.dumps(ri)), json.loads(json.dumps(mi)),
                       note="capability / domains / structure / dense action: model vs real operator", nontrivial=nontrivial)


def check_tables(ctx):
    """translator validation: the regenerated literal tables equal the attributes of the imported class"""
    from nifty.cl.operators.linear_operator import LinearOperator as L
    from nifty.cl.operators.sum_operator import SumOperator  # noqa: F401
    out = ctx.model(DRIVER, [dict(op="tables")])[0]
    impl = {}
    for k in ("TIMES", "ADJOINT_TIMES", "INVERSE_TIMES", "ADJOINT_INVERSE_TIMES", "INVERSE_ADJOINT_TIMES", "ADJOINT_BIT",
              "INVERSE_BIT", "_backwards", "_all_ops"):
        impl[k] = int(getattr(L, k))
    impl["_ilog"] = [int(x) for x in L._ilog]
    impl["_validMode"] = [bool(x) for x in L._validMode]
    impl["_modeTable"] = [[int(x) for x in r] for r in L._modeTable]
    impl["_capTable"] = [[int(x) for x in r] for r in L._capTable]
    impl["_addInverse"] = [int(x) for x in L._addInverse]
    model = {k: out.get(k) for k in impl}
    ctx.compare(dict(op="tables"), impl, model, note="T1: regenerated literal tables vs imported class attributes", nontrivial=True)


def load_corpus():
    d = os.path.join(VERIF, "corpus", ID)
    out = []
    if os.path.isdir(d):
        for fn in sorted(os.listdir(d)):
            if fn.endswith(".json"):
                rec = json.load(open(os.path.join(d, fn)))
                out.append(rec.get("case", rec))
    return out


def run(ctx):
    W = world()
    check_tables(ctx)
    cases = load_corpus()
    n = ctx.n(200, 2500)
    for i in range(n):
        depth = ctx.rng.choice([1, 2, 2, 3] if ctx.quick else [1, 2, 3, 3, 4, 5])
        if i % 10 == 7:
            # two block-diagonal operators with every pattern of missing keys (same key missing in both: 2·id, 0, id)
            cases.append(dict(script=gen_targeted(W, ctx.rng, kind="block"), valid=True, targeted=True))
        elif i % 5 in (1, 3):
            cases.append(dict(script=gen_targeted(W, ctx.rng), valid=True, targeted=True))
        else:
            cases.append(gen_case(W, ctx.rng, depth, malformed=(i % 12 == 11)))
    cases = [c for c in cases if OW.size_of(c["script"]) <= 40]
    reals = [run_real(W, c)[0] for c in cases]
    models = run_model(ctx, W, cases)
    for c, r, m in zip(cases, reals, models):
        ctx.stat("top:" + c["script"]["op"])
        ctx.stat("valid" if c.get("valid", True) else "malformed")
        if "error" not in m:
            # is this script inside the scope of the Lean theorem `tree_sound` (computed by the model driver)?
            ctx.stat("tree_sound:covered" if m.get("tree_sound_covers") else "tree_sound:outside-scope")
        if "error" in r:
            ctx.stat("impl-error:" + r["error"])
        else:
            ctx.stat("cap=%d" % r["cap"])
            for k in set(kinds_in(r["struct"])):
                ctx.stat("class:" + k)
        compare_one(ctx, W, c, r, m)
        res = oracle(c)
        if res:
            ctx.counterexample(c, *res)


def search(ctx):
    """targeted: every rewriting rule of the simplifiers, small scripts"""
    W = world()
    for i in range(1500):
        c = gen_case(W, ctx.rng, ctx.rng.choice([1, 2, 3]))
        r = oracle(c)
        if r:
            ctx.counterexample(c, *r)
            return
