"""Shared helpers for C02/C35: exact conversion, domain specs, dense-matrix extraction from real operators.
Everything that touches nifty is imported lazily (after vcheck.py has set sys.path from NIFTY_REPO)."""
from fractions import Fraction

import numpy as np

MODES = (1, 2, 4, 8)


def fr(x):
    """exact rational string of a python/numpy real number"""
    if isinstance(x, Fraction):
        f = x
    elif isinstance(x, (int, np.integer)):
        f = Fraction(int(x))
    else:
        f = Fraction(float(x))
    return str(f.numerator) if f.denominator == 1 else f"{f.numerator}/{f.denominator}"


def cq(z):
    """exact Gaussian-rational JSON of a python/numpy scalar"""
    z = complex(z)
    return [fr(z.real), fr(z.imag)]


def parse_fr(s):
    return Fraction(s)


# ---------------------------------------------------------------- domains (JSON spec <-> nifty object)
def build_sub(d):
    import nifty.cl as ift
    k = d["kind"]
    if k == "RG":
        return ift.RGSpace(tuple(d["shape"]), distances=tuple(d["dist"]), harmonic=bool(d.get("harmonic", False)))
    if k == "U":
        return ift.UnstructuredDomain(tuple(d["shape"]))
    if k == "DOF":
        from nifty.cl.domains.dof_space import DOFSpace
        return DOFSpace([float(Fraction(w)) for w in d["w"]])
    if k == "Power":
        hs = ift.RGSpace(tuple(d["hshape"]), distances=tuple(d["dist"]), harmonic=True)
        return ift.PowerSpace(hs)
    if k == "HP":
        return ift.HPSpace(d["nside"])
    if k == "GL":
        return ift.GLSpace(d["nlat"])
    if k == "LM":
        return ift.LMSpace(d["lmax"])
    raise ValueError(k)


def sub_json(d, dom=None):
    """spec + what the model needs: shape and exact volume element of the REAL domain object"""
    dom = dom if dom is not None else build_sub(d)
    out = dict(d)
    out["shape"] = [int(s) for s in dom.shape]
    if not hasattr(dom, "scalar_dvol"):      # UnstructuredDomain has no volume: weighting it is rejected upstream
        out.pop("dvol", None)
        return out
    sd = dom.scalar_dvol
    if sd is not None:
        out["dvol"] = fr(sd)
    else:
        out["dvol"] = [fr(v) for v in np.asarray(dom.dvol, dtype=np.float64).ravel()]
    return out


def build_domtuple(doms):
    import nifty.cl as ift
    return ift.DomainTuple.make(tuple(build_sub(d) for d in doms))


def gen_sub(rng, kinds=("RG", "U", "DOF"), maxlen=4, maxdim=2):
    k = rng.choice(kinds)
    if k == "RG":
        nd = 1 if rng.random() < 0.6 else rng.randint(min(2, maxdim), maxdim)
        return dict(kind="RG", shape=[rng.randint(1, maxlen) for _ in range(nd)],
                    dist=[rng.choice([0.5, 1.0, 2.0, 0.25, 4.0]) for _ in range(nd)], harmonic=rng.random() < 0.3)
    if k == "U":
        nd = 1 if rng.random() < 0.65 else rng.randint(min(2, maxdim), maxdim)
        return dict(kind="U", shape=[rng.randint(1, maxlen) for _ in range(nd)])
    if k == "DOF":
        n = rng.randint(1, maxlen)
        return dict(kind="DOF", w=[rng.choice(["1/2", "1", "2", "4", "1/4"]) for _ in range(n)])
    raise ValueError(k)


def gen_doms(rng, nmax=3, maxsize=48, **kw):
    while True:
        n = rng.choice([1, 1, 2, 2, 3][:max(1, 2 * nmax - 1)]) if nmax > 1 else 1
        doms = [gen_sub(rng, **kw) for _ in range(n)]
        doms = [sub_json(d) for d in doms]
        size = 1
        for d in doms:
            for s in d["shape"]:
                size *= s
        if size <= maxsize:
            return doms


def sub_size(d):
    s = 1
    for v in d["shape"]:
        s *= v
    return s


# ---------------------------------------------------------------- fields <-> flat coordinate vectors
def keys_of(dom):
    import nifty.cl as ift
    return list(dom.keys()) if isinstance(dom, ift.MultiDomain) else None


def dom_size(dom):
    return int(dom.size)


def to_flat(f, dom):
    """Field/MultiField -> 1-D complex numpy vector (MultiField: blocks in key order of the domain)"""
    import nifty.cl as ift
    if isinstance(dom, ift.MultiDomain):
        parts = [np.asarray(f[k].asnumpy()).reshape(-1) for k in dom.keys()]
        return np.concatenate(parts) if parts else np.zeros(0)
    return np.asarray(f.asnumpy()).reshape(-1)


def from_flat(dom, v, dtype):
    import nifty.cl as ift
    v = np.asarray(v)
    if isinstance(dom, ift.MultiDomain):
        out, off = {}, 0
        for k in dom.keys():
            n = dom[k].size
            out[k] = ift.makeField(dom[k], np.array(v[off:off + n].reshape(dom[k].shape), dtype=dtype))
            off += n
        return ift.MultiField.from_dict(out, domain=dom)
    return ift.makeField(dom, np.array(v.reshape(dom.shape), dtype=dtype))


def snapshot(f, dom):
    """bytes of every array of a (multi)field, to check inputs are not modified"""
    import nifty.cl as ift
    if isinstance(dom, ift.MultiDomain):
        return tuple(np.asarray(f[k].asnumpy()).tobytes() for k in dom.keys())
    return (np.asarray(f.asnumpy()).tobytes(),)


def double(v):
    v = np.asarray(v, dtype=np.complex128)
    out = np.empty(2 * v.size)
    out[0::2] = v.real
    out[1::2] = v.imag
    return out


def undouble(c):
    c = np.asarray(c, dtype=np.float64)
    return c[0::2] + 1j * c[1::2]


class ApplyError(Exception):
    def __init__(self, kind, where):
        super().__init__(f"{kind} at {where}")
        self.kind = kind
        self.where = where


def apply_checked(op, x, mode, problems):
    """op.apply with the side conditions of the property: target identity, input unchanged"""
    dom = op._dom(mode)
    before = snapshot(x, dom)
    y = op.apply(x, mode)
    if snapshot(x, dom) != before:
        problems.append(("mutated-input", mode))
    if y.domain is not op._tgt(mode):
        problems.append(("target-identity", mode))
    return y


def dense_of(op, mode, dtype, doubled=False, real_only_input=False, problems=None):
    """dense matrix of one mode from integer basis fields.  doubled: real-linear operator on (re, im) coordinates."""
    problems = problems if problems is not None else []
    dom, tgt = op._dom(mode), op._tgt(mode)
    n, m = dom_size(dom), dom_size(tgt)
    if not doubled:
        M = np.zeros((m, n), dtype=np.complex128)
        for k in range(n):
            e = np.zeros(n)
            e[k] = 1
            y = apply_checked(op, from_flat(dom, e, dtype), mode, problems)
            M[:, k] = to_flat(y, tgt)
        return M
    M = np.zeros((2 * m, 2 * n))
    for k in range(n):
        for part in (0, 1):
            if part == 1 and real_only_input:
                continue
            e = np.zeros(n, dtype=np.complex128)
            e[k] = 1j if part else 1
            cdt = dtype if np.issubdtype(dtype, np.complexfloating) else np.complex128
            rdt = np.float32 if cdt == np.complex64 else np.float64
            xin = from_flat(dom, e if not real_only_input else e.real, cdt if not real_only_input else rdt)
            y = apply_checked(op, xin, mode, problems)
            M[:, 2 * k + part] = double(to_flat(y, tgt))
    return M


def sparse_canon(M):
    """sorted list of exact non-zero entries [r, c, re, im]"""
    M = np.asarray(M)
    out = []
    rr, cc = np.nonzero(M)
    for r, c in zip(rr.tolist(), cc.tolist()):
        z = complex(M[r, c])
        out.append([r, c, fr(z.real), fr(z.imag)])
    return out


def densify_model(ent):
    """model COO entries [[r,c,re,im],…] -> canonical sparse form (duplicates added exactly, zeros dropped)"""
    acc = {}
    for r, c, re, im in ent:
        a = acc.get((r, c), (Fraction(0), Fraction(0)))
        acc[(r, c)] = (a[0] + Fraction(re), a[1] + Fraction(im))
    out = []
    for (r, c) in sorted(acc):
        re, im = acc[(r, c)]
        if re != 0 or im != 0:
            out.append([r, c, str(re) if re.denominator != 1 else str(re.numerator),
                        str(im) if im.denominator != 1 else str(im.numerator)])
    return out


def canon_vec(v):
    return [cq(z) for z in np.asarray(v).reshape(-1)]


def rand_int_vec(rng, n, cplx):
    if cplx:
        return np.array([complex(rng.randint(-3, 3), rng.randint(-3, 3)) for _ in range(n)], dtype=np.complex128).reshape(n)
    return np.array([float(rng.randint(-4, 4)) for _ in range(n)]).reshape(n)
