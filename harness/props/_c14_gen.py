"""C14 generators (deterministic given the rng handed in) and the shrinker.  Cases hold only ints and 'p/q' strings."""
import math
from fractions import Fraction

import numpy as np

from props._c14_impl import F, fstr

CTRL_TYPES = ("gradnorm", "gradinf", "deltae", "absdeltae", "stochastic")


# ------------------------------------------------------------------------------------------------------------------
# integer Hermitian positive definite matrices
# ------------------------------------------------------------------------------------------------------------------
def _randint_mat(rng, n, lo, hi, density=1.0):
    return np.array([[rng.randint(lo, hi) if rng.random() < density else 0 for _ in range(n)] for _ in range(n)],
                    dtype=np.int64)


def hpd(rng, n, cplx, family=None):
    """-> (re, im|None, family): integer (Gaussian integer) Hermitian positive definite matrix"""
    fams = ["gram", "gram", "tridiag", "diag", "unimod"] if n <= 6 else ["gram", "gram", "tridiag", "diag"]
    fam = family or rng.choice(fams)
    if fam == "gram":
        dens = 1.0 if n <= 8 else min(1.0, 3.0 / n)
        Mr = _randint_mat(rng, n, -2, 2, dens)
        Mi = _randint_mat(rng, n, -2, 2, dens) if cplx else np.zeros((n, n), dtype=np.int64)
        s = rng.choice([1, 2, n])
        re = Mr @ Mr.T + Mi @ Mi.T + s * np.eye(n, dtype=np.int64)
        im = Mi @ Mr.T - Mr @ Mi.T
    elif fam == "tridiag":
        re = np.diag([rng.choice([2, 3, 4]) for _ in range(n)]).astype(np.int64)
        im = np.zeros((n, n), dtype=np.int64)
        for i in range(n - 1):
            if cplx and rng.random() < 0.6:
                v = rng.choice([1, -1])
                im[i, i + 1], im[i + 1, i] = v, -v
            else:
                re[i, i + 1] = re[i + 1, i] = -1
    elif fam == "diag":
        top = rng.choice([4, 30, 1000])
        re = np.diag([rng.randint(1, top) for _ in range(n)]).astype(np.int64)
        im = np.zeros((n, n), dtype=np.int64)
    else:  # unimod: L L^H with unit lower triangular L; the inverse is (Gaussian) integer as well
        Lr = np.tril(_randint_mat(rng, n, -1, 1), -1) + np.eye(n, dtype=np.int64)
        Li = np.tril(_randint_mat(rng, n, -1, 1), -1) if cplx else np.zeros((n, n), dtype=np.int64)
        re = Lr @ Lr.T + Li @ Li.T
        im = Li @ Lr.T - Lr @ Li.T
    return re.tolist(), (im.tolist() if cplx else None), fam


def inv_exact(re, im):
    """exact inverse of re + i*im (Fractions) via the real embedding [[R,-I],[I,R]]; -> (re', im'|None) as strings"""
    n = len(re)
    cplx = im is not None
    N = 2 * n if cplx else n
    if cplx:
        E = [[Fraction(re[i][j]) for j in range(n)] + [-Fraction(im[i][j]) for j in range(n)] for i in range(n)] + \
            [[Fraction(im[i][j]) for j in range(n)] + [Fraction(re[i][j]) for j in range(n)] for i in range(n)]
    else:
        E = [[Fraction(v) for v in row] for row in re]
    aug = [row + [Fraction(int(i == j)) for j in range(N)] for i, row in enumerate(E)]
    for c in range(N):
        p = next(r for r in range(c, N) if aug[r][c] != 0)
        aug[c], aug[p] = aug[p], aug[c]
        pv = aug[c][c]
        aug[c] = [v / pv for v in aug[c]]
        for r in range(N):
            if r != c and aug[r][c] != 0:
                f = aug[r][c]
                aug[r] = [a - f * b for a, b in zip(aug[r], aug[c])]
    inv = [row[N:] for row in aug]
    ire = [[fstr(inv[i][j]) for j in range(n)] for i in range(n)]
    iim = [[fstr(inv[n + i][j]) for j in range(n)] for i in range(n)] if cplx else None
    return ire, iim


def _np(re, im):
    a = np.array([[float(F(v)) for v in r] for r in re])
    return a if im is None else a + 1j * np.array([[float(F(v)) for v in r] for r in im])


def _pow2(x):
    """nearest power of two as a Fraction (x > 0)"""
    e = int(round(math.log2(x))) if x > 0 and math.isfinite(x) else 0
    return Fraction(2) ** e


def _vec(rng, n, lo, hi, nonzero=True):
    while True:
        v = [rng.randint(lo, hi) for _ in range(n)]
        if not nonzero or any(v):
            return v


def precond(rng, n, cplx, Are):
    k = rng.choice(["none", "none", "jacobi", "intdiag", "spd"])
    if k == "none":
        return None, None, k
    zero = [[0] * n for _ in range(n)]
    if k == "jacobi":
        re = [[(f"1/{Are[i][i]}" if Are[i][i] != 1 else 1) if i == j else 0 for j in range(n)] for i in range(n)]
        return re, (zero if cplx else None), k
    if k == "intdiag":
        re = [[rng.randint(1, 4) if i == j else 0 for j in range(n)] for i in range(n)]
        return re, (zero if cplx else None), k
    re, im, _ = hpd(rng, n, cplx, "gram" if n > 6 else rng.choice(["gram", "tridiag"]))
    return re, im, k


def _controller(rng, ty, n, r0, rinf0, e0, estar, big, allow_none=True):
    """controller config with tolerances scaled to the problem (all dyadic).
    `iteration_limit=None` only where the criterion is reachable in floating point (else the real run would only stop
    when the energies underflow, after thousands of iterations)"""
    level = rng.choice([1, 1, 1, 2, 3])
    want_none = (not big) and allow_none and rng.random() < 0.2
    if big:
        limit = rng.randint(3, 14)
    elif rng.random() < 0.65:
        limit = rng.randint(0, max(1, n - 1))      # stops before exact termination (n steps) can occur
    else:
        limit = rng.randint(0, 2 * n + 4)
    limit = None if want_none else limit
    cj = dict(type=ty, level=level, limit=limit)
    kmax = 24 if rng.random() < 0.3 else 12
    if ty == "gradnorm":
        mode = rng.choice(["abs", "rel", "both", "none"]) if limit is not None else rng.choice(["abs", "rel", "both"])
        cj["tol_abs"] = fstr(_pow2(max(r0, 1e-3)) / 2 ** rng.randint(1, kmax)) if mode in ("abs", "both") else None
        cj["tol_rel"] = fstr(Fraction(rng.choice([1, 1, 1, 3, 5]), 2 ** rng.randint(1, kmax))) if mode in ("rel", "both") else None
    elif ty == "gradinf":
        base = _pow2(max(rinf0, 1e-3) / max(abs(estar), 1e-3))
        cj["tol"] = fstr(base / 2 ** rng.randint(1, 20))
    elif ty == "deltae":
        cj["tol"] = fstr(Fraction(1, 2 ** rng.randint(2, 30)))
    else:
        base = _pow2(max(abs(e0 - estar), 1e-3))
        cj["tol"] = fstr(base / 2 ** rng.randint(2, 30))
        if ty == "stochastic":
            cj["memlen"] = rng.choice([1, 2, 3, 5, 10])
    return cj


def cg_case(rng, nmax=8, nmin=1, ty=None):
    n = rng.randint(nmin, nmax)
    if nmin == 1 and n <= 2 and rng.random() < 0.6:
        n = rng.randint(3, nmax)               # tiny systems terminate exactly after n steps: keep them rarer
    big = n > 8
    cplx = rng.random() < 0.4
    re, im, fam = hpd(rng, n, cplx)
    ty = ty or rng.choice(CTRL_TYPES)
    bnone = rng.random() < 0.08
    x0zero = rng.random() < (0.15 if (ty == "deltae" or bnone) else 0.7)
    case = dict(op="cg", n=n, cplx=cplx, A=re, family=fam, hpd=True, klass="T")
    if cplx:
        case["Ai"] = im
    case["b"] = None if bnone else _vec(rng, n, -5, 5)
    case["x"] = [0] * n if x0zero else _vec(rng, n, -3, 3)
    if cplx:
        if not bnone:
            case["bi"] = _vec(rng, n, -5, 5, False)
        case["xi"] = [0] * n if x0zero else _vec(rng, n, -3, 3, False)
    Pre, Pim, pk = precond(rng, n, cplx, re)
    case["P"] = Pre
    if cplx and Pre is not None:
        case["Pi"] = Pim
    A = _np(re, im)
    b = np.zeros(n) if bnone else (np.array(case["b"], dtype=float) + (1j * np.array(case["bi"]) if cplx else 0))
    x0 = np.array(case["x"], dtype=float) + (1j * np.array(case["xi"]) if cplx else 0)
    g0 = A @ x0 - b
    xs = np.linalg.solve(A, b)
    e = lambda x: 0.5 * float(np.vdot(x, A @ x).real) - float(np.vdot(b, x).real)
    # b=None: the minimum energy is 0, relative criteria (DeltaEnergy, GradInfNorm) are never met -> always a limit
    case["ctrl"] = _controller(rng, ty, n, float(np.linalg.norm(g0)), float(np.max(np.abs(g0))) if n else 0.0,
                               e(x0), e(xs), big, allow_none=not bnone)
    case["nreset"] = rng.choice([1, 2, 3, 4, 5, 5, 20, 20, 0])
    if case["ctrl"]["limit"] is not None and rng.random() < 0.3:
        case["reuse"] = True        # the controller object has already been used for another run
    return case


def cg_reuse_cases(rng, count):
    """the controller object has served another run before; convergence_level >= 2 and tolerances loose enough to be
    met well before exact termination, so that leftover counters/tolerances/memory of the first run would show"""
    res = []
    for _ in range(count):
        c = cg_case(rng, nmax=7, nmin=4, ty=rng.choice(CTRL_TYPES))
        if c.get("b") is None:
            continue
        cj = c["ctrl"]
        cj["level"] = rng.choice([2, 2, 3])
        cj["limit"] = 2 * c["n"] + 6
        if cj["type"] == "gradnorm":
            cj["tol_abs"] = None
            cj["tol_rel"] = fstr(Fraction(1, 2 ** rng.randint(2, 7)))
        elif cj["type"] == "deltae":
            cj["tol"] = fstr(Fraction(1, 2 ** rng.randint(3, 10)))
        c["reuse"] = True
        c["family"] = str(c.get("family")) + ":reuse"
        res.append(c)
    return res


def cg_at_solution_cases(rng, count):
    """class E: the start position already solves the system exactly (b := A x0 in integers); a controller that does
    not stop in `start` then sends CG through its `previous_gamma == 0` exit"""
    res = []
    for _ in range(count):
        n = rng.randint(1, 4)
        cplx = rng.random() < 0.4
        re, im, fam = hpd(rng, n, cplx)
        xr = _vec(rng, n, -3, 3)
        xi = _vec(rng, n, -3, 3, False) if cplx else [0] * n
        imz = im if cplx else [[0] * n for _ in range(n)]
        br = [sum(re[i][j] * xr[j] - imz[i][j] * xi[j] for j in range(n)) for i in range(n)]
        bi = [sum(re[i][j] * xi[j] + imz[i][j] * xr[j] for j in range(n)) for i in range(n)]
        case = dict(op="cg", n=n, cplx=cplx, A=re, family="exact-at-solution", hpd=True, klass="E", b=br, x=xr, P=None)
        if cplx:
            case.update(Ai=im, bi=bi, xi=xi)
        ty = rng.choice(["deltae", "absdeltae", "stochastic", "gradnorm"])
        case["ctrl"] = _controller(rng, ty, n, 4.0, 4.0, 0.0, -4.0, False)
        if ty == "gradnorm":        # no tolerance: only the limit could stop it in `start`
            case["ctrl"].update(tol_abs=None, tol_rel=None, limit=rng.randint(1, 5))
        case["nreset"] = rng.choice([1, 5, 20])
        res.append(case)
    return res


def cg_exact_cases(rng, count):
    """class E: one CG step solves the system and every float operation on the way is exact"""
    res = []
    for _ in range(count):
        kind = rng.choice(["scalar", "eig", "eigc"])
        ty = rng.choice(CTRL_TYPES)
        if kind == "scalar":
            n = rng.randint(1, 4)
            cplx = rng.random() < 0.4
            lam = 2 ** rng.randint(0, 4)
            A = [[lam if i == j else 0 for j in range(n)] for i in range(n)]
            Ai = [[0] * n for _ in range(n)]
            b, bi = _vec(rng, n, -4, 4), _vec(rng, n, -4, 4, False)
        elif kind == "eig":
            n, cplx = 2, False
            A, Ai = [[3, 1], [1, 3]], None
            t = rng.choice([1, 2, 3, -2])
            b, bi = rng.choice([[t, t], [t, -t]]), None
        else:
            n, cplx = 2, True
            A, Ai = [[3, 0], [0, 3]], [[0, 1], [-1, 0]]
            t = rng.choice([1, 2, -3])
            # eigenvectors (1,-i) [4] and (1,i) [2]
            b, bi = ([t, 0], [0, -t]) if rng.random() < 0.5 else ([t, 0], [0, t])
        case = dict(op="cg", n=n, cplx=cplx, A=A, family="exact-" + kind, hpd=True, klass="E", b=b, x=[0] * n)
        if cplx:
            case.update(Ai=Ai, bi=bi, xi=[0] * n)
        if rng.random() < 0.3:
            p = 2 ** rng.randint(0, 2)
            case["P"] = [[p if i == j else 0 for j in range(n)] for i in range(n)]
            if cplx:
                case["Pi"] = [[0] * n for _ in range(n)]
        else:
            case["P"] = None
        case["ctrl"] = _controller(rng, ty, n, 4.0, 4.0, 0.0, -4.0, False)
        case["nreset"] = rng.choice([1, 2, 5, 20])
        res.append(case)
    return res


def cg_error_cases(rng, count):
    """operators / preconditioners that are not positive definite: the error exits (compared; no HPD claims)"""
    res = []
    for _ in range(count):
        kind = rng.choice(["negdef", "singular", "negprec", "indefprec", "indef"])
        n = rng.randint(2, 4)
        cplx = rng.random() < 0.3
        re, im, _ = hpd(rng, n, cplx, rng.choice(["gram", "tridiag", "diag"]))
        case = dict(op="cg", n=n, cplx=cplx, family="nonpd-" + kind, hpd=False, klass="T", P=None)
        zero = [[0] * n for _ in range(n)]
        b = _vec(rng, n, -4, 4)
        if kind == "negdef":
            re = [[-v for v in r] for r in re]
            im = None if im is None else [[-v for v in r] for r in im]
        elif kind == "singular":
            re = [[(1 if i == j and i == 0 else 0) for j in range(n)] for i in range(n)]
            im = zero if cplx else None
            b = [0] + _vec(rng, n - 1, 1, 3)
        elif kind == "negprec":
            case["P"] = [[-rng.randint(1, 3) if i == j else 0 for j in range(n)] for i in range(n)]
        elif kind == "indefprec":
            sg = [1] + [rng.choice([1, -1, -2]) for _ in range(n - 1)]
            case["P"] = [[sg[i] if i == j else 0 for j in range(n)] for i in range(n)]
        else:
            sg = [rng.choice([1, 2, -1, -3]) for _ in range(n)]
            re = [[sg[i] if i == j else 0 for j in range(n)] for i in range(n)]
            im = zero if cplx else None
        case["A"] = re
        case["b"] = b
        case["x"] = [0] * n
        if cplx:
            case["Ai"] = im
            case["bi"] = _vec(rng, n, -4, 4, False) if kind != "singular" else [0] * n
            case["xi"] = [0] * n
            if case["P"] is not None:
                case["Pi"] = zero
        case["ctrl"] = dict(type="gradnorm", tol_abs=fstr(Fraction(1, 2 ** 20)), tol_rel=None, level=1,
                            limit=rng.randint(1, 3))
        case["nreset"] = rng.choice([1, 2, 20])
        res.append(case)
    return res


# ------------------------------------------------------------------------------------------------------------------
# QuadraticEnergy
# ------------------------------------------------------------------------------------------------------------------
def qe_case(rng):
    n = rng.randint(1, 5)
    cplx = rng.random() < 0.4
    re, im, fam = hpd(rng, n, cplx)
    if rng.random() < 0.3:      # value/gradient bookkeeping does not need a definite (or even Hermitian) operator
        re = _randint_mat(rng, n, -4, 4).tolist()
        im = _randint_mat(rng, n, -4, 4).tolist() if cplx else None
        fam = "general"
    q = 4 if rng.random() < 0.3 else 1     # dyadic, not only integer, positions
    zero = [Fraction(0)] * n
    xr = [Fraction(t, q) for t in _vec(rng, n, -9, 9, False)]
    xi = [Fraction(t, q) for t in _vec(rng, n, -9, 9, False)] if cplx else zero
    bnone = rng.random() < 0.2
    br = zero if bnone else [Fraction(t) for t in _vec(rng, n, -6, 6, False)]
    bi = [Fraction(t) for t in _vec(rng, n, -6, 6, False)] if (cplx and not bnone) else zero
    case = dict(op="qe", n=n, cplx=cplx, A=re, family=fam, b=None if bnone else [fstr(t) for t in br],
                x=[fstr(t) for t in xr], g=None)
    if cplx:
        case["Ai"] = im
        case["xi"] = [fstr(t) for t in xi]
        if not bnone:
            case["bi"] = [fstr(t) for t in bi]
    u = rng.random()
    if u < 0.5:
        if u < 0.3:              # the consistent gradient A x - b (exact) ...
            imz = im if cplx else [[0] * n for _ in range(n)]
            gr = [sum(re[i][j] * xr[j] - imz[i][j] * xi[j] for j in range(n)) - br[i] for i in range(n)]
            gi = [sum(re[i][j] * xi[j] + imz[i][j] * xr[j] for j in range(n)) - bi[i] for i in range(n)]
            case["family"] = fam + ":consistent-grad"
        else:                    # ... or an arbitrary one (at_with_grad trusts its caller)
            gr = [Fraction(t) for t in _vec(rng, n, -9, 9, False)]
            gi = [Fraction(t) for t in _vec(rng, n, -9, 9, False)]
            case["family"] = fam + ":arbitrary-grad"
        case["g"] = [fstr(t) for t in gr]
        if cplx:
            case["gi"] = [fstr(t) for t in gi]
    return case


# ------------------------------------------------------------------------------------------------------------------
# controllers alone
# ------------------------------------------------------------------------------------------------------------------
def _dy(rng, bits=6, emin=-12, emax=4, signed=False, zero=0.05):
    if rng.random() < zero:
        return Fraction(0)
    v = Fraction(rng.randint(1, 2 ** bits - 1)) * Fraction(2) ** rng.randint(emin, emax)
    return -v if signed and rng.random() < 0.5 else v


def ctrl_case(rng, ty=None):
    ty = ty or rng.choice(CTRL_TYPES)
    L = rng.randint(1, 14)
    # a noisy "convergence history": gradient norms shrink, energies approach a floor, with plateaus and rebounds
    gn, val = [], []
    g = _dy(rng, 6, -2, 4, zero=0.02)
    estar = _dy(rng, 5, -3, 3, signed=True, zero=0.15)
    d = _dy(rng, 5, -3, 3, zero=0.05)
    for k in range(L):
        gn.append(g)
        val.append(estar + d)
        u = rng.random()
        if u < 0.55:
            g, d = g / 2 ** rng.randint(1, 3), d / 2 ** rng.randint(1, 4)
        elif u < 0.75:
            pass                                  # plateau: identical energies / norms
        elif u < 0.9:
            g, d = g * 2, d * 2                   # rebound
        else:
            g, d = _dy(rng, 6, -10, 2), _dy(rng, 5, -10, 2, signed=True)
    obs = []
    for a, v in zip(gn, val):
        ginf = a if rng.random() < 0.3 else a * Fraction(rng.randint(1, 8), 8)
        obs.append([fstr(a), fstr(ginf), fstr(v)])
    level = rng.choice([-1, 0, 1, 1, 1, 2, 2, 3, 4])
    limit = rng.choice([None, None, None, -1, 0, 1, 2, 3, 5, 8, 12])
    cj = dict(type=ty, level=level, limit=limit)
    pick = lambda lst: rng.choice(lst)
    if ty == "gradnorm":
        m = rng.choice(["abs", "rel", "both", "none"])
        ta = pick(gn) if rng.random() < 0.5 else _dy(rng, 4, -10, 3, signed=rng.random() < 0.1)
        tr = Fraction(1, 2 ** rng.randint(0, 8)) if rng.random() < 0.7 else _dy(rng, 3, -8, 0, signed=rng.random() < 0.1)
        cj["tol_abs"] = fstr(ta) if m in ("abs", "both") else None
        cj["tol_rel"] = fstr(tr) if m in ("rel", "both") else None
    elif ty == "gradinf":
        cj["tol"] = None if rng.random() < 0.08 else fstr(_dy(rng, 4, -8, 3, signed=rng.random() < 0.1))
    elif ty == "deltae":
        cj["tol"] = fstr(Fraction(1, 2 ** rng.randint(0, 10)) if rng.random() < 0.6 else _dy(rng, 4, -10, 1, signed=rng.random() < 0.1))
    else:
        diffs = [abs(a - b) for a, b in zip(val, val[1:])] or [Fraction(1)]
        cj["tol"] = fstr(pick(diffs) if rng.random() < 0.4 else _dy(rng, 4, -12, 3, signed=rng.random() < 0.1))
        if ty == "stochastic":
            cj["memlen"] = rng.choice([0, 1, 2, 3, 5, 10])
    case = dict(op="ctrl", ctrl=cj, obs=obs)
    if rng.random() < 0.25:          # the same object is started a second time after this earlier history
        k = rng.randint(1, 6)
        case["pre"] = [[fstr(_dy(rng, 5, -12, 2)), fstr(_dy(rng, 5, -12, 2)), fstr(_dy(rng, 5, -3, 3, signed=True))]
                       for _ in range(k)]
        for o in case["pre"]:
            o[1] = o[0]
    return case


def ctrl_first_near(case, margin):
    """index of the first call whose float decision may be affected by rounding (exact quantities via Fractions):
    decisions that involve more than a comparison of two given floats and lie within 1e-9 of the threshold"""
    cj = case["ctrl"]
    ty = cj["type"]
    obs = [[F(a), F(b), F(c)] for a, b, c in case["obs"]]
    eps = Fraction(1, 10 ** 9)

    def near(q, t, strict_ok=True):
        if q == t:
            return not strict_ok
        return abs(q - t) <= eps * max(abs(t), abs(q))
    for k, (gn, gi, v) in enumerate(obs):
        if ty == "gradnorm" and cj.get("tol_rel") is not None:
            if near(gn, F(cj["tol_rel"]) * obs[0][0]):
                return k
        elif ty == "gradinf" and cj.get("tol") is not None and v != 0:
            if near(gi / abs(v), F(cj["tol"])):
                return k
        elif ty == "deltae" and k > 0:
            den = max(abs(obs[k - 1][2]), abs(v))
            if den != 0 and near(abs(obs[k - 1][2] - v) / den, F(cj["tol"])):
                return k
        elif ty == "stochastic":
            ml = cj["memlen"]
            mem = [o[2] for o in obs[:k + 1]]
            if len(mem) > ml:
                mem = mem[len(mem) - ml:] if ml > 0 else []
            if mem:
                mu = sum(mem) / len(mem)
                var = sum((t - mu) ** 2 for t in mem) / len(mem)
                t = F(cj["tol"])
                if t > 0 and abs(var - t * t) <= 4 * eps * t * t:
                    return k
                if var == 0 and float(np.std([float(x) for x in mem])) != 0.0:
                    return k       # np.std of equal floats can be a rounding residue instead of 0
    return None


# ------------------------------------------------------------------------------------------------------------------
# InversionEnabler
# ------------------------------------------------------------------------------------------------------------------
def ie_cases(rng, count):
    res = []
    for _ in range(count):
        n = rng.choice([1, 2, 3, 3, 4, 4, 5, 5, 6])
        cplx = rng.random() < 0.4
        re, im, fam = hpd(rng, n, cplx, rng.choice(["unimod", "gram", "tridiag", "diag"]))
        ire, iim = inv_exact(re, im)
        if rng.random() < 0.45:     # the typical use: operator offers times/adjoint_times, inverse requested
            cap, mode = 3, rng.choice([4, 4, 8])
        else:
            cap = rng.choice([1, 2, 3, 4, 8, 12, 12, 5, 10, 6, 9, 15, 7])
            mode = rng.choice([1, 2, 4, 4, 8, 8, 3, 0])
        opm = dict(mat=re, inv=ire, cap=cap)
        if cplx:
            opm.update(mati=im, invi=iim)
        case = dict(op="ie", n=n, cplx=cplx, opm=opm, mode=mode, family=fam, hpd=True, klass="T")
        if rng.random() < 0.6:
            dg = [re[i][i] for i in range(n)]
            if n > 1 and rng.random() < 0.15:   # indefinite approximation: CG gives up ("Positive definiteness ...")
                dg = [d if rng.random() < 0.5 else -d for d in dg]
                case["hpd"] = False
                case["family"] = fam + ":indef-approx"
            dre = [[dg[i] if i == j else 0 for j in range(n)] for i in range(n)]
            dinv = [[(fstr(Fraction(1, dg[i]))) if i == j else 0 for j in range(n)] for i in range(n)]
            ap = dict(mat=dre, inv=dinv, cap=rng.choice([15, 15, 15, 15, 3, 12, 5, 10]))
            if cplx:
                z = [[0] * n for _ in range(n)]
                ap.update(mati=z, invi=z)
            case["approx"] = ap
        else:
            case["approx"] = None
        case["x"] = _vec(rng, n, -5, 5)
        if cplx:
            case["xi"] = _vec(rng, n, -5, 5, False)
        ty = rng.choice(["gradnorm"] * 6 + ["gradinf", "absdeltae", "stochastic", "deltae"])
        r0 = float(np.linalg.norm(case["x"]))
        case["ctrl"] = _controller(rng, ty, n, r0, r0, 0.0, -r0 * r0, False)
        if case["ctrl"]["limit"] is not None and rng.random() < 0.4:
            case["reuse"] = True          # second application of the same InversionEnabler (same controller object)
            if rng.random() < 0.5 and ty == "gradnorm":
                case["ctrl"]["level"] = 2
        res.append(case)
    return res


# ------------------------------------------------------------------------------------------------------------------
# shrinking
# ------------------------------------------------------------------------------------------------------------------
def _drop(rows, i):
    return None if rows is None else [[v for j, v in enumerate(r) if j != i] for k, r in enumerate(rows) if k != i]


def _dropv(v, i):
    return None if v is None else [t for j, t in enumerate(v) if j != i]


def shrink(case):
    op = case.get("op")
    if op == "ctrl":
        obs = case["obs"]
        for i in range(len(obs) - 1, 0, -1):
            yield dict(case, obs=obs[:i] + obs[i + 1:])
        return
    if op not in ("cg", "ie", "qe"):
        return
    n = case["n"]
    if n > 1:
        for i in range(n - 1, -1, -1):
            c = dict(case, n=n - 1)
            for k in ("A", "Ai", "P", "Pi"):
                if c.get(k) is not None:
                    c[k] = _drop(c[k], i)
            for k in ("b", "bi", "x", "xi", "g", "gi"):
                if c.get(k) is not None:
                    c[k] = _dropv(c[k], i)
            ok = True
            for k in ("opm", "approx"):
                if c.get(k) is not None:
                    o = {kk: (_drop(vv, i) if isinstance(vv, list) else vv) for kk, vv in c[k].items()}
                    try:        # the inverse of a principal submatrix is not the submatrix of the inverse
                        o["inv"], iim = inv_exact(o["mat"], o.get("mati"))
                        if iim is not None:
                            o["invi"] = iim
                    except StopIteration:
                        ok = False
                    c[k] = o
            if ok:
                yield c
    if case.get("cplx"):
        c = dict(case, cplx=False)
        for k in ("Ai", "bi", "xi", "Pi", "gi"):
            c.pop(k, None)
        ok = True
        for k in ("opm", "approx"):
            if c.get(k) is not None:
                o = {kk: vv for kk, vv in c[k].items() if kk not in ("mati", "invi")}
                try:
                    o["inv"], _ = inv_exact(o["mat"], None)
                except StopIteration:
                    ok = False
                c[k] = o
        if ok:
            yield c
    if case.get("P") is not None:
        c = dict(case, P=None)
        c.pop("Pi", None)
        yield c
    if op == "ie" and case.get("approx") is not None:
        yield dict(case, approx=None)
    if case.get("nreset") not in (None, 20):
        yield dict(case, nreset=20)
    if case.get("reuse"):
        yield {k: v for k, v in case.items() if k != "reuse"}
    cj = case.get("ctrl")
    if cj:
        if cj["level"] > 1:
            yield dict(case, ctrl=dict(cj, level=1))
        if cj.get("limit") is not None and cj["limit"] > 0:
            yield dict(case, ctrl=dict(cj, limit=cj["limit"] - 1))
        if cj["type"] == "gradnorm" and cj.get("tol_abs") is not None and cj.get("tol_rel") is not None:
            yield dict(case, ctrl=dict(cj, tol_rel=None))
    if case.get("x") is not None and any(F(t) != 0 for t in case["x"]) and op == "cg":
        c = dict(case, x=[0] * n)
        if c.get("xi") is not None:
            c["xi"] = [0] * n
        yield c
