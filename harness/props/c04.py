"""C04 — Fixing part of the input preserves value, Jacobian and metric (DESIGN.md §5 C04, design.d/C04.md)."""
import logging

import numpy as np

from translators import t2_pointwise
from core.ctx import REPO
from . import _c03_expr as X
from . import _c04_aux as AUX
from .c03 import quiet, close, embed_cols, err_site, names_meta

ID = "C04"
LEAN_MODULES = ["NiftyVerif.Core.Proto", "NiftyVerif.Model.Expr", "NiftyVerif.Model.ExprIO", "NiftyVerif.Model.PartialEval",
                "NiftyVerif.Props.C04", "NiftyVerif.Props.C04Metric", "NiftyVerif.Props.C04Ham", "NiftyVerif.Props.C04Keys", "NiftyVerif.Props.C04Presence"]
DRIVER = "Driver/C04.lean"
TRANSLATORS = [t2_pointwise.translate]
OBLIGATIONS = ["NiftyVerif.C04." + t for t in (
    "eval_congr", "lin_congr_env", "jac_congr", "pe_target", "pe_sound", "pe_jac", "jac_zero",
    "partialVar_grad_zero", "partialVar_eq_pe", "energyAdapter_constants", "adj_support", "pe_adj", "metric_congr",
    "metric_support", "pe_metric_partial", "hamiltonian_pe_offset_partial", "pe_keys", "cout_none", "metric_isSome_iff", "pe_isLH", "pe_metric_presence",
    "pe_metric_presence_witness")]
RULE = ("generated multi-domain operator/energy trees (as C03, >= 2 input keys) x EVERY non-empty proper subset of the "
        "operator's input keys as constants; per (tree, subset): real simplify_for_constant_input vs original with the "
        "constants inserted (value, dense Jacobian, adjoint, metric), EnergyAdapter(constants=...), make_partial_var, "
        "and the model's pe/linPartial (values, Jacobians, metric, constant leaves); non-trivial = the subset is a "
        "proper part of some sub-operator's keys or a sub-operator collapses to a constant; distinct by (tree, input, subset)")
TRUSTED_BASE = [
    "Lean 4.33 kernel + Mathlib; axioms propext/Classical.choice/Quot.sound only (audited every run)",
    "Model/Expr.lean + Model/PartialEval.lean are hand transcriptions (Linearization / _OpChain / _OpProd / _OpSum rules, "
    "simplify_for_constant_input generic rule and per-class rules, make_partial_var), tied by differential execution",
    "translator T2 for the point-wise table (see C03)",
    "harness: generators, dense extraction by basis probing, comparison (class T, 1e-9 relative)"]
ASSUMPTIONS = ["ConstCollector's constant output part is None for every library operator (all base cases return None); "
               "the model has no c_out — checked on every case (c_out must be None)",
               "_LikelihoodSum / operators without a class-specific rule use the InsertionOperator fallback; the model "
               "recurses instead (same value/Jacobian/metric; structure compared only when no InsertionOperator occurs)"]


def var_cols(din, S):
    cols, j = [], 0
    for k, n in X.flat_dom(din):
        for _ in range(X.nent(n)):
            if k not in S:
                cols.append(j)
            j += 1
    return cols


def real_case(case):
    """everything the REAL code says about (tree, x, S, wm); exceptions -> {"error": ...}"""
    import nifty.cl as ift
    logging.getLogger("NIFTy").setLevel(logging.ERROR)
    try:
        ift.logger.setLevel(logging.ERROR)
    except Exception:
        pass
    S = case["S"]
    try:
        with quiet():
            b = X.Builder(case["indom"], case.get("space", "U"))
            op = b.build(case["expr"])
            x = {k: np.array(v) for k, v in case["x"].items()}
            tdom = X.dom(case["expr"])
            wm = case["wm"]
            r0 = X.linearize(b, op, tdom, x, wm)
            din = r0["din"]
            p = b.point(x)
            if not b.single:
                p = p.extract(op.domain)
            cst = p.extract_by_keys(S)
            c_out, sop = op.simplify_for_constant_input(cst)
            # trivial paths of the generic rule: nothing constant, everything constant
            triv = []
            o_none = op.simplify_for_constant_input(None)
            if o_none[0] is not None or o_none[1] is not op:
                triv.append("simplify_for_constant_input(None) does not return (None, self)")
            if not b.single:
                c_all, op_all = op.simplify_for_constant_input(p)
                if len(op_all.domain.keys()) != 0:
                    triv.append("with every key constant the simplified operator still has input keys")
                else:
                    e0 = ift.full(op_all.domain, 0.)
                    la = op_all(ift.Linearization.make_var(e0, wm))
                    if not close(X.to_flat(la.val, tdom), r0["pval"], 1e-12) or not close(X.to_flat(op_all(e0), tdom), r0["pval"], 1e-12):
                        triv.append("with every key constant the simplified operator does not return the original value")
            dvar = {k: v for k, v in din.items() if k not in S}
            res = dict(orig=r0, triv=triv, din=din, dvar=dvar, c_out_none=c_out is None,
                       keys=sorted(sop.domain.keys()), target_same=sop.target is op.target)
            bv = X.Builder(dvar, case.get("space", "U"))
            res["simp"] = X.linearize(bv, sop, tdom, {k: x[k] for k in dvar}, wm)
            res["consts"] = X.walk_consts(sop)
            # structure is compared only where the model mirrors the real tree shape: no InsertionOperator fallback and
            # no n-ary linear SumOperator (the library flattens sums of linear operators, the model's `add` is binary)
            res["has_insertion"] = ("InsertionOperator" in repr(sop) or "SumOperator" in repr(op)
                                    or "VariableCovariance" in repr(op))
            # make_partial_var on the ORIGINAL operator
            lin = op(ift.Linearization.make_partial_var(p, S, wm))
            res["partial"] = dict(val=X.to_flat(lin.val, tdom), jac=X.dense(lin.jac, b, din, tdom),
                                  adj=X.dense(lin.jac.adjoint_times, b, tdom, din),
                                  metric=None if lin.metric is None else X.dense(lin.metric, b, din, din))
            # EnergyAdapter for scalar targets
            if list(tdom.items()) == [("", 0)]:
                ea = ift.EnergyAdapter(p, op, constants=S, want_metric=wm)
                g = ea.gradient
                res["ea"] = dict(value=float(ea.value), keys=sorted(ea.position.domain.keys()),
                                 pos=X.to_flat(ea.position, dvar), grad=X.to_flat(g, dvar),
                                 metric=None if ea.metric is None else X.dense(ea.metric, bv, dvar, dvar))
                # a step: the adapter at a moved position keeps the constants
                newpos = ea.position + (0.01 / (1.0 + float(np.max(np.abs(X.to_flat(g, dvar))) if X.nflat(dvar) else 0.0))) * g
                ea2 = ea.at(newpos)
                xfull = dict(x)
                nv, o = X.to_flat(newpos, dvar), 0
                for k, n in X.flat_dom(dvar):
                    xfull[k] = nv[o:o + X.nent(n)]
                    o += X.nent(n)
                res["ea"]["value2"] = float(ea2.value)
                res["ea"]["value2_ref"] = float(X.to_flat(op(b.point(xfull).extract(op.domain) if not b.single
                                                             else b.point(xfull)), tdom)[0])
            return res
    except Exception as e:
        return {"error": type(e).__name__, "msg": str(e)[:200], "where": err_site(e)}


def oracle(case):
    """the property on the REAL code only"""
    if "aux" in case:
        return AUX.oracle(case)
    r = real_case(case)
    sig = {"site": "simplify_for_constant_input"}
    if "error" in r:
        return (f"raised {r['error']} in {r.get('where')}: {r.get('msg')}", dict(sig, kind="error:" + r["error"], where=r.get("where")))
    o, s, S = r["orig"], r["simp"], case["S"]
    if r.get("triv"):
        return (r["triv"][0], dict(sig, kind="trivial-path"))
    cols = var_cols(r["din"], S)
    if r["keys"] != sorted(r["dvar"]):
        return (f"simplified operator reads {r['keys']}, expected {sorted(r['dvar'])}", dict(sig, kind="domain"))
    if not r["target_same"]:
        return ("target of the simplified operator differs", dict(sig, kind="target"))
    if not close(s["pval"], o["pval"], 1e-12) or not close(s["val"], o["val"], 1e-12):
        return ("value of the simplified operator differs from the original with the constants inserted", dict(sig, kind="value"))
    if not close(s["jac"], o["jac"][:, cols], 1e-11):
        return ("Jacobian of the simplified operator differs from the original's (variable columns)", dict(sig, kind="jacobian"))
    if not close(s["adj"], s["jac"].T, 1e-12):
        return ("adjoint Jacobian of the simplified operator is not the transpose", dict(sig, kind="adjoint"))
    if (s["metric"] is None) != (o["metric"] is None):
        return ("metric presence differs between simplified and original operator", dict(sig, kind="metric-presence"))
    if s["metric"] is not None and not close(s["metric"], o["metric"][np.ix_(cols, cols)], 1e-11):
        return ("metric of the simplified operator is not the variable block of the original metric", dict(sig, kind="metric"))
    # make_partial_var
    pv, sig2 = r["partial"], {"site": "make_partial_var"}
    Jz = o["jac"].copy()
    ccols = [j for j in range(Jz.shape[1]) if j not in cols]
    Jz[:, ccols] = 0
    if not close(pv["val"], o["val"], 1e-12):
        return ("make_partial_var: value differs", dict(sig2, kind="value"))
    if not close(pv["jac"], Jz, 1e-11) or not close(pv["adj"], Jz.T, 1e-11):
        return ("make_partial_var: Jacobian is not the original with the constant columns zeroed "
                "(gradient components of constant keys must vanish)", dict(sig2, kind="jacobian"))
    if (pv["metric"] is None) != (o["metric"] is None):
        return ("make_partial_var: metric presence differs", dict(sig2, kind="metric-presence"))
    if pv["metric"] is not None:
        Mz = o["metric"].copy()
        Mz[ccols, :] = 0
        Mz[:, ccols] = 0
        if not close(pv["metric"], Mz, 1e-11):
            return ("make_partial_var: metric is not the variable block", dict(sig2, kind="metric"))
    if "ea" in r:
        ea, sig3 = r["ea"], {"site": "EnergyAdapter"}
        if ea["keys"] != sorted(r["dvar"]):
            return (f"EnergyAdapter position has keys {ea['keys']}, expected {sorted(r['dvar'])}", dict(sig3, kind="position"))
        xv = np.concatenate([np.asarray(case["x"][k], dtype=float) for k, _ in X.flat_dom(r["dvar"])]) if r["dvar"] else np.zeros(0)
        if not close(ea["pos"], xv, 1e-15):
            return ("EnergyAdapter changed the variable part of the position", dict(sig3, kind="position"))
        if not close([ea["value"]], o["pval"], 1e-12):
            return ("EnergyAdapter value differs from the operator at the full position", dict(sig3, kind="value"))
        if not close(ea["grad"], o["adj"][cols, 0], 1e-11):
            return ("EnergyAdapter gradient is not the variable part of the full gradient", dict(sig3, kind="gradient"))
        if (ea["metric"] is None) != (o["metric"] is None):
            return ("EnergyAdapter metric presence differs", dict(sig3, kind="metric-presence"))
        if ea["metric"] is not None and not close(ea["metric"], o["metric"][np.ix_(cols, cols)], 1e-11):
            return ("EnergyAdapter metric is not the variable block", dict(sig3, kind="metric"))
        if not close([ea["value2"]], [ea["value2_ref"]], 1e-11):
            return ("EnergyAdapter.at(new position) lost or changed the constants", dict(sig3, kind="at"))
    return None


def canon_consts(lst):
    """[(energy, {key: [vals]})] -> sorted list of (energy, keys, rounded |values|).  Sign-insensitive: the library builds
    `a - b` as `_OpSum(a, ScalingOperator(-1) @ b)`, so a collapsed subtrahend holds `-b(c)` where the model's `sub` node
    holds `b(c)`; signs are covered by the behavioural comparison."""
    out = []
    for en, vals in lst:
        flat = tuple(round(abs(float(v)), 9) for k in sorted(vals) for v in vals[k])
        out.append((bool(en), flat))      # key names are not compared (helper keys of einsum operands, ducktapes)
    return sorted(out)


def compare(ctx, case, r, m):
    nontriv = bool(r.get("consts")) if "error" not in r else True
    ctx.case(case, nontrivial=nontriv)
    if "error" in r or "error" in m:
        if not ("error" in r and "error" in m):
            ctx.disagree(case, r if "error" in r else "values", m if "error" in m else "values", "pe: error vs value")
        return
    s, din, dvar = r["simp"], r["din"], r["dvar"]
    nv, nout, nin = X.nflat(dvar), X.nflat(X.dom(case["expr"])), X.nflat(din)
    diffs = []
    if sorted(m["keys"]) != r["keys"]:
        diffs.append(f"keys read (model {m['keys']} real {r['keys']})")
    if not close(s["val"], X.dec(m["val"])):
        diffs.append("value")
    if not close(s["jac"], X.dec2(m["jac"], nout).T if nv else np.zeros((nout, 0))):
        diffs.append("jacobian")
    if not close(s["adj"], X.dec2(m["adj"], nv).T if nout else np.zeros((nv, 0))):
        diffs.append("adjoint")
    if (s["metric"] is None) != (m["metric"] is None):
        diffs.append("metric presence")
    elif s["metric"] is not None and not close(s["metric"], X.dec2(m["metric"], nv).T):
        diffs.append("metric")
    pv = r["partial"]
    if not close(pv["val"], X.dec(m["pval"])):
        diffs.append("partial-var value")
    if not close(pv["jac"], X.dec2(m["pjac"], nout).T):
        diffs.append("partial-var jacobian")
    if not close(pv["adj"], X.dec2(m["padj"], nin).T):
        diffs.append("partial-var adjoint")
    if (pv["metric"] is None) != (m["pmetric"] is None):
        diffs.append("partial-var metric presence")
    elif pv["metric"] is not None and not close(pv["metric"], X.dec2(m["pmetric"], nin).T):
        diffs.append("partial-var metric")
    if not r["has_insertion"]:
        mc = canon_consts([(en, {k: X.dec(v).tolist() for k, v in parts}) for en, parts in m["consts"]])
        rc = canon_consts(r["consts"])
        if mc != rc:
            diffs.append(f"constant leaves (model {len(mc)} real {len(rc)})")
    if diffs:
        ctx.disagree(case, "real: " + "; ".join(diffs), "model", note="partial evaluation: " + "; ".join(d.split(" (")[0] for d in diffs))


def shrink(case):
    if case.get("aux") == "jaxsimp":
        if case.get("wm"):
            yield dict(case, wm=False)
        return
    if case.get("aux") == "sea":
        if case["nsamp"] > 1:
            yield dict(case, nsamp=1)
        if case.get("mirror"):
            yield dict(case, mirror=False)
        return
    if "aux" in case:
        if case["n"] > 1:
            m = case["n"] - 1
            yield dict(case, n=m, r=case["r"][:m], i=case["i"][:m], d=case["d"][:m])
        if case.get("wm"):
            yield dict(case, wm=False)
        return
    S = case.get("S", [])
    if len(S) > 1:
        for k in S:
            yield dict(case, S=[q for q in S if q != k])
    if case.get("wm"):
        yield dict(case, wm=False)


def gen_cases(ctx, n):
    names, _ = names_meta()
    gen = X.Gen(ctx.rng, names)
    out = []
    tries = 0
    while len(out) < n and tries < 40 * n:
        tries += 1
        # every third tree: multi-domain targets with key-separated dependencies (constant-output part of products / sums)
        c = gen.mdconst_case(max_nodes=ctx.n(26, 30)) if tries % 3 == 0 else gen.case(max_nodes=ctx.n(14, 18))
        if list(c["indom"]) == [""]:
            continue
        keys = sorted(set(X.keys_read(c["expr"])) & set(c["indom"]))
        if len(keys) < 2:
            continue
        for S in X.subsets(keys):
            out.append(dict(c, S=S))
    return out[:max(n, 1)] if len(out) > 3 * n else out


def run(ctx):
    import glob, json, os
    from core.ctx import VERIF
    cases, aux = [], []
    for pth in sorted(glob.glob(os.path.join(VERIF, "corpus", ID, "*.json"))):
        c = json.load(open(pth))["case"]
        (aux if "aux" in c else cases).append(c)
    # per-class rules outside the Lean model (VariableCovarianceGaussianEnergy, StandardHamiltonian): oracle on the real code
    aux += AUX.gen(ctx.rng, ctx.n(60, 600))
    aux += AUX.gen_sea(ctx.rng, ctx.n(12, 120))
    aux += AUX.gen_jax(ctx.rng, ctx.n(8, 60))
    for c in aux:
        ctx.stat("aux:" + c["aux"])
        ctx.case(c, nontrivial=True)
        res = AUX.oracle(c)
        if res:
            ctx.counterexample(c, *res)
    cases += gen_cases(ctx, ctx.n(160, 1000))
    reals, reqs = [], []
    for c in cases:
        r = real_case(c)
        reals.append(r)
        ctx.stat("subset-size:%d" % len(c["S"]))
        ctx.stat("wm:" + str(c["wm"]))
        for nd in X.nodes(c["expr"]):
            ctx.stat("node:" + nd["t"])
        if "error" in r:
            ctx.stat("real-error:" + r["error"])
            din = c["indom"]
        else:
            din = r["din"]
            ctx.stat("consts:%d" % len(r["consts"]))
            ctx.stat("insertion-fallback:" + str(r["has_insertion"]))
            ctx.stat("c_out:" + ("None" if r["c_out_none"] else "some"))
            ctx.stat("energy-adapter:" + str("ea" in r))
            if not r["c_out_none"]:
                ctx.disagree(c, "c_out is not None", "model has no constant output part", "ConstCollector produced a constant output")
        reqs.append(dict(op="pe", **{"in": [[k, n] for k, n in X.flat_dom(din)]}, x={k: X.enc(c["x"][k]) for k in din},
                         ck=c["S"], wm=c["wm"], expr=X.ship(c["expr"])))
    outs = []
    B = 250
    for i in range(0, len(reqs), B):
        outs += ctx.model(DRIVER, reqs[i:i + B])
    for c, r, m in zip(cases, reals, outs):
        compare(ctx, c, r, m)
        res = oracle(c)
        if res:
            ctx.counterexample(c, *res)


def search(ctx):
    for c in gen_cases(ctx, ctx.n(150, 1500)):
        r = oracle(c)
        if r:
            ctx.counterexample(c, *r)
            return
