"""Shared helpers of the `prob` group (C18, C19, C20, C29, C32, C34): exact rationals <-> floats, tolerant
comparison (class T), safe calls into the real code, small exact linear algebra on Fractions."""
from fractions import Fraction
import math

_JAX_READY = False


def jax_setup():
    """x64 before any use of jax (CONTRIBUTING: JAX rule)"""
    global _JAX_READY
    import jax
    if not _JAX_READY:
        jax.config.update("jax_enable_x64", True)
        _JAX_READY = True
    return jax


def fr(x):
    """exact rational of a float / int / 'p/q' string / Fraction"""
    if isinstance(x, Fraction):
        return x
    if isinstance(x, str):
        return Fraction(x)
    if isinstance(x, int):
        return Fraction(x)
    return Fraction(float(x))


def rs(x):
    """'p/q' string of the exact value of x"""
    f = fr(x)
    return str(f.numerator) if f.denominator == 1 else f"{f.numerator}/{f.denominator}"


def rsl(xs):
    return [rs(x) for x in xs]


def fl(x):
    """float of a 'p/q' string / Fraction (exact when dyadic and in range)"""
    f = fr(x)
    return f.numerator / f.denominator


def fll(xs):
    return [fl(x) for x in xs]


def dyadic(rng, lo, hi, bits=3, nonzero=False):
    """random dyadic rational k/2^bits in [lo,hi]"""
    q = 1 << bits
    while True:
        k = rng.randint(int(lo * q), int(hi * q))
        if k != 0 or not nonzero:
            return Fraction(k, q)


def close(v, m, scale=1.0, rtol=1e-9):
    """class-T comparison |v-m| <= rtol*(|m|+scale); NaN never close"""
    v = float(v)
    m = float(m)
    if math.isnan(v) or math.isnan(m):
        return False
    return abs(v - m) <= rtol * (abs(m) + scale)


def allclose(vs, ms, scale=None, rtol=1e-9):
    vs = [float(v) for v in vs]
    ms = [float(m) for m in ms]
    if len(vs) != len(ms):
        return False
    if scale is None:
        scale = max([1e-300] + [abs(m) for m in ms])
    return all(close(v, m, scale, rtol) for v, m in zip(vs, ms))


def maxerr(vs, ms):
    vs = [float(v) for v in vs]
    ms = [float(m) for m in ms]
    if len(vs) != len(ms):
        return float("inf")
    e = 0.0
    for v, m in zip(vs, ms):
        d = abs(v - m)
        if math.isnan(d):
            return float("inf")
        e = max(e, d)
    return e


def safe(f, *a, **k):
    """call into the real code; exceptions become canonical error kinds"""
    try:
        return f(*a, **k)
    except Exception as e:  # noqa: BLE001
        return {"error": type(e).__name__}


def is_err(x):
    return isinstance(x, dict) and "error" in x


# ---- exact linear algebra on Fractions (reference solves done by the harness for oracles) ------------------
def mat_mul(A, B):
    n, m, p = len(A), len(B), len(B[0]) if B else 0
    return [[sum(A[i][k] * B[k][j] for k in range(m)) for j in range(p)] for i in range(n)]


def mat_T(A):
    return [list(r) for r in zip(*A)] if A else []


def mat_vec(A, x):
    return [sum(a * b for a, b in zip(r, x)) for r in A]


def solve(A, b):
    """Gauss-Jordan with exact Fractions; A square invertible; b vector or matrix (list of rows)"""
    n = len(A)
    vec = not isinstance(b[0], list)
    B = [[x] for x in b] if vec else [list(r) for r in b]
    M = [list(map(Fraction, A[i])) + list(map(Fraction, B[i])) for i in range(n)]
    for c in range(n):
        p = next((r for r in range(c, n) if M[r][c] != 0), None)
        if p is None:
            raise ZeroDivisionError("singular")
        M[c], M[p] = M[p], M[c]
        pv = M[c][c]
        M[c] = [x / pv for x in M[c]]
        for r in range(n):
            if r != c and M[r][c] != 0:
                f = M[r][c]
                M[r] = [x - f * y for x, y in zip(M[r], M[c])]
    X = [row[n:] for row in M]
    return [r[0] for r in X] if vec else X


def inv(A):
    n = len(A)
    return solve(A, [[Fraction(int(i == j)) for j in range(n)] for i in range(n)])


def eye(n):
    return [[Fraction(int(i == j)) for j in range(n)] for i in range(n)]
