"""C05 — Operator-tree optimisation preserves semantics (DESIGN.md §5 C05, design.d/C05.md)."""
import json
import os
import warnings

import numpy as np

from core.ctx import VERIF

ID = "C05"
LEAN_MODULES = ["NiftyVerif.Props.C05", "NiftyVerif.Model.TreeShareDriver", "NiftyVerif.Core.Proto"]
DRIVER = "Driver/C05.lean"
OBLIGATIONS = ["NiftyVerif.C05." + t for t in (
    "subst_letFree", "inlineAll_letFree", "share_sound", "inlineAll_sound", "isSharingOf_sound", "isSharingOf_jac",
    "mem_keys_subst", "keys_inlineAll", "isSharingOf_dom", "share_inverse", "shareAll_letFree", "mem_keys_shareAll",
    "share_step_accepted")]
RULE = ("construction scripts of sum/product/chain trees over keys a,b,c with shared leaves and shared sub-trees (object "
        "identity preserved: an operator built once may be used several times); the REAL optimise_operator is run, original "
        "and optimised trees are serialised and the verified Lean checker validates the pair; value and Jacobian are "
        "compared at several integer inputs; non-trivial = the optimiser inserted at least one key; distinct by script")
TRUSTED_BASE = [
    "Lean 4.33 kernel; axioms propext/Classical.choice/Quot.sound only (audited every run)",
    "serialiser of operator objects into the expression language (harness); validated every run by evaluating the "
    "serialised original AND optimised tree in the Lean model (exact rationals) against the real operators' values",
    "NIFTy's Linearization computes Jacobians by pushing (value, jacobian) through the same tree (so that the theorem "
    "about arbitrary value domains covers Jacobians); additionally compared numerically here",
]
ASSUMPTIONS = [
    "the optimiser's algorithm (id()-keyed in-place surgery) is not transcribed: each output is validated by the verified "
    "checker (translation validation); termination and deep-copy hygiene are exercised, not proved",
    "leaves are opaque unary operators (4 polynomial kinds and one linear kind) on one domain",
]

KEYS = ["a", "b", "c"]
_ENV = {}


def env():
    if not _ENV:
        import nifty.cl as ift
        from nifty.cl.operators.operator import _OpChain, _OpProd, _OpSum
        from nifty.cl.operators.chain_operator import ChainOperator
        from nifty.cl.operators.operator_adapter import OperatorAdapter
        from nifty.cl.operators.endomorphic_operator import EndomorphicOperator
        dom = ift.DomainTuple.make(ift.UnstructuredDomain(3))

        class NL(ift.Operator):
            """tagged non-linear leaf; kind = tag % 5"""

            def __init__(self, tag):
                self._domain = self._target = dom
                self._vtag = tag

            def apply(self, x):
                self._check_input(x)
                k = self._vtag % 5
                if k == 0:
                    return x * x + x
                if k == 1:
                    return x * x * x
                if k == 2:
                    return x + x
                return x * x - x

            def __repr__(self):
                return f"NL{self._vtag}"

        class LL(EndomorphicOperator):
            """tagged linear leaf: x -> 3 x (never merged by ChainOperator.simplify)"""

            def __init__(self, tag):
                self._domain = dom
                self._capability = self.TIMES | self.ADJOINT_TIMES
                self._vtag = tag

            def apply(self, x, mode):
                self._check_input(x, mode)
                return x * 3.

            def __repr__(self):
                return f"LL{self._vtag}"

        _ENV.update(ift=ift, dom=dom, NL=NL, LL=LL, OpChain=_OpChain, OpProd=_OpProd, OpSum=_OpSum, ChainOperator=ChainOperator,
                    OperatorAdapter=OperatorAdapter)
    return _ENV


# ------------------------------------------------------------------------------------------------------------
# construction scripts
# ------------------------------------------------------------------------------------------------------------
def gen_script(rng, nsteps):
    """steps: ["var", key] | ["leaf", tag, j] | ["add", j, k] | ["mul", j, k]; operand indices refer to earlier steps, so one
    object can be used several times; the result is the last step. `lin[i]`: step i is a LinearOperator (not summed)."""
    steps, lin = [], []
    tag = [0]

    def new_leaf(j):
        used = [st[1] for st in steps if st[0] == "leaf"]
        if used and rng.random() < 0.25:
            # the SAME operator object once more (same tag = same object, see `build`), on this or on another input
            t = rng.choice(used)
            steps.append(["leaf", t, j])
            lin.append(lin[j] and t % 5 == 4)
            return len(steps) - 1
        t = tag[0]
        tag[0] += 1
        if rng.random() < 0.2:
            t = t - (t % 5) + 4 if t % 5 != 4 else t     # linear kind
            t = max(t, 4)
        elif t % 5 == 4:
            t += 1
        tag[0] = max(tag[0], t + 1)
        steps.append(["leaf", t, j])
        lin.append(lin[j] and t % 5 == 4)
        return len(steps) - 1

    for k in rng.sample(KEYS, rng.choice([1, 2, 2, 3])):
        steps.append(["var", k])
        lin.append(True)
        new_leaf(len(steps) - 1)
    while len(steps) < nsteps:
        r = rng.random()
        # prefer recent results so that trees get deep, but reuse older ones to create sharing
        def pick():
            n = len(steps)
            return rng.randrange(n) if rng.random() < 0.45 else rng.randrange(max(0, n - 3), n)
        if r < 0.3:
            new_leaf(pick())
        else:
            j, k = pick(), pick()
            kind = "add" if r < 0.65 else "mul"
            if kind == "add" and (lin[j] or lin[k]):
                continue
            if steps[j][0] == "var" or steps[k][0] == "var":
                continue
            steps.append([kind, j, k])
            lin.append(False)
    if steps[-1][0] not in ("add", "mul"):
        # make the result a node over non-linear operands
        cands = [i for i in range(len(steps)) if not lin[i]]
        if len(cands) >= 1:
            steps.append(["mul", rng.choice(cands), rng.choice(cands)])
            lin.append(False)
        else:
            # only linear chains so far: a product of two of them is a node
            cands = [i for i in range(len(steps)) if steps[i][0] == "leaf"]
            steps.append(["mul", rng.choice(cands), rng.choice(cands)])
            lin.append(False)
    return steps


def gen_staggered(rng):
    """three or more leaf chains over the same base that agree to DIFFERENT depths (P@Q@x, R@Q@x, S@x, Q@x itself, ...), combined
    in a random order and tree shape; several such groups at once; chains of different lengths where one is a prefix of another"""
    steps = []
    nexttag = [0]

    def leaf(j, linear=False):
        used = [st[1] for st in steps if st[0] == "leaf" and (st[1] % 5 == 4) == linear]
        if used and rng.random() < 0.2:
            steps.append(["leaf", rng.choice(used), j])       # the same operator object again (possibly on another input)
            return len(steps) - 1
        t = nexttag[0]
        while (t % 5 == 4) != linear:
            t += 1
        nexttag[0] = t + 1
        steps.append(["leaf", t, j])
        return len(steps) - 1

    group_tops = []
    for key in rng.sample(KEYS, rng.choice([1, 1, 2])):
        steps.append(["var", key])
        base = len(steps) - 1
        depth = rng.choice([1, 2, 3, 4])
        prefix = [base]
        for _ in range(depth):
            prefix.append(leaf(prefix[-1]))
        tops = []
        nchains = rng.choice([3, 3, 4, 5])
        divs = [rng.randrange(0, depth + 1) for _ in range(nchains)]
        if rng.random() < 0.7:
            divs[rng.randrange(nchains)] = depth          # one chain is the full prefix (possibly with own leaves on top)
        if rng.random() < 0.7:
            divs[rng.randrange(nchains)] = rng.choice([0, 1]) if depth >= 1 else 0   # an early-diverging chain
        for dv in divs:
            j = prefix[dv]
            own = rng.choice([0, 1, 1, 2]) if dv >= 1 else rng.choice([1, 2])
            for q in range(own):
                j = leaf(j, linear=(own == 2 and q == 0 and rng.random() < 0.4))
            tops.append(j)
        rng.shuffle(tops)
        if rng.random() < 0.3:
            tops.append(rng.choice(tops))      # the same chain object below two parents
        group_tops.append(tops)
    results = []
    for tops in group_tops:
        if rng.random() < 0.5:
            cur = tops[0]
            for t in tops[1:]:
                steps.append([rng.choice(["add", "mul"]), cur, t] if rng.random() < 0.5 else [rng.choice(["add", "mul"]), t, cur])
                cur = len(steps) - 1
        else:
            layer = list(tops)
            while len(layer) > 1:
                nxt = []
                for i in range(0, len(layer) - 1, 2):
                    steps.append([rng.choice(["add", "mul"]), layer[i], layer[i + 1]])
                    nxt.append(len(steps) - 1)
                if len(layer) % 2:
                    nxt.append(layer[-1])
                layer = nxt
            cur = layer[0]
        results.append(cur)
    cur = results[0]
    for r in results[1:]:
        steps.append([rng.choice(["add", "mul"]), cur, r])
        cur = len(steps) - 1
    if steps[-1][0] not in ("add", "mul"):
        steps.append(["mul", cur, cur])
    return steps


def build(steps):
    E = env()
    ift = E["ift"]
    ops, leafobj = [], {}
    for s in steps:
        if s[0] == "var":
            ops.append(ift.FieldAdapter(E["dom"], s[1]))
        elif s[0] == "leaf":
            if s[1] not in leafobj:      # one operator object per tag: a tag used twice is the same object used twice
                leafobj[s[1]] = E["LL"](s[1]) if s[1] % 5 == 4 else E["NL"](s[1])
            ops.append(leafobj[s[1]] @ ops[s[2]])
        elif s[0] == "add":
            ops.append(ops[s[1]] + ops[s[2]])
        elif s[0] == "mul":
            ops.append(ops[s[1]] * ops[s[2]])
        else:
            raise ValueError("bad step")
    return ops[-1]


def expand(steps):
    """the expression the script denotes (pure tree, no sharing)"""
    ex = []
    for s in steps:
        if s[0] == "var":
            ex.append({"v": KEYS.index(s[1])})
        elif s[0] == "leaf":
            ex.append({"l": s[1], "a": ex[s[2]]})
        elif s[0] == "add":
            ex.append({"+": [ex[s[1]], ex[s[2]]]})
        else:
            ex.append({"*": [ex[s[1]], ex[s[2]]]})
    return ex[-1]



# ------------------------------------------------------------------------------------------------------------
# library models (every operator class that occurs there is an opaque tagged leaf for the serialiser)
# ------------------------------------------------------------------------------------------------------------
LIB_KINDS = ["cf1", "cf2", "matern", "simple", "harmonic", "energy"]


def build_lib(cfg):
    """a model built from library components only; `cfg` = dict(kind=, form=, n=, seed=)"""
    E = env()
    ift = E["ift"]
    kind, form, n = cfg["kind"], cfg.get("form", 0), cfg.get("n", 8)
    rs = np.random.default_rng(cfg.get("seed", 0))
    if kind in ("cf1", "cf2", "matern"):
        cfm = ift.CorrelatedFieldMaker("p")
        if kind == "matern":
            cfm.add_fluctuations_matern(ift.RGSpace(n), (1., .2), (.5, .2), (-3., .5))
        else:
            cfm.add_fluctuations(ift.RGSpace(n), (1., .1), (1., .1), (1., .1), (-3., .5))
        if kind == "cf2":
            cfm.add_fluctuations(ift.RGSpace(4), (1., .1), (1., .1), None, (-2., .5), prefix="t")
        cfm.set_amplitude_total_offset(0.3, (1., .1))
        f = cfm.finalize(0)
    elif kind == "simple":
        f = ift.SimpleCorrelatedField(ift.RGSpace(n), 0.2, (1., .1), (1., .1), (1., .1), (1., .1), (-3., .5))
    elif kind == "harmonic":
        sp = ift.RGSpace(n)
        hsp = sp.get_default_codomain()
        amp = ift.makeOp(ift.makeField(hsp, rs.uniform(.5, 1.5, n)))
        f = ift.HartleyOperator(hsp, sp) @ amp @ ift.FieldAdapter(hsp, "xi")
        f = f * ift.FieldAdapter(sp, "b").ptw("exp") + f
    elif kind == "energy":
        sp = ift.RGSpace(n)
        g = ift.FieldAdapter(sp, "a") * ift.FieldAdapter(sp, "b").ptw("tanh")
        lam = g.ptw("exp")
        d = ift.makeField(sp, rs.poisson(3., n).astype(np.int64))
        e1 = ift.PoissonianEnergy(d) @ lam
        e2 = ift.GaussianEnergy(ift.makeField(sp, rs.normal(size=n))) @ (g + lam)
        if form % 2 == 0:
            return e1 + e2
        return e1 + e2 + ift.GaussianEnergy(None, domain=sp) @ g
    else:
        raise ValueError("unknown library model " + str(kind))
    form = form % 5
    if form == 0:
        return f.ptw("exp") * f.ptw("sigmoid") + f
    if form == 1:
        return f * f + f.ptw("tanh")
    if form == 2:
        w = ift.makeOp(ift.makeField(f.target, rs.uniform(.5, 1.5, f.target.shape)))
        return (w @ f) + f.ptw("exp") * (w @ f)
    if form == 3:
        return f.ptw("exp") + f.ptw("exp")
    return (f + f.ptw("exp")) * (f + f.ptw("exp")).ptw("tanh")


def has_node(op):
    """does the optimiser see at least one _OpSum/_OpProd (the root, or an element of the root chain)?"""
    E = env()
    nd = (E["OpSum"], E["OpProd"])
    return isinstance(op, nd) or (isinstance(op, E["OpChain"]) and any(isinstance(o, nd) for o in op._ops))


def is_structural(o):
    E = env()
    return isinstance(o, (E["OpSum"], E["OpProd"], E["OpChain"], E["ChainOperator"]))


def tag_leaves(op):
    """give every non-structural operator object of an (unoptimised) tree a `_vtag` (kept by deepcopy); a FieldAdapter at the
    end of a chain (or standing alone) is a variable and stays untagged; returns {tag: class name}"""
    E = env()
    ift = E["ift"]
    tags, seen = {}, set()

    def tag(o):
        if not hasattr(o, "_vtag"):
            o._vtag = 1000 + 5 * len(tags)
            tags[o._vtag] = type(o).__name__

    def walk(o, is_input):
        if id(o) in seen and is_structural(o):
            return
        seen.add(id(o))
        if isinstance(o, (E["OpSum"], E["OpProd"])):
            walk(o._op1, True)
            walk(o._op2, True)
        elif isinstance(o, (E["OpChain"], E["ChainOperator"])):
            for i, x in enumerate(o._ops):
                walk(x, is_input and i == len(o._ops) - 1)
        elif type(o) is ift.FieldAdapter and is_input:
            pass
        else:
            tag(o)
    walk(op, True)
    return tags


class Unserialisable(Exception):
    pass


class Ser:
    """operator object -> expression JSON; inserted FieldAdapter names are numbered 100, 101, .. by first occurrence"""

    def __init__(self, keys=None):
        self.names = {k: i for i, k in enumerate(KEYS if keys is None else keys)}
        self.nkeys = len(self.names)

    def key(self, name):
        if name not in self.names:
            self.names[name] = 100 + len(self.names) - self.nkeys
        return self.names[name]

    def fa_name(self, o):
        ks = list(o.domain.keys())
        if len(ks) != 1:
            raise Unserialisable("FieldAdapter with several keys")
        return ks[0]

    def ser(self, o):
        E = env()
        ift = E["ift"]
        if isinstance(o, E["OpSum"]):
            return {"+": [self.ser(o._op1), self.ser(o._op2)]}
        if isinstance(o, E["OpProd"]):
            return {"*": [self.ser(o._op1), self.ser(o._op2)]}
        if isinstance(o, (E["OpChain"], E["ChainOperator"])):
            return self.chain(list(o._ops))
        if hasattr(o, "_vtag"):
            return {"l": int(o._vtag), "a": self.inputs(o)}
        if type(o) is ift.FieldAdapter:
            return {"v": self.key(self.fa_name(o))}
        raise Unserialisable("node " + type(o).__name__)

    def inputs(self, o):
        """a tagged leaf that reads the environment directly: the tuple of the keys of its domain"""
        E = env()
        ift = E["ift"]
        if not isinstance(o.domain, ift.MultiDomain):
            raise Unserialisable("leaf " + type(o).__name__ + " at the end of a chain does not read keys")
        ks = sorted(o.domain.keys())
        if not ks:
            raise Unserialisable("leaf without input keys")
        for k in ks:
            if k not in self.names:
                raise Unserialisable("leaf reads the unknown key " + str(k))
        e = {"v": self.names[ks[-1]]}
        for k in reversed(ks[:-1]):
            e = {"pair": [{"v": self.names[k]}, e]}
        return e

    def chain(self, ops):
        E = env()
        ift = E["ift"]
        flat = []
        for o in ops:    # nested chains mean the same as the flattened chain
            if isinstance(o, (E["OpChain"], E["ChainOperator"])) and len(ops) > 1:
                flat.extend(o._ops)
            else:
                flat.append(o)
        if len(flat) != len(ops):
            return self.chain(flat)
        if len(ops) == 1:
            return self.ser(ops[0])
        last = ops[-1]
        if isinstance(last.target, ift.MultiDomain) and not hasattr(last, "_vtag"):
            k, bound = self.envbuilder(last)
            return {"let": k, "b": bound, "in": self.chain(ops[:-1])}
        # an environment builder without pass-through keys is flattened into the chain:
        #   [core.., FieldAdapter(name).adjoint, sub..]  =  let name = sub in core
        for i, o in enumerate(ops):
            if (i > 0 and not hasattr(o, "_vtag") and isinstance(o, E["OperatorAdapter"]) and o._trafo == 1
                    and type(o._op) is ift.FieldAdapter):
                return {"let": self.key(self.fa_name(o._op)), "b": self.chain(ops[i + 1:]), "in": self.chain(ops[:i])}
        first = ops[0]
        if hasattr(first, "_vtag"):
            return {"l": int(first._vtag), "a": self.chain(ops[1:])}
        if isinstance(first, (E["OpSum"], E["OpProd"], E["OpChain"], E["ChainOperator"])) and len(ops) > 1:
            # a node applied to an environment-valued tail is handled above; anything else is unexpected
            raise Unserialisable("node in the middle of a chain")
        raise Unserialisable("chain element " + type(first).__name__)

    def envbuilder(self, o):
        """x -> x ∪ {name: sub(x)}:  _OpSum(_OpChain[FieldAdapter(name).adjoint, sub..], identity on the other keys) or the bare chain"""
        E = env()
        ift = E["ift"]
        ch, ident = o, None
        if isinstance(o, E["OpSum"]):
            ch, ident = o._op1, o._op2
            if not isinstance(ch, (E["OpChain"], E["ChainOperator"])):
                ch, ident = o._op2, o._op1
        from nifty.cl.operators.sum_operator import SumOperator
        if type(o) is SumOperator and len(o._ops) == 2 and not any(o._neg):
            # both parts linear: `+` built a (linear) SumOperator instead of an _OpSum
            ch, ident = o._ops
            if not isinstance(ch, (E["OpChain"], E["ChainOperator"])):
                ch, ident = ident, ch
        if not isinstance(ch, (E["OpChain"], E["ChainOperator"])):
            raise Unserialisable("environment builder is not a chain")
        head = ch._ops[0]
        if not (isinstance(head, E["OperatorAdapter"]) and head._trafo == 1 and type(head._op) is ift.FieldAdapter):
            raise Unserialisable("environment builder does not start with FieldAdapter.adjoint")
        name = self.fa_name(head._op)
        if ident is not None:
            if type(ident) is ift.BlockDiagonalOperator:
                for e in ident._ops:
                    if e is not None and not (type(e) is ift.ScalingOperator and e._factor == 1):
                        raise Unserialisable("pass-through part is not the identity")
                if name in ident.domain.keys():
                    raise Unserialisable("inserted key also passed through")
            elif type(ident) is ift.ScalingOperator and ident._factor == 1:
                pass
            else:
                raise Unserialisable("pass-through part " + type(ident).__name__)
        return self.key(name), self.chain(list(ch._ops[1:]))


# ------------------------------------------------------------------------------------------------------------
# the real code
# ------------------------------------------------------------------------------------------------------------
def field_env(vals):
    E = env()
    ift = E["ift"]
    return {k: ift.makeField(E["dom"], np.array(v, dtype=float)) for k, v in vals.items()}


def evaluate(op, vals, dirs, cot):
    """value, J·dirs, Jᵀ·cot at the input `vals` (dicts key -> 3 numbers)"""
    E = env()
    ift = E["ift"]
    keys = list(op.domain.keys())
    x = ift.MultiField.from_dict({k: ift.makeField(E["dom"], np.array(vals[k], dtype=float)) for k in keys}, op.domain)
    dx = ift.MultiField.from_dict({k: ift.makeField(E["dom"], np.array(dirs[k], dtype=float)) for k in keys}, op.domain)
    y = ift.makeField(op.target, np.array(cot, dtype=float))
    val = op(x).asnumpy()
    lin = op(ift.Linearization.make_var(x))
    jv = lin.jac(dx).asnumpy()
    jt = lin.jac.adjoint_times(y)
    return val, jv, {k: jt[k].asnumpy() for k in keys}


def run_real(case):
    E = env()
    ift = E["ift"]
    try:
        if "lib" in case:
            op = build_lib(case["lib"])
            tag_leaves(op)
        else:
            op = build(case["steps"])
    except Exception as e:  # noqa: BLE001
        return dict(error="build:" + type(e).__name__)
    if not isinstance(op.domain, ift.MultiDomain):
        return dict(error="build:not-multidomain")
    try:
        with warnings.catch_warnings():
            warnings.simplefilter("ignore")
            with ift.random.Context(case.get("rngseed", 1)):
                opt = ift.optimise_operator(op)
    except Exception as e:  # noqa: BLE001
        import traceback
        fr = [f for f in traceback.extract_tb(e.__traceback__) if "/nifty/" in f.filename]
        site = (fr[-1].filename.split("/")[-1] + ":" + fr[-1].name) if fr else ""
        return dict(error="optimise:" + type(e).__name__, site=site, op=op)
    return dict(op=op, opt=opt)


def evaluate_lib(op, seed):
    """value, J·dx, Jᵀ·y of a library model at a seeded random position"""
    E = env()
    ift = E["ift"]
    with ift.random.Context(seed):
        x = ift.from_random(op.domain) * 0.3
        dx = ift.from_random(op.domain)
        y = ift.from_random(op.target)
    val = op(x).asnumpy()
    lin = op(ift.Linearization.make_var(x))
    jv = lin.jac(dx).asnumpy()
    jt = lin.jac.adjoint_times(y)
    return val, jv, {k: jt[k].asnumpy() for k in op.domain.keys()}


def inputs_for(case, n):
    rng = np.random.default_rng(case.get("inseed", 0))
    out = []
    for _ in range(n):
        vals = {k: [int(v) for v in rng.integers(-2, 3, 3)] for k in KEYS}
        dirs = {k: [int(v) for v in rng.integers(-2, 3, 3)] for k in KEYS}
        cot = [int(v) for v in rng.integers(-2, 3, 3)]
        out.append((vals, dirs, cot))
    return out


def allclose(a, b):
    a, b = np.asarray(a, dtype=float), np.asarray(b, dtype=float)
    return a.shape == b.shape and bool(np.all(np.abs(a - b) <= 1e-11 * (1.0 + np.maximum(np.abs(a), np.abs(b)))))


def oracle(case):
    """the property on the real code only: same domain and target, equal value and Jacobian at several inputs"""
    E = env()
    r = run_real(case)
    if "error" in r:
        if r["error"].startswith("build:"):
            return None
        if not has_node(r["op"]):
            # no _OpSum/_OpProd the optimiser could see (a bare chain, a linear operator, a sum of likelihood energies):
            # there is nothing to share and the operator should come back unchanged
            return (f"optimise_operator fails on an operator without sum/product nodes: {r['error']} at {r.get('site')}",
                    dict(kind="crash", nodeless=True))
        return (f"optimise_operator fails on a well-formed tree: {r['error']} at {r.get('site')}",
                dict(kind="crash", error=r["error"], site=r.get("site")))
    op, opt = r["op"], r["opt"]
    if opt.domain is not op.domain or opt.target is not op.target:
        return ("optimised operator has a different domain or target", dict(kind="domain"))
    for vals, dirs, cot in inputs_for(case, 4):
        try:
            if "lib" in case:
                v0, j0, t0 = evaluate_lib(op, vals["a"][0] + 7 * cot[0] + 100)
                v1, j1, t1 = evaluate_lib(opt, vals["a"][0] + 7 * cot[0] + 100)
            else:
                v0, j0, t0 = evaluate(op, vals, dirs, cot)
                v1, j1, t1 = evaluate(opt, vals, dirs, cot)
        except Exception as e:  # noqa: BLE001
            return (f"optimised operator cannot be evaluated: {type(e).__name__}", dict(kind="crash-eval", error=type(e).__name__))
        if not allclose(v0, v1):
            return ("value of the optimised operator differs from the original", dict(kind="value"))
        if not allclose(j0, j1):
            return ("Jacobian (applied to a direction) of the optimised operator differs", dict(kind="jacobian"))
        if any(not allclose(t0[k], t1[k]) for k in t0):
            return ("adjoint Jacobian of the optimised operator differs", dict(kind="jacobian-adjoint"))
    return None


def shrink(case):
    if "lib" in case:
        for n in (4, 6):
            if case["lib"].get("n", 8) > n:
                yield dict(case, lib=dict(case["lib"], n=n))
        return
    steps = case["steps"]
    # drop the last step / any step that nothing refers to
    for cut in range(len(steps) - 1, 1, -1):
        yield dict(case, steps=steps[:cut])
    for i in range(len(steps) - 1):
        used = any((s[0] == "leaf" and s[2] == i) or (s[0] in ("add", "mul") and i in s[1:]) for s in steps[i + 1:])
        if not used:
            new = []
            for s in steps[:i] + steps[i + 1:]:
                s = list(s)
                if s[0] == "leaf" and s[2] > i:
                    s[2] -= 1
                if s[0] in ("add", "mul"):
                    s[1] = s[1] - 1 if s[1] > i else s[1]
                    s[2] = s[2] - 1 if s[2] > i else s[2]
                new.append(s)
            yield dict(case, steps=new)


# ------------------------------------------------------------------------------------------------------------
def load_corpus():
    d = os.path.join(VERIF, "corpus", ID)
    out = []
    if os.path.isdir(d):
        for fn in sorted(os.listdir(d)):
            if fn.endswith(".json"):
                rec = json.load(open(os.path.join(d, fn)))
                out.append(rec.get("case", rec))
    return out


def run(ctx):
    cases = load_corpus()
    n = ctx.n(250, 4000)
    for i in range(n):
        if i % 3 == 2:
            steps = gen_staggered(ctx.rng)
        else:
            steps = gen_script(ctx.rng, ctx.rng.choice([6, 8, 10, 12] if ctx.quick else [6, 8, 10, 12, 14, 16]))
        cases.append(dict(steps=steps, rngseed=ctx.rng.randrange(1000), inseed=ctx.rng.randrange(10 ** 6)))
    for i in range(ctx.n(6, 60)):
        cases.append(dict(lib=dict(kind=LIB_KINDS[i % len(LIB_KINDS)], form=ctx.rng.randrange(5), n=ctx.rng.choice([4, 6, 8]),
                                   seed=ctx.rng.randrange(1000)), rngseed=ctx.rng.randrange(1000), inseed=ctx.rng.randrange(10 ** 6)))
    reqs, metas = [], []
    for c in cases:
        r = run_real(c)
        res = oracle(c)
        if res:
            ctx.counterexample(c, *res)
            ctx.stat("oracle:" + str(res[1].get("kind")))
            if "error" not in r:
                continue       # already reported; a broken optimised operator (e.g. a leaked key) cannot be evaluated further
        if "error" in r:
            ctx.stat("impl:" + r["error"])
            ctx.case(c, nontrivial=False)
            continue
        ser = Ser(sorted(r["op"].domain.keys()) if "lib" in c else None)
        try:
            e_orig = ser.ser(r["op"])
            e_opt = ser.ser(r["opt"])
        except Unserialisable as e:
            ctx.broke("correspondence", "serialiser met an unknown node", str(e))
            ctx.stat("unserialisable")
            continue
        if "lib" in c:
            ctx.stat("library-model:" + c["lib"]["kind"])
            reqs.append(dict(orig=e_orig, opt=e_opt, env=[[i, "1"] for i in range(ser.nkeys)]))
            metas.append((c, r, ser, None, None))
            continue
        expected = expand(c["steps"])
        ctx.compare(dict(c, what="serialised original"), e_orig, expected,
                    note="serialiser: the real (unoptimised) operator object vs the expression the script denotes", nontrivial=False)
        vals, dirs, cot = inputs_for(c, 1)[0]
        # one scalar per key for the exact model evaluation: component 0 of the vector input
        reqs.append(dict(orig=e_orig, opt=e_opt, env=[[KEYS.index(k), str(vals[k][0])] for k in KEYS]))
        metas.append((c, r, vals, dirs, cot))
    outs = ctx.model(DRIVER, reqs) if reqs else []
    for (c, r, vals, dirs, cot), m in zip(metas, outs):
        E = env()
        ift = E["ift"]
        if "lib" in c:
            # library leaves have no counterpart in the model: only the verified checker's verdict and the key sets count;
            # the values and Jacobians of the real operators are compared by the oracle above
            ser = vals
            impl = dict(sharing=True, keys_opt=sorted(ser.names[k] for k in r["opt"].domain.keys()),
                        keys_orig=sorted(ser.names[k] for k in r["op"].domain.keys()))
            model = dict(sharing=m.get("sharing"), keys_opt=m.get("keys_opt"), keys_orig=m.get("keys_orig"))
            ctx.stat("lib-lets=%d" % min(m.get("lets", 0), 6))
            ctx.compare(c, impl, model, note="library model: verified checker verdict and key sets of the serialised trees vs the "
                        "real optimiser output", nontrivial=m.get("lets", 0) > 0)
            ctx.traces_validated += 1
            continue
        v0, _, _ = evaluate(r["op"], vals, dirs, cot)
        v1, _, _ = evaluate(r["opt"], vals, dirs, cot)
        keys_real = sorted(KEYS.index(k) for k in r["opt"].domain.keys())
        impl = dict(sharing=True, keys_opt=keys_real, keys_orig=sorted(KEYS.index(k) for k in r["op"].domain.keys()),
                    val_orig="ok", val_opt="ok")
        from fractions import Fraction

        def cmpv(s, v):
            q = Fraction(s)
            return "ok" if abs(float(q) - float(v)) <= 1e-11 * (1 + abs(float(q))) else f"model {s} vs code {v}"
        model = dict(sharing=m.get("sharing"), keys_opt=m.get("keys_opt"), keys_orig=m.get("keys_orig"),
                     val_orig=cmpv(m["val_orig"], v0[0]) if "val_orig" in m else "missing",
                     val_opt=cmpv(m["val_opt"], v1[0]) if "val_opt" in m else "missing")
        ctx.stat("lets=%d" % min(m.get("lets", 0), 6))
        if m.get("lets", 0) > 0:
            # did every inserted key replace ALL occurrences of its definition (Ex.maximal)? a statistic, not a requirement
            ctx.stat("sharing-maximal" if m.get("maximal") else "sharing-partial")
        ctx.stat("size_orig<=%d" % (10 * (1 + m.get("size_orig", 0) // 10)))
        ctx.compare(c, impl, model, note="verified checker verdict / key sets / exact values of the serialised trees vs the real "
                    "optimiser output", nontrivial=m.get("lets", 0) > 0)
        ctx.traces_validated += 1


def search(ctx):
    for i in range(3000):
        steps = gen_script(ctx.rng, ctx.rng.choice([5, 6, 8, 10, 12, 14]))
        c = dict(steps=steps, rngseed=ctx.rng.randrange(1000), inseed=ctx.rng.randrange(10 ** 6))
        r = oracle(c)
        if r:
            ctx.counterexample(c, *r)
            return
