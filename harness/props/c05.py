"""C05 — Operator-tree optimisation preserves semantics (DESIGN.md §5 C05, design.d/C05.md)."""
import json
import os
import warnings

import numpy as np

from core.ctx import VERIF

ID = "C05"
LEAN_MODULES = ["NiftyVerif.Props.C05", "NiftyVerif.Model.TreeShareDriver", "NiftyVerif.Core.Proto"]
DRIVER = "Driver/C05.lean"
OBLIGATIONS = ["NiftyVerif.C05." + t for t in (
    "subst_letFree", "inlineAll_letFree", "share_sound", "inlineAll_sound", "isSharingOf_sound", "isSharingOf_jac",
    "mem_keys_subst", "keys_inlineAll", "isSharingOf_dom")]
RULE = ("construction scripts of sum/product/chain trees over keys a,b,c with shared leaves and shared sub-trees (object "
        "identity preserved: an operator built once may be used several times); the REAL optimise_operator is run, original "
        "and optimised trees are serialised and the verified Lean checker validates the pair; value and Jacobian are "
        "compared at several integer inputs; non-trivial = the optimiser inserted at least one key; distinct by script")
TRUSTED_BASE = [
    "Lean 4.33 kernel; axioms propext/Classical.choice/Quot.sound only (audited every run)",
    "serialiser of operator objects into the expression language (harness); validated every run by evaluating the "
    "serialised original AND optimised tree in the Lean model (exact rationals) against the real operators' values",
    "NIFTy's Linearization computes Jacobians by pushing (value, jacobian) through the same tree (so that the theorem "
    "about arbitrary value domains covers Jacobians); additionally compared numerically here",
]
ASSUMPTIONS = [
    "the optimiser's algorithm (id()-keyed in-place surgery) is not transcribed: each output is validated by the verified "
    "checker (translation validation); termination and deep-copy hygiene are exercised, not proved",
    "leaves are opaque unary operators (4 polynomial kinds and one linear kind) on one domain",
]

KEYS = ["a", "b", "c"]
_ENV = {}


def env():
    if not _ENV:
        import nifty.cl as ift
        from nifty.cl.operators.operator import _OpChain, _OpProd, _OpSum
        from nifty.cl.operators.chain_operator import ChainOperator
        from nifty.cl.operators.operator_adapter import OperatorAdapter
        from nifty.cl.operators.endomorphic_operator import EndomorphicOperator
        dom = ift.DomainTuple.make(ift.UnstructuredDomain(3))

        class NL(ift.Operator):
            """tagged non-linear leaf; kind = tag % 5"""

            def __init__(self, tag):
                self._domain = self._target = dom
                self._vtag = tag

            def apply(self, x):
                self._check_input(x)
                k = self._vtag % 5
                if k == 0:
                    return x * x + x
                if k == 1:
                    return x * x * x
                if k == 2:
                    return x + x
                return x * x - x

            def __repr__(self):
                return f"NL{self._vtag}"

        class LL(EndomorphicOperator):
            """tagged linear leaf: x -> 3 x (never merged by ChainOperator.simplify)"""

            def __init__(self, tag):
                self._domain = dom
                self._capability = self.TIMES | self.ADJOINT_TIMES
                self._vtag = tag

            def apply(self, x, mode):
                self._check_input(x, mode)
                return x * 3.

            def __repr__(self):
                return f"LL{self._vtag}"

        _ENV.update(ift=ift, dom=dom, NL=NL, LL=LL, OpChain=_OpChain, OpProd=_OpProd, OpSum=_OpSum, ChainOperator=ChainOperator,
                    OperatorAdapter=OperatorAdapter)
    return _ENV


# ------------------------------------------------------------------------------------------------------------
# construction scripts
# ------------------------------------------------------------------------------------------------------------
def gen_script(rng, nsteps):
    """steps: ["var", key] | ["leaf", tag, j] | ["add", j, k] | ["mul", j, k]; operand indices refer to earlier steps, so one
    object can be used several times; the result is the last step. `lin[i]`: step i is a LinearOperator (not summed)."""
    steps, lin = [], []
    tag = [0]

    def new_leaf(j):
        t = tag[0]
        tag[0] += 1
        if rng.random() < 0.2:
            t = t - (t % 5) + 4 if t % 5 != 4 else t     # linear kind
            t = max(t, 4)
        elif t % 5 == 4:
            t += 1
        tag[0] = max(tag[0], t + 1)
        steps.append(["leaf", t, j])
        lin.append(lin[j] and t % 5 == 4)
        return len(steps) - 1

    for k in rng.sample(KEYS, rng.choice([1, 2, 2, 3])):
        steps.append(["var", k])
        lin.append(True)
        new_leaf(len(steps) - 1)
    while len(steps) < nsteps:
        r = rng.random()
        # prefer recent results so that trees get deep, but reuse older ones to create sharing
        def pick():
            n = len(steps)
            return rng.randrange(n) if rng.random() < 0.45 else rng.randrange(max(0, n - 3), n)
        if r < 0.3:
            new_leaf(pick())
        else:
            j, k = pick(), pick()
            kind = "add" if r < 0.65 else "mul"
            if kind == "add" and (lin[j] or lin[k]):
                continue
            if steps[j][0] == "var" or steps[k][0] == "var":
                continue
            steps.append([kind, j, k])
            lin.append(False)
    if steps[-1][0] not in ("add", "mul"):
        # make the result a node over non-linear operands
        cands = [i for i in range(len(steps)) if not lin[i]]
        if len(cands) >= 1:
            steps.append(["mul", rng.choice(cands), rng.choice(cands)])
            lin.append(False)
        else:
            # only linear chains so far: a product of two of them is a node
            cands = [i for i in range(len(steps)) if steps[i][0] == "leaf"]
            steps.append(["mul", rng.choice(cands), rng.choice(cands)])
            lin.append(False)
    return steps


def build(steps):
    E = env()
    ift = E["ift"]
    ops = []
    for s in steps:
        if s[0] == "var":
            ops.append(ift.FieldAdapter(E["dom"], s[1]))
        elif s[0] == "leaf":
            lf = E["LL"](s[1]) if s[1] % 5 == 4 else E["NL"](s[1])
            ops.append(lf @ ops[s[2]])
        elif s[0] == "add":
            ops.append(ops[s[1]] + ops[s[2]])
        elif s[0] == "mul":
            ops.append(ops[s[1]] * ops[s[2]])
        else:
            raise ValueError("bad step")
    return ops[-1]


def expand(steps):
    """the expression the script denotes (pure tree, no sharing)"""
    ex = []
    for s in steps:
        if s[0] == "var":
            ex.append({"v": KEYS.index(s[1])})
        elif s[0] == "leaf":
            ex.append({"l": s[1], "a": ex[s[2]]})
        elif s[0] == "add":
            ex.append({"+": [ex[s[1]], ex[s[2]]]})
        else:
            ex.append({"*": [ex[s[1]], ex[s[2]]]})
    return ex[-1]


class Unserialisable(Exception):
    pass


class Ser:
    """operator object -> expression JSON; inserted FieldAdapter names are numbered 100, 101, .. by first occurrence"""

    def __init__(self):
        self.names = {k: i for i, k in enumerate(KEYS)}

    def key(self, name):
        if name not in self.names:
            self.names[name] = 100 + len(self.names) - len(KEYS)
        return self.names[name]

    def fa_name(self, o):
        ks = list(o.domain.keys())
        if len(ks) != 1:
            raise Unserialisable("FieldAdapter with several keys")
        return ks[0]

    def ser(self, o):
        E = env()
        ift = E["ift"]
        if isinstance(o, E["OpSum"]):
            return {"+": [self.ser(o._op1), self.ser(o._op2)]}
        if isinstance(o, E["OpProd"]):
            return {"*": [self.ser(o._op1), self.ser(o._op2)]}
        if isinstance(o, (E["OpChain"], E["ChainOperator"])):
            return self.chain(list(o._ops))
        if type(o) is ift.FieldAdapter:
            return {"v": self.key(self.fa_name(o))}
        raise Unserialisable("node " + type(o).__name__)

    def chain(self, ops):
        E = env()
        ift = E["ift"]
        if len(ops) == 1:
            return self.ser(ops[0])
        last = ops[-1]
        if isinstance(last.target, ift.MultiDomain):
            k, bound = self.envbuilder(last)
            return {"let": k, "b": bound, "in": self.chain(ops[:-1])}
        # an environment builder without pass-through keys is flattened into the chain:
        #   [core.., FieldAdapter(name).adjoint, sub..]  =  let name = sub in core
        for i, o in enumerate(ops):
            if i > 0 and isinstance(o, E["OperatorAdapter"]) and o._trafo == 1 and type(o._op) is ift.FieldAdapter:
                return {"let": self.key(self.fa_name(o._op)), "b": self.chain(ops[i + 1:]), "in": self.chain(ops[:i])}
        first = ops[0]
        if hasattr(first, "_vtag") and isinstance(first, (E["NL"], E["LL"])):
            return {"l": int(first._vtag), "a": self.chain(ops[1:])}
        if isinstance(first, (E["OpSum"], E["OpProd"], E["OpChain"], E["ChainOperator"])) and len(ops) > 1:
            # a node applied to an environment-valued tail is handled above; anything else is unexpected
            raise Unserialisable("node in the middle of a chain")
        raise Unserialisable("chain element " + type(first).__name__)

    def envbuilder(self, o):
        """x -> x ∪ {name: sub(x)}:  _OpSum(_OpChain[FieldAdapter(name).adjoint, sub..], identity on the other keys) or the bare chain"""
        E = env()
        ift = E["ift"]
        ch, ident = o, None
        if isinstance(o, E["OpSum"]):
            ch, ident = o._op1, o._op2
            if not isinstance(ch, (E["OpChain"], E["ChainOperator"])):
                ch, ident = o._op2, o._op1
        from nifty.cl.operators.sum_operator import SumOperator
        if type(o) is SumOperator and len(o._ops) == 2 and not any(o._neg):
            # both parts linear: `+` built a (linear) SumOperator instead of an _OpSum
            ch, ident = o._ops
            if not isinstance(ch, (E["OpChain"], E["ChainOperator"])):
                ch, ident = ident, ch
        if not isinstance(ch, (E["OpChain"], E["ChainOperator"])):
            raise Unserialisable("environment builder is not a chain")
        head = ch._ops[0]
        if not (isinstance(head, E["OperatorAdapter"]) and head._trafo == 1 and type(head._op) is ift.FieldAdapter):
            raise Unserialisable("environment builder does not start with FieldAdapter.adjoint")
        name = self.fa_name(head._op)
        if ident is not None:
            if type(ident) is ift.BlockDiagonalOperator:
                for e in ident._ops:
                    if e is not None and not (type(e) is ift.ScalingOperator and e._factor == 1):
                        raise Unserialisable("pass-through part is not the identity")
                if name in ident.domain.keys():
                    raise Unserialisable("inserted key also passed through")
            elif type(ident) is ift.ScalingOperator and ident._factor == 1:
                pass
            else:
                raise Unserialisable("pass-through part " + type(ident).__name__)
        return self.key(name), self.chain(list(ch._ops[1:]))


# ------------------------------------------------------------------------------------------------------------
# the real code
# ------------------------------------------------------------------------------------------------------------
def field_env(vals):
    E = env()
    ift = E["ift"]
    return {k: ift.makeField(E["dom"], np.array(v, dtype=float)) for k, v in vals.items()}


def evaluate(op, vals, dirs, cot):
    """value, J·dirs, Jᵀ·cot at the input `vals` (dicts key -> 3 numbers)"""
    E = env()
    ift = E["ift"]
    keys = list(op.domain.keys())
    x = ift.MultiField.from_dict({k: ift.makeField(E["dom"], np.array(vals[k], dtype=float)) for k in keys}, op.domain)
    dx = ift.MultiField.from_dict({k: ift.makeField(E["dom"], np.array(dirs[k], dtype=float)) for k in keys}, op.domain)
    y = ift.makeField(op.target, np.array(cot, dtype=float))
    val = op(x).asnumpy()
    lin = op(ift.Linearization.make_var(x))
    jv = lin.jac(dx).asnumpy()
    jt = lin.jac.adjoint_times(y)
    return val, jv, {k: jt[k].asnumpy() for k in keys}


def run_real(case):
    E = env()
    ift = E["ift"]
    steps = case["steps"]
    try:
        op = build(steps)
    except Exception as e:  # noqa: BLE001
        return dict(error="build:" + type(e).__name__)
    if not isinstance(op.domain, ift.MultiDomain):
        return dict(error="build:not-multidomain")
    try:
        with warnings.catch_warnings():
            warnings.simplefilter("ignore")
            with ift.random.Context(case.get("rngseed", 1)):
                opt = ift.optimise_operator(op)
    except Exception as e:  # noqa: BLE001
        import traceback
        fr = [f for f in traceback.extract_tb(e.__traceback__) if "/nifty/" in f.filename]
        site = (fr[-1].filename.split("/")[-1] + ":" + fr[-1].name) if fr else ""
        return dict(error="optimise:" + type(e).__name__, site=site, op=op)
    return dict(op=op, opt=opt)


def inputs_for(case, n):
    rng = np.random.default_rng(case.get("inseed", 0))
    out = []
    for _ in range(n):
        vals = {k: [int(v) for v in rng.integers(-2, 3, 3)] for k in KEYS}
        dirs = {k: [int(v) for v in rng.integers(-2, 3, 3)] for k in KEYS}
        cot = [int(v) for v in rng.integers(-2, 3, 3)]
        out.append((vals, dirs, cot))
    return out


def allclose(a, b):
    a, b = np.asarray(a, dtype=float), np.asarray(b, dtype=float)
    return a.shape == b.shape and bool(np.all(np.abs(a - b) <= 1e-11 * (1.0 + np.maximum(np.abs(a), np.abs(b)))))


def oracle(case):
    """the property on the real code only: same domain and target, equal value and Jacobian at several inputs"""
    E = env()
    if case["steps"][-1][0] not in ("add", "mul"):
        return None     # not a sum/product tree (the optimiser works on trees with at least one node)
    r = run_real(case)
    if "error" in r:
        if r["error"].startswith("build:"):
            return None
        return (f"optimise_operator fails on a well-formed tree: {r['error']} at {r.get('site')}",
                dict(kind="crash", error=r["error"], site=r.get("site")))
    op, opt = r["op"], r["opt"]
    if opt.domain is not op.domain or opt.target is not op.target:
        return ("optimised operator has a different domain or target", dict(kind="domain"))
    for vals, dirs, cot in inputs_for(case, 4):
        try:
            v0, j0, t0 = evaluate(op, vals, dirs, cot)
            v1, j1, t1 = evaluate(opt, vals, dirs, cot)
        except Exception as e:  # noqa: BLE001
            return (f"optimised operator cannot be evaluated: {type(e).__name__}", dict(kind="crash-eval", error=type(e).__name__))
        if not allclose(v0, v1):
            return ("value of the optimised operator differs from the original", dict(kind="value"))
        if not allclose(j0, j1):
            return ("Jacobian (applied to a direction) of the optimised operator differs", dict(kind="jacobian"))
        if any(not allclose(t0[k], t1[k]) for k in t0):
            return ("adjoint Jacobian of the optimised operator differs", dict(kind="jacobian-adjoint"))
    return None


def shrink(case):
    steps = case["steps"]
    # drop the last step / any step that nothing refers to
    for cut in range(len(steps) - 1, 1, -1):
        yield dict(case, steps=steps[:cut])
    for i in range(len(steps) - 1):
        used = any((s[0] == "leaf" and s[2] == i) or (s[0] in ("add", "mul") and i in s[1:]) for s in steps[i + 1:])
        if not used:
            new = []
            for s in steps[:i] + steps[i + 1:]:
                s = list(s)
                if s[0] == "leaf" and s[2] > i:
                    s[2] -= 1
                if s[0] in ("add", "mul"):
                    s[1] = s[1] - 1 if s[1] > i else s[1]
                    s[2] = s[2] - 1 if s[2] > i else s[2]
                new.append(s)
            yield dict(case, steps=new)


# ------------------------------------------------------------------------------------------------------------
def load_corpus():
    d = os.path.join(VERIF, "corpus", ID)
    out = []
    if os.path.isdir(d):
        for fn in sorted(os.listdir(d)):
            if fn.endswith(".json"):
                rec = json.load(open(os.path.join(d, fn)))
                out.append(rec.get("case", rec))
    return out


def run(ctx):
    cases = load_corpus()
    n = ctx.n(250, 4000)
    for i in range(n):
        steps = gen_script(ctx.rng, ctx.rng.choice([6, 8, 10, 12] if ctx.quick else [6, 8, 10, 12, 14, 16]))
        cases.append(dict(steps=steps, rngseed=ctx.rng.randrange(1000), inseed=ctx.rng.randrange(10 ** 6)))
    reqs, metas = [], []
    for c in cases:
        r = run_real(c)
        res = oracle(c)
        if res:
            ctx.counterexample(c, *res)
        if "error" in r:
            ctx.stat("impl:" + r["error"])
            ctx.case(c, nontrivial=False)
            continue
        ser = Ser()
        try:
            e_orig = ser.ser(r["op"])
            e_opt = ser.ser(r["opt"])
        except Unserialisable as e:
            ctx.broke("correspondence", "serialiser met an unknown node", str(e))
            ctx.stat("unserialisable")
            continue
        expected = expand(c["steps"])
        ctx.compare(dict(c, what="serialised original"), e_orig, expected,
                    note="serialiser: the real (unoptimised) operator object vs the expression the script denotes", nontrivial=False)
        vals, dirs, cot = inputs_for(c, 1)[0]
        # one scalar per key for the exact model evaluation: component 0 of the vector input
        reqs.append(dict(orig=e_orig, opt=e_opt, env=[[KEYS.index(k), str(vals[k][0])] for k in KEYS]))
        metas.append((c, r, vals, dirs, cot))
    outs = ctx.model(DRIVER, reqs) if reqs else []
    for (c, r, vals, dirs, cot), m in zip(metas, outs):
        E = env()
        ift = E["ift"]
        v0, _, _ = evaluate(r["op"], vals, dirs, cot)
        v1, _, _ = evaluate(r["opt"], vals, dirs, cot)
        keys_real = sorted(KEYS.index(k) for k in r["opt"].domain.keys())
        impl = dict(sharing=True, keys_opt=keys_real, keys_orig=sorted(KEYS.index(k) for k in r["op"].domain.keys()),
                    val_orig="ok", val_opt="ok")
        from fractions import Fraction

        def cmpv(s, v):
            q = Fraction(s)
            return "ok" if abs(float(q) - float(v)) <= 1e-11 * (1 + abs(float(q))) else f"model {s} vs code {v}"
        model = dict(sharing=m.get("sharing"), keys_opt=m.get("keys_opt"), keys_orig=m.get("keys_orig"),
                     val_orig=cmpv(m["val_orig"], v0[0]) if "val_orig" in m else "missing",
                     val_opt=cmpv(m["val_opt"], v1[0]) if "val_opt" in m else "missing")
        ctx.stat("lets=%d" % min(m.get("lets", 0), 6))
        ctx.stat("size_orig<=%d" % (10 * (1 + m.get("size_orig", 0) // 10)))
        ctx.compare(c, impl, model, note="verified checker verdict / key sets / exact values of the serialised trees vs the real "
                    "optimiser output", nontrivial=m.get("lets", 0) > 0)
        ctx.traces_validated += 1


def search(ctx):
    for i in range(3000):
        steps = gen_script(ctx.rng, ctx.rng.choice([5, 6, 8, 10, 12, 14]))
        c = dict(steps=steps, rngseed=ctx.rng.randrange(1000), inseed=ctx.rng.randrange(10 ** 6))
        r = oracle(c)
        if r:
            ctx.counterexample(c, *r)
            return
