"""C02, class T part: operators with irrational weights (harmonic transforms, SHT, smoothing, interpolation at generic
points, LOS, NFT) have their documented quantity checked under C09/C35; here the GENERIC part of C02 — adjointness,
advertised inverses, linearity, target identity, input unchanged — is checked on the real code at a tolerance."""
import json
import zlib

import numpy as np

from . import _c02_util as U

TOL = 1e-10


def gen(rng):
    kind = rng.choice(["FFTOperator", "HartleyOperator", "HarmonicTransformOperator", "SHTOperator",
                       "HarmonicSmoothingOperator", "LinearInterpolator", "LOSResponse"])
    nd = rng.choice([1, 1, 2, 3])
    shape = [rng.randint(1, 6) for _ in range(nd)]
    dist = [rng.choice([0.1, 0.5, 1.0, 0.37, 2.0]) for _ in range(nd)]
    pre = rng.choice([0, 0, 2, 3])
    post = rng.choice([0, 0, 2])
    c = dict(cls=kind, shape=shape, dist=dist, pre=pre, post=post, seed=rng.randrange(1 << 30),
             harmonic=rng.random() < 0.5, cplx=rng.random() < 0.5)
    if kind == "SHTOperator":
        c.update(lmax=rng.randint(0, 4), pix=rng.choice(["GL", "HP"]), nside=rng.choice([1, 2]), nlat=rng.randint(2, 5))
    if kind == "HarmonicSmoothingOperator":
        c.update(sigma=rng.choice([0.0, 0.3, 1.0]))
    if kind == "LinearInterpolator":
        def coord(n, d):
            L = n * d
            r = rng.random()
            if r < 0.25:
                return -rng.uniform(0.01, 0.99) * L                      # below zero, not grid aligned
            if r < 0.4:
                return L + rng.uniform(0.0, 1.0) * L                      # beyond the upper edge
            if r < 0.55:
                return rng.randint(-2 * n, 3 * n) * d                     # exactly on a node (any period)
            if r < 0.7:
                return rng.uniform(0, L) + rng.choice([-3, -2, 2, 5]) * L  # several periods away
            return rng.uniform(0, L)
        c.update(points=[[coord(n, d) for n, d in zip(shape, dist)] for _ in range(rng.randint(1, 5))], pre=0, post=0)
    if kind == "LOSResponse":
        c.update(starts=[[rng.uniform(-0.2, 1.2) * n * d for n, d in zip(shape, dist)] for _ in range(3)],
                 ends=[[rng.uniform(-0.2, 1.2) * n * d for n, d in zip(shape, dist)] for _ in range(3)],
                 sigmas=rng.choice([None, [0.0, 0.01, 0.02]]), pre=0, post=0)
    return c


def build(case):
    import nifty.cl as ift
    kind = case["cls"]
    doms = []
    if case.get("pre"):
        doms.append(ift.UnstructuredDomain(case["pre"]))
    space = len(doms)
    if kind == "SHTOperator":
        doms.append(ift.LMSpace(case["lmax"]))
    else:
        harm = case["harmonic"] if kind in ("FFTOperator", "HartleyOperator") else (kind == "HarmonicTransformOperator")
        doms.append(ift.RGSpace(tuple(case["shape"]), distances=tuple(case["dist"]), harmonic=bool(harm)))
    if case.get("post"):
        doms.append(ift.RGSpace((case["post"],), distances=(0.5,)))
    dom = ift.DomainTuple.make(tuple(doms))
    if kind == "FFTOperator":
        return ift.FFTOperator(dom, space=space)
    if kind == "HartleyOperator":
        return ift.HartleyOperator(dom, space=space)
    if kind == "HarmonicTransformOperator":
        return ift.HarmonicTransformOperator(dom, space=space)
    if kind == "SHTOperator":
        tgt = ift.GLSpace(case["nlat"]) if case["pix"] == "GL" else ift.HPSpace(case["nside"])
        return ift.SHTOperator(dom, tgt, space=space)
    if kind == "HarmonicSmoothingOperator":
        return ift.HarmonicSmoothingOperator(dom, case["sigma"], space=space)
    if kind == "LinearInterpolator":
        return ift.LinearInterpolator(dom, np.array(case["points"]).T)
    if kind == "LOSResponse":
        return ift.LOSResponse(dom, np.array(case["starts"]).T, np.array(case["ends"]).T, sigmas=case["sigmas"])
    raise ValueError(kind)


def _interp_ref(case, x, points):
    """documented definition of LinearInterpolator: periodic multilinear interpolation between the grid nodes"""
    import itertools
    shape, dist = case["shape"], case["dist"]
    f = np.asarray(x).reshape(shape)
    out = []
    for p in points:
        q = [pj / dj for pj, dj in zip(p, dist)]
        base = [int(np.floor(v)) for v in q]
        exc = [v - b for v, b in zip(q, base)]
        tot = 0.0
        for e in itertools.product((0, 1), repeat=len(shape)):
            w = 1.0
            for ej, cj in zip(e, exc):
                w *= cj if ej else (1.0 - cj)
            tot = tot + w * f[tuple((b + ej) % n for b, ej, n in zip(base, e, shape))]
        out.append(tot)
    return np.array(out)


def _los_ref(case, x, M=20000):
    """documented definition of LOSResponse (sigmas = 0): line integral of the piecewise constant field, sampled"""
    shape, dist = np.array(case["shape"]), np.array(case["dist"])
    f = np.asarray(x).reshape(case["shape"])
    t = (np.arange(M) + 0.5) / M
    out = []
    for s, e in zip(case["starts"], case["ends"]):
        s, e = np.array(s), np.array(e)
        P = (s[:, None] + t[None, :] * (e - s)[:, None]) / dist[:, None] + 0.5
        inside = np.all((P > 0) & (P < shape[:, None]), axis=0)
        pix = np.clip(np.floor(P).astype(np.int64), 0, shape[:, None] - 1)
        out.append((f[tuple(pix)] * inside).sum() * np.linalg.norm(e - s) / M)
    return np.array(out)


def _definition_check(case, op, rs, sig):
    """the action equals the operator's documented definition (independent numpy evaluation)"""
    import nifty.cl as ift
    kind = case["cls"]
    dom = op.domain
    if kind == "LinearInterpolator":
        x = rs.randint(-4, 5, dom.shape).astype(np.float64)
        got = op(ift.makeField(dom, x)).asnumpy()
        want = _interp_ref(case, x, case["points"])
        tol = 1e-11 * (np.abs(x).max() + 1)
        if np.abs(got - want).max() > tol:
            i = int(np.argmax(np.abs(got - want)))
            return (f"LinearInterpolator: value at {case['points'][i]} is {got[i]!r}, the periodic multilinear interpolation of the "
                    f"grid values gives {want[i]!r}", sig("periodic-definition"))
        # invariance under a shift by one period in every coordinate, constants are reproduced
        L = [n * d for n, d in zip(case["shape"], case["dist"])]
        k = [int(rs.randint(-2, 3)) for _ in L]
        pts2 = np.array([[pj + kj * Lj for pj, kj, Lj in zip(p, k, L)] for p in case["points"]]).T
        got2 = ift.LinearInterpolator(dom, pts2)(ift.makeField(dom, x)).asnumpy()
        if np.abs(got2 - got).max() > 1e-9 * (np.abs(x).max() + 1):
            return ("LinearInterpolator: result changes when the sampling points are shifted by whole periods", sig("period-shift"))
        const = op(ift.full(dom, 3.0)).asnumpy()
        if np.abs(const - 3.0).max() > 1e-12:
            return ("LinearInterpolator: a constant field is not reproduced", sig("constant"))
    elif kind == "LOSResponse" and case.get("sigmas") is None:
        x = rs.randint(0, 5, dom.shape).astype(np.float64)
        got = op(ift.makeField(dom, x)).asnumpy()
        want = _los_ref(case, x)
        Ls = np.array([np.linalg.norm(np.array(e) - np.array(s)) for s, e in zip(case["starts"], case["ends"])])
        tol = (sum(case["shape"]) + 4) * Ls / 20000 * 4 + 1e-4 * Ls + 1e-6
        if np.any(np.abs(got - want) > tol):
            i = int(np.argmax(np.abs(got - want) - tol))
            return (f"LOSResponse: line {i} gives {got[i]!r}, the sampled line integral of the field is {want[i]!r}",
                    sig("line-integral"))
    elif kind == "FFTOperator" and not case.get("pre") and not case.get("post"):
        x = rs.randint(-3, 4, dom.shape) + (1j * rs.randint(-3, 4, dom.shape) if case["cplx"] else 0)
        got = op(ift.makeField(dom, x.astype(np.complex128 if case["cplx"] else np.float64))).asnumpy()
        dv = dom[0].scalar_dvol
        if dom[0].harmonic:
            want = np.fft.ifftn(x) * dom.size * dv
        else:
            want = np.fft.fftn(x) * dv
        if np.abs(got - want).max() > 1e-10 * (np.abs(want).max() + 1):
            return ("FFTOperator.times differs from dvol · (i)fftn of the field", sig("fft-definition"))
    return None


def oracle(case):
    kind = case["cls"]
    sig = lambda k, **kw: dict(cls=kind, kind=k, tol=True, **kw)
    rs = np.random.RandomState(case["seed"])
    try:
        op = build(case)
    except Exception:
        return None
    problems = []
    try:
        real_only = kind in ("HartleyOperator", "HarmonicTransformOperator", "SHTOperator", "LinearInterpolator", "LOSResponse",
                             "HarmonicSmoothingOperator") and not case["cplx"]
        cplx = case["cplx"] and kind not in ("LinearInterpolator", "LOSResponse")
        dt = np.complex128 if cplx else np.float64

        def rv(n):
            v = rs.randint(-3, 4, n).astype(np.float64)
            return v + 1j * rs.randint(-3, 4, n) if cplx else v
        dom, tgt = op.domain, op.target
        n, m = dom.size, tgt.size
        x1, x2, y1 = rv(n), rv(n), rv(m)
        fx1 = U.from_flat(dom, x1, dt)
        Ax1 = U.to_flat(U.apply_checked(op, fx1, 1, problems), tgt)
        Ax2 = U.to_flat(U.apply_checked(op, U.from_flat(dom, x2, dt), 1, problems), tgt)
        scale = np.abs(Ax1).max() + np.abs(Ax2).max() + 1
        a, b = 2.0, -3.0
        Ac = U.to_flat(op(U.from_flat(dom, a * x1 + b * x2, dt)), tgt)
        if np.abs(Ac - (a * Ax1 + b * Ax2)).max() > TOL * scale * 10:
            return (f"{kind}: not linear (deviation {np.abs(Ac - (a * Ax1 + b * Ax2)).max():.3g})", sig("linearity"))
        if op.capability & 2:
            AHy = U.to_flat(U.apply_checked(op, U.from_flat(tgt, y1, dt), 2, problems), dom)
            lhs = np.vdot(y1, Ax1)
            rhs = np.vdot(AHy, x1)
            if abs(lhs - rhs) > 1e-9 * (abs(lhs) + abs(rhs) + 1):
                return (f"{kind}: <y,Ax> = {lhs} but <A^H y,x> = {rhs}", sig("adjoint"))
        r = _definition_check(case, op, rs, sig)
        if r is not None:
            return r
        well_conditioned = kind != "HarmonicSmoothingOperator"     # its inverse divides by exp(-2π²σ²k²) (may underflow)
        if op.capability & 4 and well_conditioned:
            back = U.to_flat(U.apply_checked(op, U.apply_checked(op, fx1, 1, problems), 4, problems), dom)
            if np.abs(back - x1).max() > 1e-9 * (np.abs(x1).max() + 1):
                return (f"{kind}: A^-1 A x != x (deviation {np.abs(back - x1).max():.3g})", sig("inverse"))
        if op.capability & 8 and op.capability & 2 and well_conditioned:
            fy = U.from_flat(tgt, y1, dt)
            back = U.to_flat(U.apply_checked(op, U.apply_checked(op, fy, 2, problems), 8, problems), tgt)
            if np.abs(back - y1).max() > 1e-9 * (np.abs(y1).max() + 1):
                return (f"{kind}: A^-H A^H y != y", sig("adjoint-inverse"))
    except Exception as e:
        return (f"{kind}: apply raised {type(e).__name__}: {str(e)[:120]} on an operator its constructor accepted",
                sig("apply-error", error=type(e).__name__))
    if problems:
        k, mode = problems[0]
        return (f"{kind}: {k} in mode {mode}", sig(k))
    return None


def run(ctx, n):
    for _ in range(n):
        c = gen(ctx.rng)
        ctx.stat("tol-cls:" + c["cls"])
        ctx.case(c, True)
        r = oracle(c)
        if r is not None:
            ctx.counterexample(c, r[0], r[1])
