"""C06 helpers: recipes -> real NIFTy objects, description for the Lean model, adapter around the real code
(every call wrapped, exceptions -> error kinds), canonical results, comparison classes E / F / T.

A *case* is pure JSON (replayable):
  {"doms":   [[sub_recipe, ...], ...],                 # DomainTuples; index 0 is the main one
   "fields": [{"dom": i, "dt": "i"|"f"|"c", "re": ["p/q",..], "im": ["p/q",..]}, ...],
   "mfields":[{"keys": ["a",..], "leaves": [field index, ..]}, ...],
   "ops":    [{"op": ..., ...}, ...]}
sub_recipe: ["RG", shape, [dist as "p/q"], harmonic] | ["U", shape] | ["PS", rg_recipe] | ["PSLM", lmax]
          | ["DOF", ["p/q",..]] | ["GL", nlat, nlon] | ["HP", nside] | ["LM", lmax]
"""
import itertools
import operator
from fractions import Fraction

import numpy as np

DT_NUM = {"b": 0, "i": 1, "f": 2, "c": 3}
BIN_OPS = ["add", "sub", "mul", "truediv", "floordiv", "pow", "lt", "le", "gt", "ge", "eq", "ne"]
CONTRACTIONS = ["sum", "prod", "all", "any", "integrate", "mean", "var", "std"]
# operations whose float evaluation is exact on the generated inputs (small integers / dyadic volumes): class E
E_OPS = {"clip", "mclip", "unite", "flexible_addsub", "mvdot", "ms_all", "ms_any", "msize", "mflex", "sum", "prod", "all", "any", "integrate", "vdot", "s_vdot", "s_sum", "s_prod", "s_all", "s_any",
         "s_integrate", "total_volume", "scalar_weight", "un", "bin", "bins", "scale", "norm",
         "mbin", "mbins", "mun", "ms_vdot", "ms_sum", "mnorm", "weight"}
TOL = 1e-9


def fr(x):
    return Fraction(x)


def frs(x):
    """exact "p/q" string of a float / int (class F: every float is a dyadic rational)"""
    f = Fraction(x)
    return str(f.numerator) if f.denominator == 1 else f"{f.numerator}/{f.denominator}"


def kind_of(e):
    return {"error": type(e).__name__}


# ------------------------------------------------------------------------------------------------------
# recipes -> objects
# ------------------------------------------------------------------------------------------------------
def build_sub(r):
    import nifty.cl as ift
    t = r[0]
    if t == "RG":
        return ift.RGSpace(tuple(r[1]), distances=tuple(float(Fraction(d)) for d in r[2]), harmonic=bool(r[3]))
    if t == "U":
        return ift.UnstructuredDomain(tuple(r[1]))
    if t == "PS":
        return ift.PowerSpace(build_sub(r[1]))
    if t == "PSLM":
        return ift.PowerSpace(ift.LMSpace(int(r[1])))
    if t == "DOF":
        return ift.DOFSpace([float(Fraction(w)) for w in r[1]])
    if t == "GL":
        return ift.GLSpace(int(r[1]), int(r[2]))
    if t == "HP":
        return ift.HPSpace(int(r[1]))
    if t == "LM":
        return ift.LMSpace(int(r[1]))
    raise ValueError(f"bad sub recipe {r}")


def build_dom(recipe):
    import nifty.cl as ift
    return ift.DomainTuple.make(tuple(build_sub(r) for r in recipe))


def np_dtype(dt):
    return {"i": np.int64, "f": np.float64, "c": np.complex128}[dt]


def field_array(fd, shape):
    """data of one field; "p": 4 selects the 4-byte dtypes (int32 / float32 / complex64)"""
    re = np.array([float(Fraction(v)) for v in fd["re"]], dtype=np.float64)
    low = fd.get("p", 8) == 4
    if fd["dt"] == "c":
        im = np.array([float(Fraction(v)) for v in fd["im"]], dtype=np.float64)
        arr = (re + 1j * im).astype(np.complex64 if low else np.complex128)
    elif fd["dt"] == "i":
        arr = re.astype(np.int32 if low else np.int64)
    else:
        arr = re.astype(np.float32 if low else np.float64)
    return arr.reshape(shape)


def low_precision(case):
    return any(fd.get("p", 8) == 4 for fd in case["fields"])


class Built:
    """the real objects of one case"""

    def __init__(self, case):
        import nifty.cl as ift
        self.case = case
        self.doms = [build_dom(r) for r in case["doms"]]
        self.arrays = [field_array(fd, self.doms[fd["dom"]].shape) for fd in case["fields"]]
        self.fields = [ift.Field(self.doms[fd["dom"]], a.copy()) for fd, a in zip(case["fields"], self.arrays)]
        self.mfields = []
        self.mdoms = []
        for m in case.get("mfields", []):
            md = ift.MultiDomain.make({k: self.fields[i].domain for k, i in zip(m["keys"], m["leaves"])})
            self.mdoms.append(md)
            self.mfields.append(ift.MultiField.from_dict({k: self.fields[i] for k, i in zip(m["keys"], m["leaves"])}, md))
        # canonical numbers by OBJECT IDENTITY (first occurrence), as check_object_identity sees them
        self.dom_ids = _identity_numbers([f.domain for f in self.fields])
        self.mdom_ids = _identity_numbers([m.domain for m in self.mfields])


def _identity_numbers(objs):
    seen, out = [], []
    for o in objs:
        for k, s in enumerate(seen):
            if s is o:
                out.append(k)
                break
        else:
            seen.append(o)
            out.append(len(seen) - 1)
    return out


# ------------------------------------------------------------------------------------------------------
# description of the real domains for the model (class F: floats shipped exactly)
# ------------------------------------------------------------------------------------------------------
def nice_recipe(r):
    """volumes are small dyadic rationals: every float operation on them in the E-class operations is exact"""
    return r[0] in ("RG", "U", "PS", "PSLM", "DOF", "LM")


def describe_sub(dom, recipe):
    d = {"shape": [int(s) for s in dom.shape]}
    try:
        dv = dom.dvol
    except AttributeError:
        d["dv"] = "n"
        d["tv"] = None
        return d
    if np.isscalar(dv):
        d["dv"] = "s"
        d["v"] = frs(float(dv))
    else:
        d["dv"] = "v"
        d["v"] = [frs(float(x)) for x in np.asarray(dv).reshape(-1)]
    # total_volume: the model recomputes StructuredDomain's formula when it is exact; otherwise it gets the float
    d["tv"] = None if nice_recipe(recipe) else frs(float(dom.total_volume))
    return d


def model_case(case, built):
    flds = []
    for fd, f, did in zip(case["fields"], built.fields, built.dom_ids):
        rec = case["doms"][fd["dom"]]
        subs = [describe_sub(d, r) for d, r in zip(f.domain, rec)]
        flds.append({"dom": did, "subs": subs, "dt": DT_NUM[fd["dt"]], "re": fd["re"],
                     "im": fd["im"] if fd["dt"] == "c" else ["0"] * len(fd["re"])})
    mfs = []
    for m, mid in zip(case.get("mfields", []), built.mdom_ids):
        order = sorted(range(len(m["keys"])), key=lambda i: m["keys"][i])
        mfs.append({"dom": mid, "leaves": [[m["keys"][i], m["leaves"][i]] for i in order]})
    ops = []
    for op in case["ops"]:
        o = dict(op)
        if "c" in o:  # python scalar operand: ["p/q","p/q", kind]
            o["cre"], o["cim"], o["cdt"] = o["c"][0], o["c"][1], DT_NUM[o["c"][2]]
            del o["c"]
        if "ord" in o:
            o["ord"] = str(o["ord"])
        for b, d in (("lo", "ldt"), ("hi", "hdt")):   # clip bounds: ["p/q", kind] | None
            if b in o:
                if o[b] is None:
                    del o[b]
                else:
                    o[b], o[d] = o[b][0], DT_NUM[o[b][1]]
        ops.append(o)
    return {"fields": flds, "mfields": mfs, "ops": ops}


# ------------------------------------------------------------------------------------------------------
# adapter: run one op on the real code, canonical result
# ------------------------------------------------------------------------------------------------------
def dt_of(x):
    k = np.asarray(x).dtype.kind
    return {"b": 0, "i": 1, "u": 1, "f": 2, "c": 3}.get(k, 9)


def canon_values(arr):
    a = np.asarray(arr).reshape(-1)
    if a.dtype.kind == "c":
        re, im = a.real, a.imag
    else:
        re, im = a, np.zeros(a.shape)
    if not (np.all(np.isfinite(np.asarray(re, dtype=float))) and np.all(np.isfinite(np.asarray(im, dtype=float)))):
        return None
    return [frs(x.item()) for x in re], [frs(x.item()) for x in im]


def canon_field(f):
    v = canon_values(f.val.asnumpy())
    if v is None:
        return {"error": "nonfinite"}
    return {"k": "f", "shape": [[int(s) for s in d.shape] for d in f.domain], "dt": dt_of(f.val.asnumpy()),
            "re": v[0], "im": v[1], "sq": False}


def canon_result(r, self_obj=None):
    import nifty.cl as ift
    if r is None:
        return {"k": "none"}
    if r is self_obj:
        return {"k": "same"}
    if isinstance(r, ift.Field):
        return canon_field(r)
    if isinstance(r, ift.MultiField):
        leaves = []
        for k in r.keys():
            leaves.append([k, canon_field(r[k])])
        return {"k": "mf", "leaves": leaves}
    if isinstance(r, (bool, int, float, complex, np.generic)):
        v = canon_values(np.asarray(r))
        if v is None:
            return {"error": "nonfinite"}
        return {"k": "s", "dt": dt_of(r), "re": v[0][0], "im": v[1][0], "sq": False}
    return {"error": "unexpected-result-type:" + type(r).__name__}


def py_spaces(sp):
    if sp is None or isinstance(sp, int):
        return sp
    return tuple(sp)


def py_scalar(c):
    re, im, kind = Fraction(c[0]), Fraction(c[1]), c[2]
    if kind == "i":
        return int(re)
    if kind == "f":
        return float(re)
    return complex(float(re), float(im))


def py_bound(b):
    return None if b is None else py_scalar([b[0], "0", b[1]])


def py_ord(o):
    return np.inf if str(o) == "inf" else int(o)


def call_impl(built, op):
    """raw call into the real code; returns (result, self_object). Exceptions propagate to run_impl."""
    name = op["op"]
    if name.startswith("m") and name != "mean":
        a = built.mfields[op["a"]]
        if name == "mbin":
            b = built.mfields[op["b"]]
            fn = getattr(operator, op["name"])
            return (fn(b, a) if op.get("rev") else fn(a, b)), a
        if name == "mbins":
            c = py_scalar(op["c"])
            fn = getattr(operator, op["name"])
            return (fn(c, a) if op.get("rev") else fn(a, c)), a
        if name == "mun":
            return _unary(a, op["name"]), a
        if name == "ms_vdot":
            return a.s_vdot(built.mfields[op["b"]]), a
        if name == "ms_sum":
            return a.s_sum(), a
        if name == "mvdot":
            return a.vdot(built.mfields[op["b"]]), a
        if name == "ms_all":
            return a.s_all(), a
        if name == "ms_any":
            return a.s_any(), a
        if name == "msize":
            return a.size, a
        if name == "mclip":
            return a.clip(py_bound(op.get("lo")), py_bound(op.get("hi"))), a
        if name == "mflex":
            b = built.mfields[op["b"]]
            return (a.unite(b) if op.get("unite") else a.flexible_addsub(b, bool(op.get("neg")))), None
        if name == "mnorm":
            return a.norm(py_ord(op["ord"])), a
        raise KeyError(name)
    f = built.fields[op["f"]]
    sp = py_spaces(op.get("spaces"))
    if name == "weight":
        return f.weight(op["power"], sp), f
    if name in ("scalar_weight", "total_volume"):
        return getattr(f, name)(sp), f
    if name in CONTRACTIONS:
        return getattr(f, name)(sp), f
    if name == "vdot":
        return f.vdot(built.fields[op["g"]], sp), f
    if name == "s_vdot":
        return f.s_vdot(built.fields[op["g"]]), f
    if name in ("s_sum", "s_prod", "s_all", "s_any", "s_integrate", "s_mean", "s_var", "s_std"):
        return getattr(f, name)(), f
    if name == "norm":
        return f.norm(py_ord(op["ord"])), f
    if name == "un":
        return _unary(f, op["name"]), f
    if name == "bin":
        g = built.fields[op["g"]]
        fn = getattr(operator, op["name"])
        return (fn(g, f) if op.get("rev") else fn(f, g)), f
    if name == "bins":
        c = py_scalar(op["c"])
        fn = getattr(operator, op["name"])
        return (fn(c, f) if op.get("rev") else fn(f, c)), f
    if name == "scale":
        return f.scale(py_scalar(op["c"])), f
    if name == "clip":
        return f.clip(py_bound(op.get("lo")), py_bound(op.get("hi"))), f
    if name == "unite":
        return f.unite(built.fields[op["g"]]), f
    if name == "flexible_addsub":
        return f.flexible_addsub(built.fields[op["g"]], bool(op.get("neg"))), f
    raise KeyError(name)


def _unary(x, name):
    if name == "neg":
        return -x
    if name == "pos":
        return +x
    if name == "abs":
        return abs(x)
    if name == "conjugate":
        return x.conjugate()
    if name == "real":
        return x.real
    if name == "imag":
        return x.imag
    raise KeyError(name)


def run_impl(built, op):
    import warnings
    try:
        with warnings.catch_warnings():
            warnings.simplefilter("ignore")
            with np.errstate(all="ignore"):
                r, me = call_impl(built, op)
        return canon_result(r, me)
    except Exception as e:  # noqa: BLE001 - every failure of the real code becomes an error kind
        return kind_of(e)


# ------------------------------------------------------------------------------------------------------
# comparison of an implementation result with the model's exact result
# ------------------------------------------------------------------------------------------------------
def _num(s):
    return Fraction(s)


def _close(impl_re, impl_im, m_re, m_im, sq, exact, TOL=TOL):
    """impl_* exact Fractions of the floats the code returned; m_* the model's exact rationals"""
    if sq:
        # the model lists the square of a real non-negative answer (std, norm, |z|)
        if impl_im != 0 or impl_re < 0:
            return False
        v = float(impl_re) ** 2
        return abs(v - float(m_re)) <= TOL * (abs(float(m_re)) + 1.0) and m_im == 0
    if impl_re == m_re and impl_im == m_im:
        return True
    if exact:
        return False
    scale = abs(float(m_re)) + abs(float(m_im)) + 1.0
    return abs(float(impl_re - m_re)) <= TOL * scale and abs(float(impl_im - m_im)) <= TOL * scale


def agree(impl, model, exact, tol=TOL):
    """True iff the canonical implementation result matches the model result (class E: exactly; T: 1e-9)"""
    if "error" in impl or "error" in model:
        return impl.get("error") == model.get("error")
    if impl.get("k") != model.get("k"):
        return False
    k = impl["k"]
    if k in ("none", "same"):
        return True
    if k == "mf":
        if [l[0] for l in impl["leaves"]] != [l[0] for l in model["leaves"]]:
            return False
        return all(agree(a[1], b[1], exact, tol) for a, b in zip(impl["leaves"], model["leaves"]))
    if impl["dt"] != model["dt"]:
        return False
    sq = bool(model.get("sq"))
    if k == "s":
        return _close(_num(impl["re"]), _num(impl["im"]), _num(model["re"]), _num(model["im"]), sq, exact, tol)
    if k == "f":
        if impl["shape"] != model["shape"] or len(impl["re"]) != len(model["re"]):
            return False
        return all(_close(_num(a), _num(b), _num(c), _num(d), sq, exact, tol)
                   for a, b, c, d in zip(impl["re"], impl["im"], model["re"], model["im"]))
    return False


def too_big(model):
    """products that leave the exactly representable range (|v| >= 2^50, or an odd part that needs more than 53 bits,
    or an int64 wrap): every partial product of a product of integers / 2^-k multiples divides the final odd part, so
    a representable final value means an exact evaluation; the others are not compared"""
    lim = 2 ** 50

    def big(s):
        f = Fraction(s)
        if abs(f) >= lim:
            return True
        q = f.denominator
        if q & (q - 1):
            return True
        return abs(f.numerator) >= 2 ** 53

    if model.get("k") == "s":
        return big(model["re"]) or big(model["im"])
    if model.get("k") == "f":
        return any(big(s) for s in model["re"]) or any(big(s) for s in model["im"])
    return False


def subsets(n):
    for k in range(n + 1):
        for c in itertools.combinations(range(n), k):
            yield c
