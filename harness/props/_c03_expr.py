"""Shared by C03/C04: expression trees (JSON) <-> real NIFTy operators, dense extraction, bit-exact float transport."""
import struct

import numpy as np


# ---------------------------------------------------------------------------------------------- float transport
def f2b(x):
    return struct.unpack("<Q", struct.pack("<d", float(x)))[0]


def b2f(n):
    return struct.unpack("<d", struct.pack("<Q", int(n)))[0]


def enc(a):
    return [f2b(v) for v in np.asarray(a, dtype=np.float64).ravel()]


def dec(l):
    return np.array([b2f(v) for v in l], dtype=np.float64)


def dec2(ll, ncols):
    if not ll:
        return np.zeros((0, ncols))
    return np.array([[b2f(v) for v in l] for l in ll], dtype=np.float64).reshape(len(ll), ncols)


# ---------------------------------------------------------------------------------------------- tree utilities
BIN = ("add", "sub", "mul", "vdot", "bil", "varcov")
UN = ("scale", "addc", "mulc", "ptw", "lin", "sum", "getKey", "putKey", "sqnorm", "quad", "gauss")


def bil_info(t):
    """two-operand einsum `ss` on operand shapes -> (m, na, nb, T[m, na, nb], output shape); operands are flattened"""
    sa, sb = [tuple(x) for x in t["shapes"]]
    na, nb = int(np.prod(sa)), int(np.prod(sb))
    out0 = np.einsum(t["ss"], np.zeros(sa), np.zeros(sb))
    oshape = out0.shape
    m = int(np.prod(oshape)) if len(oshape) else 1
    T = np.zeros((m, na, nb))
    for i in range(na):
        ea = np.zeros(na)
        ea[i] = 1
        for j in range(nb):
            eb = np.zeros(nb)
            eb[j] = 1
            T[:, i, j] = np.einsum(t["ss"], ea.reshape(sa), eb.reshape(sb)).ravel()
    return m, na, nb, T, oshape


def keys_read(t):
    """{key: size} of the environment keys a tree reads (variables under a chain's `f` read the chain's intermediate)"""
    out = {}

    def rec(t):
        t = expand(t)
        if t["t"] == "chain":
            rec(t["g"])
            return
        if t["t"] == "var":
            out.setdefault(t["k"], t["n"])
        for c in children(t):
            rec(c)
    rec(t)
    return out


def expand(t):
    """`pinsert` = `F @ G` where G's target differs from F's domain (Operator.partial_insert):
    (F + id on the keys of G's target that F does not read) o (G + id on the keys F reads that G does not produce)"""
    if t["t"] == "integrate":
        # IntegrationOperator: weight with the volume element, then sum
        return dict(t="sum", a=dict(t="scale", c=t["vol"], a=t["a"]))
    if t["t"] in ("addcm", "mulcm"):
        # Adder / makeOp with a MultiField on a multi-domain operand: key-wise
        out = None
        for k in sorted(t["C"]):
            inner = dict(t="getKey", k=k, a=t["a"])
            node = (dict(t="addc", c=t["C"][k], neg=t["neg"], a=inner) if t["t"] == "addcm" else dict(t="mulc", d=t["C"][k], a=inner))
            leaf = dict(t="putKey", k=k, a=node)
            out = leaf if out is None else dict(t="add", a=out, b=leaf)
        return out
    if t["t"] == "ptwa":
        # point-wise functions with ARRAY parameters (Field arguments of `ptw`), expressed with scalar-parameter entries
        f, P, a = t["f"], t["P"], t["a"]
        if f == "power":            # a_i ** e_i = exp(e_i * log a_i)
            return dict(t="ptw", f="exp", p=[], a=dict(t="mulc", d=P[0], a=dict(t="ptw", f="log", p=[], a=a)))
        if f == "exponentiate":     # b_i ** a_i = exp(log(b_i) * a_i)
            return dict(t="ptw", f="exp", p=[], a=dict(t="mulc", d=[float(np.log(b)) for b in P[0]], a=a))
        if f == "clip":             # lo + (hi-lo) * clip((a-lo)/(hi-lo), 0, 1)
            lo, hi = P
            w = [h - l for l, h in zip(lo, hi)]
            inner = dict(t="mulc", d=[1.0 / x for x in w], a=dict(t="addc", c=lo, neg=True, a=a))
            return dict(t="addc", c=lo, neg=False, a=dict(t="mulc", d=w, a=dict(t="ptw", f="clip", p=[0.0, 1.0], a=inner)))
        raise ValueError(f)
    if t["t"] != "pinsert":
        return t
    k1, k2 = keys_read(t["f"]), dom(t["g"])
    f2, g2 = t["f"], t["g"]
    for k in sorted(set(k2) - set(k1)):
        f2 = dict(t="add", a=f2, b=dict(t="putKey", k=k, a=dict(t="var", k=k, n=k2[k])))
    for k in sorted(set(k1) - set(k2)):
        g2 = dict(t="add", a=g2, b=dict(t="putKey", k=k, a=dict(t="var", k=k, n=k1[k])))
    return dict(t="chain", f=f2, g=g2)


def strip(t):
    """copy of a tree without the cached expansions (what is stored in cases / replays)"""
    return {k: (strip(v) if isinstance(v, dict) else v) for k, v in t.items() if k != "_x"}


def children(t):
    t = expand(t)
    if t["t"] in BIN:
        return [t["a"], t["b"]]
    if t["t"] == "chain":
        return [t["f"], t["g"]]
    if t["t"] == "var":
        return []
    return [t["a"]]


def nodes(t):
    t = expand(t)
    yield t
    for c in children(t):
        yield from nodes(c)


def size(t):
    return sum(1 for _ in nodes(t))


def union(d1, d2):
    d = dict(d1)
    for k, n in d2.items():
        d.setdefault(k, n)
    return d


def dom(t):
    """target domain {key: size} of a tree; single-domain targets use the key ''"""
    t = expand(t)
    k = t["t"]
    if k == "var":
        return {"": t["n"]}
    if k in ("add", "sub"):
        return union(dom(t["a"]), dom(t["b"]))
    if k in ("mul", "scale", "addc", "mulc", "ptw"):
        return dom(t["a"])
    if k == "lin":
        return {"": t["m"]}
    if k in ("sum", "vdot", "sqnorm", "quad", "gauss", "varcov"):
        return {"": 0}          # size 0 = the scalar domain (one entry)
    if k == "bil":
        m, _, _, _, oshape = bil_info(t)
        return {"": m if len(oshape) else 0}
    if k == "getKey":
        return {"": dom(t["a"])[t["k"]]}
    if k == "putKey":
        return {t["k"]: dom(t["a"])[""]}
    if k == "chain":
        return dom(t["f"])
    raise ValueError(k)


def nent(n):
    """number of entries of a (sub)domain of size n; 0 denotes the scalar domain"""
    return n if n > 0 else 1


def nflat(d):
    return sum(nent(n) for n in d.values())


def fl(a):
    """json-able exact copy of floats inside trees: trees carry python floats; `ship` converts them to bit patterns"""
    return [float(v) for v in np.asarray(a, dtype=np.float64).ravel()]


def ship(t):
    """tree with python floats -> tree with bit patterns (what the Lean driver reads)"""
    t = expand(t)
    if t["t"] == "bil":
        m, na, nb, T, _ = bil_info(t)
        return dict(t="bil", m=m, na=na, nb=nb, T=[[[f2b(x) for x in row] for row in mat] for mat in T],
                    a=ship(t["a"]), b=ship(t["b"]))
    r = {}
    for k, v in t.items():
        if k in ("a", "b", "f", "g") and isinstance(v, dict):
            r[k] = ship(v)
        elif k in ("c",) and t["t"] == "scale":
            r[k] = f2b(v)
        elif k in ("c", "d", "p", "data", "icov"):
            r[k] = [f2b(x) for x in v]
        elif k == "rows":
            r[k] = [[f2b(x) for x in row] for row in v]
        else:
            r[k] = v
    return r


# ---------------------------------------------------------------------------------------------- real operators
class Builder:
    """builds the REAL operator for a tree over an input domain {key: size} ('' alone = single domain)"""

    def __init__(self, indom, space="U"):
        import nifty.cl as ift
        self.ift = ift
        self.space = space
        self.indom = dict(indom)
        self.single = list(indom.keys()) == [""]

    def sp(self, n):
        ift = self.ift
        if n == 0:
            return ift.DomainTuple.scalar_domain()
        return ift.DomainTuple.make(ift.UnstructuredDomain(n) if self.space == "U" else ift.RGSpace(n))

    def field(self, vals, im=None):
        if im is not None:
            return self.ift.makeField(self.sp(len(vals)), np.asarray(vals, dtype=np.float64) + 1j * np.asarray(im, dtype=np.float64))
        return self.ift.makeField(self.sp(len(vals)), np.asarray(vals, dtype=np.float64))

    def mdom(self, d):
        if list(d.keys()) == [""]:
            return self.sp(d[""])
        return self.ift.MultiDomain.make({k: self.sp(n) for k, n in d.items()})

    def point(self, x):
        """x: {key: array} -> Field / MultiField on the input domain"""
        ift = self.ift
        if self.single:
            return ift.makeField(self.sp(self.indom[""]), np.asarray(x[""]))
        return ift.MultiField.from_dict({k: ift.makeField(self.sp(n), np.asarray(x[k])) for k, n in self.indom.items()})

    def flip(self, t, salt):
        """deterministic coin per node: which of the library's equivalent spellings to use"""
        import hashlib, json
        h = hashlib.sha1((json.dumps(strip(t), sort_keys=True, default=str) + salt).encode()).digest()
        return h[0] & 1

    def build(self, t):
        ift = self.ift
        k = t["t"]
        # sugar of Operator (__truediv__, __rtruediv__, __pow__, __rpow__, __abs__, __neg__, __mul__/__add__/__sub__ with
        # numbers and fields): same mathematics as the plain constructors below
        if k == "mul" and t["b"]["t"] == "ptw" and t["b"]["f"] == "reciprocal" and self.flip(t, "div"):
            return self.build(t["a"]) / self.build(t["b"]["a"])
        if k == "ptw" and t["f"] == "reciprocal" and self.flip(t, "rdiv"):
            return 1.0 / self.build(t["a"])
        if k == "ptw" and t["f"] == "power" and self.flip(t, "pow"):
            return self.build(t["a"]) ** t["p"][0]
        if k == "ptw" and t["f"] == "abs" and self.flip(t, "abs"):
            return abs(self.build(t["a"]))
        if (k == "ptw" and t["f"] == "exp" and t["a"]["t"] == "mul" and t["a"]["b"]["t"] == "ptw"
                and t["a"]["b"]["f"] == "log" and self.flip(t, "oppow")):
            return self.build(t["a"]["b"]["a"]) ** self.build(t["a"]["a"])
        if k == "ptw" and t["f"] == "exponentiate" and self.flip(t, "rpow"):
            return t["p"][0] ** self.build(t["a"])
        if "c_im" in t or "d_im" in t or "rows_im" in t:
            # complex constants (complex mode of C03): plain constructors
            a = self.build(t["a"])
            if k == "scale":
                return a.scale(complex(t["c"], t["c_im"]))
            if k == "addc":
                return ift.Adder(self.field(t["c"], t["c_im"]), neg=t["neg"]) @ a
            if k == "mulc":
                if self.flip(t, "staticeinsum"):
                    n = len(t["d"])
                    mle = ift.MultiLinearEinsum(ift.MultiDomain.make({"e0": self.sp(n)}), "i,i->i", key_order=("st", "e0"),
                                                static_mf=ift.MultiField.from_dict({"st": self.field(t["d"], t["d_im"])}))
                    return mle @ a.ducktape_left("e0")
                return ift.makeOp(self.field(t["d"], t["d_im"])) @ a
            if k == "lin":
                m = (np.array(t["rows"], dtype=np.float64) + 1j * np.array(t["rows_im"], dtype=np.float64)).reshape(t["m"], t["n"])
                if self.flip(t, "lineinsum"):
                    dm = ift.DomainTuple.make((self.sp(t["m"])[0], self.sp(t["n"])[0]))
                    mf = ift.MultiField.from_dict({"mat": ift.makeField(dm, m)})
                    return ift.LinearEinsum(self.sp(t["n"]), mf, "ij,j->i", key_order=("mat",)) @ a
                if t["m"] == t["n"]:
                    return ift.MatrixProductOperator(self.sp(t["n"]), m) @ a
                return dense_op(ift, self.sp(t["n"]), self.sp(t["m"]), m) @ a
        # einsum.py / jax_operator.py spellings of modelled nodes
        if k == "lin" and "rows_im" not in t and self.flip(t, "lineinsum"):
            m = np.array(t["rows"], dtype=np.float64).reshape(t["m"], t["n"])
            dm = ift.DomainTuple.make((self.sp(t["m"])[0], self.sp(t["n"])[0]))
            mf = ift.MultiField.from_dict({"mat": ift.makeField(dm, m)})
            L = ift.LinearEinsum(self.sp(t["n"]), mf, "ij,j->i", key_order=("mat",))
            if t["a"]["t"] == "ptw" and self.flip(t, "ptwpre") and "p" in t["a"]:
                return L.ptw_pre(t["a"]["f"], *t["a"]["p"]) @ self.build(t["a"]["a"])      # Operator.ptw_pre
            return L @ self.build(t["a"])
        if k == "mulc" and "d_im" not in t and self.flip(t, "staticeinsum"):
            n = len(t["d"])
            mle = ift.MultiLinearEinsum(ift.MultiDomain.make({"e0": self.sp(n)}), "i,i->i", key_order=("st", "e0"),
                                        static_mf=ift.MultiField.from_dict({"st": self.field(t["d"])}))
            return mle @ self.build(t["a"]).ducktape_left("e0")
        if (k == "bil" and t["ss"] == "i,i->i" and t["a"]["t"] == "bil" and t["a"]["ss"] == "i,i->i"
                and self.flip(t, "einsum3")):
            n = t["shapes"][0][0]
            dn = ift.DomainTuple.make(ift.UnstructuredDomain(n))
            parts = [t["a"]["a"], t["a"]["b"], t["b"]]
            G = None
            for i, sub in enumerate(parts):
                o = self.build(sub).ducktape_left(dn).ducktape_left(f"e{i}")
                G = o if G is None else G + o
            mle = ift.MultiLinearEinsum(ift.MultiDomain.make({f"e{i}": dn for i in range(3)}), "i,i,i->i",
                                        key_order=("e0", "e1", "e2"))
            return (mle @ G).ducktape_left(self.sp(n))
        if (k == "ptw" and t["f"] in ("exp", "sin", "cos", "tanh", "sinh", "cosh", "arctan") and self.flip(t, "jax")
                and self.flip(t, "jax2") and self.flip(t, "jax3")):
            a = self.build(t["a"])
            if not hasattr(a.target, "keys"):
                import jax
                jax.config.update("jax_enable_x64", True)
                import jax.numpy as jnp
                return ift.JaxOperator(a.target, a.target, getattr(jnp, t["f"])) @ a
        if k == "scale" and t["c"] == -1.0 and self.flip(t, "neg"):
            return -self.build(t["a"])
        if k == "scale" and self.flip(t, "nummul"):
            return t["c"] * self.build(t["a"])
        if k == "addc" and self.flip(t, "fieldadd"):
            a, f = self.build(t["a"]), self.field(t["c"])
            return (a - f) if t["neg"] else (a + f)
        if k == "mulc" and self.flip(t, "fieldmul"):
            return self.build(t["a"]) * self.field(t["d"])
        if k == "var":
            if self.single:
                return ift.ScalingOperator(self.sp(t["n"]), 1.)
            return ift.FieldAdapter(self.sp(t["n"]), t["k"])
        if k == "add":
            a, b = self.build(t["a"]), self.build(t["b"])
            from nifty.cl.operators.energy_operators import LikelihoodEnergyOperator as LH
            if isinstance(a, LH) and not isinstance(b, LH):
                # `likelihood + plain energy` is not supported by the library (LikelihoodEnergyOperator.__add__ insists on
                # likelihoods); the generic _OpSum is reached with the plain operand on the left
                return _opsum(a, b)
            return a + b
        if k == "sub":
            return self.build(t["a"]) - self.build(t["b"])
        if k == "mul":
            return self.build(t["a"]) * self.build(t["b"])
        if k == "scale":
            return self.build(t["a"]).scale(t["c"])
        if k == "addc":
            return ift.Adder(self.field(t["c"]), neg=t["neg"]) @ self.build(t["a"])
        if k == "mulc":
            return ift.makeOp(self.field(t["d"])) @ self.build(t["a"])
        if k == "ptw":
            return self.build(t["a"]).ptw(t["f"], *t["p"])
        if k == "lin":
            m = np.array(t["rows"], dtype=np.float64).reshape(t["m"], t["n"])
            if t["m"] == t["n"]:
                return ift.MatrixProductOperator(self.sp(t["n"]), m) @ self.build(t["a"])
            return dense_op(ift, self.sp(t["n"]), self.sp(t["m"]), m) @ self.build(t["a"])
        if k == "sum":
            return self.build(t["a"]).sum()
        if k == "vdot":
            return self.build(t["a"]).vdot(self.build(t["b"]))
        if k == "getKey":
            return self.build(t["a"])[t["k"]]
        if k == "putKey":
            return self.build(t["a"]).ducktape_left(t["k"])
        if k == "integrate":
            return self.build(t["a"]).integrate()
        if k == "ptwa":
            return self.build(t["a"]).ptw(t["f"], *[self.field(P) for P in t["P"]])
        if k in ("addcm", "mulcm"):
            a = self.build(t["a"])
            mf = ift.MultiField.from_dict({kk: self.field(v) for kk, v in t["C"].items()})
            if k == "addcm":
                return (ift.Adder(mf, neg=t["neg"]) @ a) if self.flip(t, "adder") else ((a - mf) if t["neg"] else (a + mf))
            return (ift.makeOp(mf) @ a) if self.flip(t, "makeop") else (a * mf)
        if k == "bil":
            m, na, nb, T, oshape = bil_info(t)
            sa, sb = [tuple(x) for x in t["shapes"]]
            da = ift.DomainTuple.make(tuple(ift.UnstructuredDomain(n) for n in sa))
            db = ift.DomainTuple.make(tuple(ift.UnstructuredDomain(n) for n in sb))
            A = self.build(t["a"]).ducktape_left(da).ducktape_left("e0")
            B = self.build(t["b"]).ducktape_left(db).ducktape_left("e1")
            mle = ift.MultiLinearEinsum(ift.MultiDomain.make({"e0": da, "e1": db}), t["ss"], key_order=("e0", "e1"))
            op = mle @ (A + B)
            if len(oshape) != 0:
                op = op.ducktape_left(self.sp(m))
            return op
        if k == "varcov":
            n = t["n"]
            a, b = t["a"], t["b"]
            if (not self.single and a["t"] == "var" and b["t"] == "var" and a["k"] != b["k"]):
                # the energy directly on two input keys: its own simplification rule applies (C04)
                return ift.VariableCovarianceGaussianEnergy(self.sp(n), a["k"], b["k"], np.float64)
            E = ift.VariableCovarianceGaussianEnergy(self.sp(n), "r_", "i_", np.float64)
            return E @ (self.build(a).ducktape_left("r_") + self.build(b).ducktape_left("i_"))
        if k == "pinsert":
            inner = Builder(keys_read(t["f"]), self.space)
            F, G = inner.build(t["f"]), self.build(t["g"])
            if F.domain is G.target:
                return F @ G
            # Operator.__matmul__ reaches partial_insert only for non-linear operands (LinearOperator.__matmul__ builds a
            # ChainOperator and insists on equal domains), so it is called directly when both are linear
            from nifty.cl.operators.linear_operator import LinearOperator
            if isinstance(F, LinearOperator) and isinstance(G, LinearOperator):
                return F.partial_insert(G)
            return F @ G
        if k == "chain":
            g = self.build(t["g"])
            inner = Builder(dom(t["g"]), self.space)
            f = inner.build(t["f"])
            if f.domain is not g.target:
                # f reads only some keys of g's target: `f @ g` (partial_insert) needs a multi-domain target of f,
                # so the unused keys are dropped explicitly with the library's PartialExtractor
                from nifty.cl.operators.simple_linear_operators import PartialExtractor
                g = PartialExtractor(g.target, f.domain) @ g
            return f @ g
        if k == "sqnorm":
            a = self.build(t["a"])
            return ift.Squared2NormOperator(a.target) @ a
        if k == "quad":
            return ift.QuadraticFormOperator(ift.makeOp(self.field(t["d"]))) @ self.build(t["a"])
        if k == "gauss":
            return ift.GaussianEnergy(data=self.field(t["data"]),
                                      inverse_covariance=ift.makeOp(self.field(t["icov"]))) @ self.build(t["a"])
        raise ValueError(k)


_DENSE = {}


def _opsum(a, b):
    from nifty.cl.operators.operator import _OpSum
    return _OpSum(a, b)


def dense_op(ift, domain, target, m):
    """a user-level LinearOperator given by a (non-square) dense matrix; the library has only the square
    MatrixProductOperator.  Everything around it (chains, sums, Jacobian composition) is the library's."""
    if "cls" not in _DENSE:
        class DenseOp(ift.LinearOperator):
            def __init__(self, domain, target, m):
                self._domain = ift.DomainTuple.make(domain)
                self._target = ift.DomainTuple.make(target)
                self._m = m
                self._capability = self.TIMES | self.ADJOINT_TIMES

            def apply(self, x, mode):
                self._check_input(x, mode)
                v = x.val.asnumpy() if hasattr(x.val, "asnumpy") else np.asarray(x.val)
                if mode == self.TIMES:
                    return ift.makeField(self._target, self._m @ v)
                return ift.makeField(self._domain, self._m.conj().T @ v)
        _DENSE["cls"] = DenseOp
    return _DENSE["cls"](domain, target, m)


def op_indom(b, op):
    """the part of the environment the real operator actually reads (its domain)"""
    if b.single:
        return dict(b.indom)
    return {k: b.indom[k] for k in op.domain.keys()}


def flat_dom(d):
    """sorted [(key, size)]"""
    return sorted(d.items())


def to_flat(f, d):
    """Field/MultiField -> flat array in sorted key order"""
    if list(d.keys()) == [""]:
        return np.asarray(f.val.asnumpy() if hasattr(f.val, "asnumpy") else f.val).ravel()
    parts = []
    for k, _ in flat_dom(d):
        v = f[k].val
        parts.append(np.asarray(v.asnumpy() if hasattr(v, "asnumpy") else v).ravel())
    return np.concatenate(parts) if parts else np.zeros(0)


def from_flat(b, a, d, dtype=np.float64):
    """flat array -> Field/MultiField on the domain d (built with builder b)"""
    ift = b.ift
    a = np.asarray(a, dtype=dtype)
    if list(d.keys()) == [""]:
        return ift.makeField(b.sp(d[""]), a.copy().reshape(b.sp(d[""]).shape))
    out, o = {}, 0
    for k, n in flat_dom(d):
        out[k] = ift.makeField(b.sp(n), a[o:o + nent(n)].copy().reshape(b.sp(n).shape))
        o += nent(n)
    return ift.MultiField.from_dict(out)


def dense(apply, b, din, dout, dtype=np.float64):
    """matrix of a linear map given as python callable Field->Field: column j = apply(e_j); returns (nout, nin)"""
    nin = nflat(din)
    nout = nflat(dout)
    m = np.zeros((nout, nin), dtype=dtype)
    for j in range(nin):
        e = np.zeros(nin, dtype=dtype)
        e[j] = 1
        m[:, j] = to_flat(apply(from_flat(b, e, din, dtype)), dout)
    return m


def linearize(b, op, t_dom, x, wm):
    """real code: op(Linearization.make_var(x, wm)) -> dict(val, jac, adj, metric) as dense arrays"""
    ift = b.ift
    din, dout = op_indom(b, op), t_dom
    p = b.point(x)
    if not b.single:
        p = p.extract(op.domain)
    lin = op(ift.Linearization.make_var(p, wm))
    res = dict(val=to_flat(lin.val, dout), pval=to_flat(op(p), dout), din=din)
    res["jac"] = dense(lin.jac, b, din, dout)
    res["adj"] = dense(lin.jac.adjoint_times, b, dout, din)
    res["metric"] = None if lin.metric is None else dense(lin.metric, b, din, din)
    res["want_metric"] = bool(lin.want_metric)
    return res


def fd_jac(b, op, t_dom, x, rel=1e-4):
    """Richardson-extrapolated central differences of the REAL plain evaluation; returns (nout, nin)"""
    din = op_indom(b, op)
    x0 = np.concatenate([np.asarray(x[k], dtype=np.float64) for k, _ in flat_dom(din)])
    nin = x0.size
    nout = nflat(t_dom)
    J = np.zeros((nout, nin))

    def f(v):
        return to_flat(op(from_flat(b, v, din)), t_dom)
    for j in range(nin):
        h = rel * max(1.0, abs(x0[j]))
        e = np.zeros(nin)
        e[j] = h
        d1 = (f(x0 + e) - f(x0 - e)) / (2 * h)
        d2 = (f(x0 + e / 2) - f(x0 - e / 2)) / h
        J[:, j] = (4 * d2 - d1) / 3
    return J


# ---------------------------------------------------------------------------------------------- generator
_MEMO = {}


def pyeval(t, env):
    """memoised on (tree object, environment object); both are kept alive by the cache entry"""
    key = (id(t), id(env))
    hit = _MEMO.get(key)
    if hit is not None and hit[0] is t and hit[1] is env:
        return hit[2]
    v = _pyeval(t, env)
    if len(_MEMO) > 20000:
        _MEMO.clear()
    _MEMO[key] = (t, env, v)
    return v


def _pyeval(t, env):
    """numpy reference evaluation used ONLY to steer generation (argument ranges of point-wise functions)"""
    from nifty.cl.pointwise import ptw_dict
    t = expand(t)
    k = t["t"]
    if k == "var":
        return {"": np.asarray(env[t["k"]], dtype=np.float64)}
    if k in ("add", "sub"):
        a, b = pyeval(t["a"], env), pyeval(t["b"], env)
        r = {}
        for key in set(a) | set(b):
            if key in a and key in b:
                r[key] = a[key] + b[key] if k == "add" else a[key] - b[key]
            elif key in a:
                r[key] = a[key]
            else:
                r[key] = b[key] if k == "add" else -b[key]
        return r
    if k == "mul":
        a, b = pyeval(t["a"], env), pyeval(t["b"], env)
        return {key: a[key] * b[key] for key in a}
    if k == "bil":
        a, b = pyeval(t["a"], env)[""], pyeval(t["b"], env)[""]
        sa, sb = [tuple(x) for x in t["shapes"]]
        return {"": np.atleast_1d(np.einsum(t["ss"], a.reshape(sa), b.reshape(sb))).ravel()}
    if k == "varcov":
        a, b = pyeval(t["a"], env)[""], pyeval(t["b"], env)[""]
        with np.errstate(all="ignore"):
            return {"": np.array([0.5 * (np.sum(a * a * b) - np.sum(np.log(b)))])}
    a = pyeval(t["a"], env) if "a" in t else None
    if k == "scale":
        return {key: t["c"] * v for key, v in a.items()}
    if k == "addc":
        c = np.array(t["c"])
        return {key: (v - c if t["neg"] else v + c) for key, v in a.items()}
    if k == "mulc":
        return {key: np.array(t["d"]) * v for key, v in a.items()}
    if k == "ptw":
        return {key: ptw_dict[t["f"]][0](v, *t["p"]) for key, v in a.items()}
    if k == "lin":
        return {"": np.array(t["rows"]).reshape(t["m"], t["n"]) @ a[""]}
    if k == "sum":
        return {"": np.array([sum(v.sum() for v in a.values())])}
    if k == "vdot":
        b = pyeval(t["b"], env)
        return {"": np.array([sum((a[key] * b[key]).sum() for key in a)])}
    if k == "getKey":
        return {"": a[t["k"]]}
    if k == "putKey":
        return {t["k"]: a[""]}
    if k == "chain":
        return pyeval(t["f"], pyeval(t["g"], env))
    if k == "sqnorm":
        return {"": np.array([sum((v * v).sum() for v in a.values())])}
    if k == "quad":
        return {"": np.array([0.5 * (a[""] * np.array(t["d"]) * a[""]).sum()])}
    if k == "gauss":
        r = a[""] - np.array(t["data"])
        return {"": np.array([0.5 * (r * np.array(t["icov"]) * r).sum()])}
    raise ValueError(k)


def _ok_all(v):
    return np.all(np.isfinite(v)) and np.all(np.abs(v) < 40)


PTW_RULES = {
    # name: (param generator, validity of arguments with safety margins around poles / kinks)
    "sqrt": (None, lambda v: np.all(v > 0.1)),
    "sin": (None, _ok_all), "cos": (None, _ok_all),
    "tan": (None, lambda v: _ok_all(v) and np.all(np.abs(np.cos(v)) > 0.25)),
    "sinc": (None, lambda v: np.all(np.abs(v) < 8) and np.all((np.abs(v) > 0.05) | (v == 0))),
    "exp": (None, lambda v: np.all(np.abs(v) < 4)), "expm1": (None, lambda v: np.all(np.abs(v) < 4)),
    "log": (None, lambda v: np.all(v > 0.1) and _ok_all(v)), "log10": (None, lambda v: np.all(v > 0.1) and _ok_all(v)),
    "log1p": (None, lambda v: np.all(v > -0.8) and _ok_all(v)),
    "sinh": (None, lambda v: np.all(np.abs(v) < 4)), "cosh": (None, lambda v: np.all(np.abs(v) < 4)),
    "tanh": (None, _ok_all), "sigmoid": (None, _ok_all), "arctan": (None, _ok_all),
    "reciprocal": (None, lambda v: np.all(np.abs(v) > 0.2) and _ok_all(v)),
    "abs": (None, lambda v: np.all(np.abs(v) > 0.05) and _ok_all(v)),
    "absolute": (None, lambda v: np.all(np.abs(v) > 0.05) and _ok_all(v)),
    "sign": (None, lambda v: np.all(np.abs(v) > 0.05) and _ok_all(v)),
    "unitstep": (None, lambda v: np.all(np.abs(v) > 0.05) and _ok_all(v)),
    "power": ("expo", lambda v: np.all(v > 0.2) and np.all(v < 6)),
    "clip": ("clip", None),
    "softplus": (None, lambda v: np.all(np.abs(np.abs(v) - 33) > 0.5) and np.all(np.abs(v) < 60)),
    "exponentiate": ("base", lambda v: np.all(np.abs(v) < 4)),
}


class Gen:
    def __init__(self, rng, names):
        self.rng = rng
        self.names = [n for n in names if n in PTW_RULES]
        self.unknown = [n for n in names if n not in PTW_RULES]

    def dy(self, lo=-2.0, hi=2.0, den=8):
        """a dyadic rational k/den in [lo, hi]"""
        return self.rng.randint(int(lo * den), int(hi * den)) / den

    def vec(self, n, lo=-2.0, hi=2.0, nz=False):
        out = []
        for _ in range(n):
            v = self.dy(lo, hi)
            while nz and v == 0:
                v = self.dy(lo, hi)
            out.append(v)
        return out

    def ptw_node(self, a, env):
        """wrap `a` into a point-wise function valid (with margin) at the current argument values, or None"""
        vals = np.concatenate([np.atleast_1d(v) for v in pyeval(a, env).values()])
        r = self.rng
        for _ in range(12):
            f = r.choice(self.names)
            pg, ok = PTW_RULES[f]
            p = []
            if pg == "expo":
                p = [r.choice([-1.5, -1.0, -0.5, 0.5, 1.0, 1.5, 2.0, 2.5, 3.0])]
            elif pg == "base":
                p = [r.choice([0.5, 0.75, 1.5, 2.0, 2.5])]
            elif pg == "clip":
                lo = self.dy(-1.5, 0.5)
                hi = lo + r.choice([0.5, 1.0, 1.5, 2.0])
                p = [lo, hi]
                if not (np.all(np.abs(vals - lo) > 0.05) and np.all(np.abs(vals - hi) > 0.05) and _ok_all(vals)):
                    continue
            if ok is not None and not ok(vals):
                continue
            t = dict(t="ptw", f=f, p=p, a=a)
            out = np.concatenate([np.atleast_1d(v) for v in pyeval(t, env).values()])
            if _ok_all(out):
                return t
        return None

    def single(self, n, env, depth):
        """tree with a single-domain target of size n over the environment env ({key: array})"""
        r = self.rng
        keys_n = [k for k, v in env.items() if len(v) == n]
        if depth <= 0 or r.random() < 0.12:
            if keys_n:
                return dict(t="var", k=r.choice(keys_n), n=n)
            k = r.choice(sorted(env))
            m = len(env[k])
            return dict(t="lin", m=n, n=m, rows=[self.vec(m, -1, 1, ) for _ in range(n)], a=dict(t="var", k=k, n=m))
        c = r.random()
        if c < 0.16:
            return dict(t=r.choice(["add", "sub"]), a=self.single(n, env, depth - 1), b=self.single(n, env, depth - 1))
        if c < 0.32:
            return dict(t="mul", a=self.single(n, env, depth - 1), b=self.single(n, env, depth - 1))
        if c < 0.60:
            a = self.single(n, env, depth - 1)
            t = self.ptw_node(a, env)
            return t if t is not None else a
        if c < 0.63 and depth >= 2:
            # a ** b with both operands depending on the input: the library spells it exp(b * log(a))
            a = self.single(n, env, depth - 2)
            va = pyeval(a, env)[""]
            if np.all(va > 0.2) and np.all(va < 6):
                b = self.single(n, env, depth - 2)
                t = dict(t="ptw", f="exp", p=[], a=dict(t="mul", a=b, b=dict(t="ptw", f="log", p=[], a=a)))
                out = pyeval(t, env)[""]
                if _ok_all(out) and np.all(np.abs(pyeval(t["a"], env)[""]) < 4):
                    return t
        if c < 0.655 and depth >= 2:
            # a two-operand einsum (MultiLinearEinsum / outer) with an output of size n
            k2 = r.choice([1, 2, 3])
            pats = [("i,i->i", [[n], [n]]), ("i,ij->j", [[k2], [k2, n]]), ("ij,j->i", [[n, k2], [k2]]),
                    ("ij,ij->j", [[k2, n], [k2, n]]), ("ij,jk->ik", [[n, k2], [k2, 1]])]
            for p_ in range(1, n + 1):
                if n % p_ == 0:
                    pats.append(("i,j->ij", [[p_], [n // p_]]))
            ss, shapes = r.choice(pats)
            return dict(t="bil", ss=ss, shapes=shapes, a=self.single(int(np.prod(shapes[0])), env, depth - 2),
                        b=self.single(int(np.prod(shapes[1])), env, depth - 2))
        if c < 0.66 and r.random() < 0.5:
            # point-wise entries with array-valued parameters
            a = self.single(n, env, depth - 1)
            va = pyeval(a, env)[""]
            f = r.choice(["power", "exponentiate", "clip"])
            if f == "power" and np.all(va > 0.2) and np.all(va < 6):
                t = dict(t="ptwa", f=f, P=[[r.choice([-1.5, -1.0, 0.5, 1.5, 2.0, 3.0]) for _ in range(n)]], a=a)
            elif f == "exponentiate" and np.all(np.abs(va) < 4):
                t = dict(t="ptwa", f=f, P=[[r.choice([0.5, 0.75, 1.5, 2.0, 2.5]) for _ in range(n)]], a=a)
            elif f == "clip" and _ok_all(va):
                lo = [self.dy(-1.5, 0.5) for _ in range(n)]
                hi = [l + r.choice([0.5, 1.0, 2.0]) for l in lo]
                t = dict(t="ptwa", f=f, P=[lo, hi], a=a) if (np.all(np.abs(va - np.array(lo)) > 0.05)
                                                               and np.all(np.abs(va - np.array(hi)) > 0.05)) else None
            else:
                t = None
            if t is not None and _ok_all(pyeval(t, env)[""]):
                return t
        if c < 0.66:
            return dict(t="scale", c=r.choice([-2.0, -1.0, -1.0, -0.5, 0.25, 0.5, 1.5, 2.0, 3.0]), a=self.single(n, env, depth - 1))
        if c < 0.72:
            return dict(t="addc", c=self.vec(n), neg=r.random() < 0.5, a=self.single(n, env, depth - 1))
        if c < 0.78:
            return dict(t="mulc", d=self.vec(n, nz=True), a=self.single(n, env, depth - 1))
        if c < 0.86:
            m = r.choice([1, 2, 3])
            return dict(t="lin", m=n, n=m, rows=[self.vec(m, -1, 1) for _ in range(n)], a=self.single(m, env, depth - 1))
        if c < 0.92 and depth >= 2:
            # key extraction from a multi-domain expression
            ks = r.sample(["p", "q", "r"], r.choice([1, 2]))
            sizes = {k: (n if i == 0 else r.choice([1, 2, 3])) for i, k in enumerate(ks)}
            return dict(t="getKey", k=ks[0], a=self.multi(sizes, env, depth - 1))
        if c < 0.97 and depth >= 2:
            # chain through a multi-domain intermediate
            ks = r.sample(["u", "v", "w"], r.choice([1, 2]))
            sizes = {k: r.choice([1, 2, 3]) for k in ks}
            g = self.multi(sizes, env, depth - 1)
            env2 = pyeval(g, env)
            if all(_ok_all(v) for v in env2.values()):
                return dict(t="chain", f=self.single(n, env2, depth - 1), g=g)
            return self.single(n, env, depth - 1)
        return self.single(n, env, depth - 1)

    def multi(self, sizes, env, depth):
        """tree with multi-domain target {key: size}"""
        r = self.rng
        t = None
        for k, n in sizes.items():
            leaf = dict(t="putKey", k=k, a=self.single(n, env, depth - 1))
            t = leaf if t is None else dict(t="add", a=t, b=leaf)
        if r.random() < 0.3:
            # overlapping keys: the same key contributed twice (unite adds them)
            k = r.choice(sorted(sizes))
            t = dict(t=r.choice(["add", "sub"]), a=t, b=dict(t="putKey", k=k, a=self.single(sizes[k], env, depth - 1)))
        if r.random() < 0.3:
            t2 = self.ptw_node(t, env)
            t = t2 if t2 is not None else t
        if r.random() < 0.2 and depth >= 2:
            # _OpProd of two multi-domain operators with the same target
            u = None
            for k, n in sizes.items():
                leaf = dict(t="putKey", k=k, a=self.single(n, env, depth - 2))
                u = leaf if u is None else dict(t="add", a=u, b=leaf)
            t = dict(t="mul", a=t, b=u)
        if r.random() < 0.25:
            # Adder / makeOp with a MultiField
            if r.random() < 0.5:
                t = dict(t="addcm", C={k: self.vec(n) for k, n in sizes.items()}, neg=r.random() < 0.5, a=t)
            else:
                t = dict(t="mulcm", C={k: self.vec(n, nz=True) for k, n in sizes.items()}, a=t)
        return t

    def scalar(self, env, depth):
        """scalar-valued tree (scalar domain): contractions, energies and arithmetic on them"""
        r = self.rng
        n = r.choice([1, 2, 3])
        if depth >= 2 and r.random() < 0.25:
            c = r.random()
            if c < 0.4:
                return dict(t=r.choice(["add", "sub", "mul"]), a=self.scalar(env, depth - 1), b=self.scalar(env, depth - 1))
            if c < 0.6:
                return dict(t="scale", c=r.choice([-2.0, 0.5, 2.0, 3.0]), a=self.scalar(env, depth - 1))
            a = self.scalar(env, depth - 1)
            t = self.ptw_node(a, env)
            return t if t is not None else a
        c = r.random()
        if c < 0.08:
            return dict(t="bil", ss="i,i->", shapes=[[n], [n]], a=self.single(n, env, depth - 1), b=self.single(n, env, depth - 1))
        if c < 0.2 and getattr(self, "space", "U") == "R" and r.random() < 0.6:
            return dict(t="integrate", vol=1.0 / n, a=self.single(n, env, depth - 1))
        if c < 0.2:
            return dict(t="sum", a=self.single(n, env, depth - 1))
        if c < 0.4:
            return dict(t="vdot", a=self.single(n, env, depth - 1), b=self.single(n, env, depth - 1))
        if c < 0.55:
            return dict(t="sqnorm", a=self.single(n, env, depth - 1))
        if c < 0.7:
            return dict(t="quad", d=self.vec(n, 0.25, 2), a=self.single(n, env, depth - 1))
        if c < 0.82:
            v = self.varcov(env, depth - 1)
            if v is not None:
                return v
        return dict(t="gauss", data=self.vec(n), icov=self.vec(n, 0.25, 2), a=self.single(n, env, depth - 1))

    def linear(self, n, env, depth):
        """a LINEAR single-domain tree of size n (the library builds SumOperator / ChainOperator objects with explicit
        negation flags for these)"""
        r = self.rng
        keys_n = [k for k, v in env.items() if len(v) == n]
        if depth <= 0 or r.random() < 0.25:
            if keys_n and r.random() < 0.7:
                return dict(t="var", k=r.choice(keys_n), n=n)
            k = r.choice(sorted(env))
            m = len(env[k])
            return dict(t="lin", m=n, n=m, rows=[self.vec(m, -1, 1) for _ in range(n)], a=dict(t="var", k=k, n=m))
        c = r.random()
        if c < 0.12:
            # signed sums of scalings / diagonals / dense maps of ONE inner operator: SumOperator.make merges the ScalingOperators,
            # absorbs the factor into a (possibly negated) DiagonalOperator and combines DiagonalOperators
            x = self.linear(n, env, depth - 2) if r.random() < 0.4 else (
                dict(t="var", k=r.choice(keys_n), n=n) if keys_n else self.linear(n, env, 0))

            def term():
                cc = r.random()
                if cc < 0.35:
                    return dict(t="scale", c=r.choice([-2.0, -1.0, -0.5, 0.5, 2.0, 3.0]), a=x)
                if cc < 0.7:
                    return dict(t="mulc", d=self.vec(n, nz=True), a=x)
                if cc < 0.85:
                    return x
                return dict(t="lin", m=n, n=n, rows=[self.vec(n, -1, 1) for _ in range(n)], a=x)
            t = term()
            if r.random() < 0.3:
                t = dict(t="scale", c=-1.0, a=t)
            for _ in range(r.choice([1, 2, 2, 3])):
                t = dict(t=r.choice(["add", "sub", "sub"]), a=t, b=term())
            return t
        if c < 0.45:
            t = self.linear(n, env, depth - 1)
            for _ in range(r.choice([1, 1, 2])):
                t = dict(t=r.choice(["add", "sub", "sub"]), a=t, b=self.linear(n, env, depth - 1))
            return t
        if c < 0.6:
            return dict(t="scale", c=r.choice([-2.0, -1.0, -0.5, 0.5, 2.0, 3.0]), a=self.linear(n, env, depth - 1))
        if c < 0.72:
            return dict(t="mulc", d=self.vec(n, nz=True), a=self.linear(n, env, depth - 1))
        if c < 0.86:
            m = r.choice([1, 2, 3])
            return dict(t="lin", m=n, n=m, rows=[self.vec(m, -1, 1) for _ in range(n)], a=self.linear(m, env, depth - 1))
        ks = r.sample(["p", "q", "r"], r.choice([1, 2]))
        sizes = {k: (n if i == 0 else r.choice([1, 2, 3])) for i, k in enumerate(ks)}
        return dict(t="getKey", k=ks[0], a=self.linmulti(sizes, env, depth - 1))

    def linmulti(self, sizes, env, depth):
        """a LINEAR tree with a multi-domain target: signed sums of adapters, e.g. A('a')->'x' - B('b')->'x' + C('c')->'y'"""
        r = self.rng
        terms = []
        for k, n in sizes.items():
            for _ in range(r.choice([1, 2, 2, 3])):
                terms.append(dict(t="putKey", k=k, a=self.linear(n, env, depth - 1)))
        r.shuffle(terms)
        t = terms[0]
        if r.random() < 0.3:
            t = dict(t="scale", c=-1.0, a=t)
        for u in terms[1:]:
            t = dict(t=r.choice(["add", "sub", "sub"]), a=t, b=u)
        return t

    def linear_case(self, env, depth):
        """linear expressions as whole operators and as sub-expressions of non-linear ones / energies"""
        r = self.rng
        sizes = {k: r.choice([1, 2, 3]) for k in r.sample(["x", "y", "z"], r.choice([1, 2, 2]))}
        c = r.random()
        if c < 0.3:
            return self.linmulti(sizes, env, depth)
        if c < 0.4:
            return self.linear(r.choice([1, 2, 3]), env, depth)
        g = self.linmulti(sizes, env, depth - 1)
        k0 = sorted(sizes)[0]
        inner = dict(t="getKey", k=k0, a=g)
        n = sizes[k0]
        if c < 0.6:
            return dict(t="gauss", data=self.vec(n), icov=self.vec(n, 0.25, 2), a=inner)
        if c < 0.7:
            return dict(t="sqnorm", a=inner)
        if c < 0.85:
            t = self.ptw_node(inner, env)
            return t if t is not None else inner
        env2 = pyeval(g, env)
        if all(_ok_all(v) for v in env2.values()):
            return dict(t="chain", f=self.scalar(env2, depth - 1) if r.random() < 0.5 else self.single(r.choice([1, 2]), env2, depth - 1), g=g)
        return g

    def varcov(self, env, depth):
        """VariableCovarianceGaussianEnergy on (residual, inverse covariance > 0)"""
        r = self.rng
        if len(env) >= 2 and r.random() < 0.5:
            # directly on two input keys of equal size (inverse-covariance key must be positive)
            ks = [k for k in sorted(env)]
            for ka in ks:
                for kb in ks:
                    if ka != kb and len(env[ka]) == len(env[kb]) and np.all(env[kb] > 0.2):
                        return dict(t="varcov", n=len(env[ka]), a=dict(t="var", k=ka, n=len(env[ka])),
                                    b=dict(t="var", k=kb, n=len(env[kb])))
        n = r.choice([1, 2, 3])
        a = self.single(n, env, depth - 1)
        for _ in range(6):
            b0 = self.single(n, env, depth - 1)
            b = dict(t="ptw", f="exp", p=[], a=b0)
            vb = pyeval(b0, env)[""]
            if np.all(np.abs(vb) < 2.5):
                return dict(t="varcov", n=n, a=a, b=b)
        return None

    def mdconst_case(self, max_nodes=18):
        """multi-domain TARGETS whose components depend on separate input keys, combined by products / sums / differences of
        multi-domain operators: for most subsets of constant keys some target keys are entirely constant (the constant-output part
        of the simplification: ConstCollector.mult / .add, both target kinds) while others stay variable"""
        r = self.rng
        for _ in range(80):
            ks = r.sample(["a", "b", "c"], r.choice([2, 3]))
            env = {k: np.array(self.vec(r.choice([1, 2, 3]))) for k in ks}
            tk = r.sample(["p", "q", "r"], r.choice([2, 2, 3]))
            sizes = {k: r.choice([1, 2, 3]) for k in tk}
            self.space = r.choice(["U", "U", "R"])

            def md(depth):
                t = None
                for k in tk:
                    dep = r.sample(ks, 1 if r.random() < 0.75 else 2)
                    leaf = dict(t="putKey", k=k, a=self.single(sizes[k], {kk: env[kk] for kk in dep}, depth))
                    if r.random() < 0.25:
                        leaf = dict(t="scale", c=r.choice([-2.0, -1.0, 0.5, 3.0]), a=leaf)
                    t = leaf if t is None else dict(t=r.choice(["add", "add", "sub"]), a=t, b=leaf)
                return t
            t = md(r.choice([0, 1, 1, 2]))
            for _ in range(r.choice([1, 1, 1, 2])):
                t = dict(t=r.choice(["mul", "mul", "add", "sub"]), a=t, b=md(r.choice([0, 0, 1])))
            c = r.random()
            if c < 0.25:
                t2 = self.ptw_node(t, env)
                t = t2 if t2 is not None else t
            elif c < 0.4:
                t = dict(t="addcm", C={k: self.vec(n) for k, n in sizes.items()}, neg=r.random() < 0.5, a=t)
            elif c < 0.55:
                t = dict(t="mulcm", C={k: self.vec(n, nz=True) for k, n in sizes.items()}, a=t)
            elif c < 0.65:
                t = dict(t="scale", c=r.choice([-1.0, -0.5, 2.0]), a=t)
            c = r.random()
            if c < 0.2:
                # extract one key again (single-domain target above a multi-domain product)
                t = dict(t="getKey", k=r.choice(tk), a=t)
            elif c < 0.35:
                # an energy above two extracted keys
                k1, k2 = r.sample(tk, 2)
                if sizes[k1] == sizes[k2]:
                    t = dict(t="vdot", a=dict(t="getKey", k=k1, a=t), b=dict(t="getKey", k=k2, a=t))
            if size(t) > max_nodes or size(t) < 3:
                continue
            out = pyeval(t, env)
            if not all(_ok_all(v) for v in out.values()):
                continue
            if model_cost(ship(strip(t)), sum(len(v) for v in env.values()), True) > COST_LIMIT:
                continue
            return dict(indom={k: len(v) for k, v in env.items()}, x={k: fl(v) for k, v in env.items()}, expr=strip(t),
                        wm=r.random() < 0.5, space=self.space)
        raise RuntimeError("generator exhausted")

    def case(self, max_nodes=16):
        r = self.rng
        for _ in range(50):
            if r.random() < 0.3:
                env = {"": np.array(self.vec(r.choice([1, 2, 3, 4])))}
            else:
                ks = r.sample(["a", "b", "c"], r.choice([2, 3]))
                env = {k: np.array(self.vec(r.choice([1, 2, 3]))) for k in ks}
                if r.random() < 0.4:
                    # a positive key of the same size as another one (inverse covariances, arguments of log/sqrt)
                    k1, k2 = r.sample(ks, 2)
                    env[k2] = np.array(self.vec(len(env[k1]), 0.25, 3.0))
            depth = r.choice([2, 3, 3, 4, 4, 5])
            self.space = r.choice(["U", "U", "R"])
            c = r.random()
            wm = r.random() < 0.6
            if c < 0.15:
                # metric stream: sums of (scaled) likelihood energies, possibly behind a multi-domain chain
                def lh(env, d):
                    if r.random() < 0.3:
                        v = self.varcov(env, d)
                        if v is not None:
                            return v
                    n = r.choice([1, 2, 3])
                    t = dict(t="gauss", data=self.vec(n), icov=self.vec(n, 0.25, 2), a=self.single(n, env, d))
                    return dict(t="scale", c=r.choice([0.5, 2.0, 3.0]), a=t) if r.random() < 0.25 else t
                if r.random() < 0.3 and depth >= 3:
                    sizes = {k: r.choice([1, 2, 3]) for k in r.sample(["u", "v", "w"], r.choice([1, 2]))}
                    g = self.multi(sizes, env, depth - 2)
                    env2 = pyeval(g, env)
                    t = lh(env2, depth - 2)
                    if r.random() < 0.6:
                        t = dict(t="add", a=t, b=lh(env2, depth - 2))
                    t = dict(t="chain", f=t, g=g)
                else:
                    t = lh(env, depth - 1)
                    for _ in range(r.choice([1, 1, 2])):
                        t = dict(t="add", a=t, b=lh(env, depth - 2))
                wm = r.random() < 0.85
            elif c < 0.27 and r.random() < 0.5:
                t = self.linear_case(env, min(depth, 3))
            elif c < 0.27 and len(env) >= 2 and depth >= 3:
                # Operator.partial_insert: F @ G with G.target != F.domain (both multi-domain)
                gk = r.sample(["u", "v"], r.choice([1, 2]))
                g = self.multi({k: r.choice([1, 2, 3]) for k in gk}, env, depth - 2)
                env2 = pyeval(g, env)
                if not all(_ok_all(v) for v in env2.values()):
                    continue
                envf = {gk[0]: env2[gk[0]]}
                if r.random() < 0.7:
                    ka = r.choice(sorted(env))
                    envf[ka] = env[ka]
                f = self.multi({k: r.choice([1, 2, 3]) for k in r.sample(["p", "q"], r.choice([1, 2]))}, envf, depth - 2)
                t = dict(t="pinsert", f=f, g=g)
            elif c < 0.45:
                t = self.scalar(env, depth)
                if r.random() < 0.5:   # sums of energies: metric propagation through _OpSum / _LikelihoodSum
                    t = dict(t="add", a=t, b=self.scalar(env, depth - 1))
                    if r.random() < 0.3:
                        t = dict(t="add", a=t, b=self.scalar(env, depth - 1))
            elif c < 0.85:
                t = self.single(r.choice([1, 2, 3]), env, depth)
            else:
                sizes = {k: r.choice([1, 2, 3]) for k in r.sample(["p", "q", "r"], r.choice([1, 2]))}
                t = self.multi(sizes, env, depth)
            if size(t) > max_nodes or size(t) < 2:
                continue
            out = pyeval(t, env)
            if not all(_ok_all(v) for v in out.values()):
                continue
            if model_cost(ship(strip(t)), sum(len(v) for v in env.values()), True) > COST_LIMIT:
                continue     # the closure-tree model would be astronomically slow on this tree (see `model_cost`)
            return dict(indom={k: len(v) for k, v in env.items()}, x={k: fl(v) for k, v in env.items()}, expr=strip(t),
                        wm=wm, space=self.space)
        raise RuntimeError("generator exhausted")


# ---------------------------------------------------------------------------------------------- cost of the model evaluation
# The Lean model is a tree of closures without sharing: an element of a node's value / Jacobian / cotangent re-evaluates the
# sub-trees it reads.  Fan-ins multiply along a path (dense maps, two-operand einsums), so a few nested large einsums make the
# DRIVER (not the real code) astronomically slow.  `model_cost` mirrors the evaluation rules of Model/Expr.lean on a shipped tree
# and the generator rejects trees above `COST_LIMIT` elementary operations.
COST_LIMIT = 2_000_000


def _osz(e):
    t = e["t"]
    if t == "var":
        return e["n"]
    if t in ("lin", "bil"):
        return e["m"]
    if t in ("sum", "vdot", "sqnorm", "quad", "gauss", "varcov", "const"):
        return 1
    if t == "chain":
        return _osz(e["f"])
    if t in ("add", "sub", "mul"):
        return max(_osz(e["a"]), _osz(e["b"]))
    return _osz(e["a"])


def _isn(x):
    return isinstance(x, dict) and "t" in x


def _up(e, leaf=(1, 1)):
    """(cost of one value element, cost of one Jacobian element)"""
    t = e["t"]
    if t == "var":
        return leaf
    if t == "const":
        return (1, 1)
    if t == "chain":
        return _up(e["f"], _up(e["g"], leaf))
    a = _up(e["a"], leaf) if _isn(e.get("a")) else (1, 1)
    b = _up(e["b"], leaf) if _isn(e.get("b")) else (1, 1)
    if t in ("add", "sub"):
        return (a[0] + b[0], a[1] + b[1])
    if t == "mul":
        return (a[0] + b[0], a[0] + b[0] + a[1] + b[1])
    if t == "ptw":
        return (a[0] + 1, a[0] + a[1] + 1)
    if t == "lin":
        return (e["n"] * a[0], e["n"] * a[1])
    n = _osz(e["a"]) if _isn(e.get("a")) else 1
    if t == "sum":
        return (n * a[0], n * a[1])
    if t == "vdot":
        return (n * (a[0] + b[0]), n * (a[0] + b[0] + a[1] + b[1]))
    if t in ("sqnorm", "quad", "gauss"):
        return (n * a[0], n * (a[0] + a[1]))
    if t == "bil":
        f = e["na"] * e["nb"]
        return (f * (a[0] + b[0]), f * (a[0] + b[0] + a[1] + b[1]))
    if t == "varcov":
        return (3 * n * (a[0] + b[0]), n * (3 * a[0] + 3 * b[0] + a[1] + b[1]))
    return (a[0] + 1, a[1] + 1)


def _down(e, cy, leaf=(1, 1), cont=None):
    """cost of ONE adjoint application on all input entries when one cotangent element costs `cy`"""
    t = e["t"]
    if t == "var":
        return cont(cy) if cont else e["n"] * cy
    if t == "const":
        return 0
    if t == "chain":
        return _down(e["f"], cy, _up(e["g"], leaf), lambda c: _down(e["g"], c, leaf, cont))
    a = _up(e["a"], leaf) if _isn(e.get("a")) else (1, 1)
    b = _up(e["b"], leaf) if _isn(e.get("b")) else (1, 1)
    D = lambda ch, c: _down(e[ch], c, leaf, cont)
    if t in ("add", "sub"):
        return D("a", cy) + D("b", cy)
    if t in ("mul", "vdot"):
        return D("a", cy + b[0]) + D("b", cy + a[0])
    if t == "ptw":
        return D("a", cy + a[0] + 1)
    if t == "lin":
        return D("a", e["m"] * cy)
    if t in ("sqnorm", "quad", "gauss"):
        return D("a", cy + a[0])
    if t == "bil":
        return D("a", e["m"] * e["nb"] * (b[0] + cy)) + D("b", e["m"] * e["na"] * (a[0] + cy))
    if t == "varcov":
        return D("a", cy + 2 * (a[0] + b[0])) + D("b", cy + 2 * (a[0] + b[0]))
    return D("a", cy + 1)


def model_cost(shipped, nin, wm=True):
    """estimated elementary operations of the driver for value + dense Jacobian + dense adjoint (+ dense metric)"""
    nout = _osz(shipped)
    cv, cj = _up(shipped)
    tot = nout * cv + nin * nout * cj + nout * _down(shipped, 1)
    if wm:
        tot += nin * _down(shipped, cj)
    return tot


# ---------------------------------------------------------------------------------------------- Linearization arithmetic
def lin_arith(b, t, base, rng=None):
    """Evaluate the tree with the arithmetic of `Linearization` objects themselves (`__mul__`, `_myadd`, `ptw`, `vdot`,
    `sum`, `__getitem__`, `__truediv__`, `__pow__`, `__neg__`, scalar and field operands) instead of building an
    operator tree; nodes without a Linearization method apply the one-node operator to the Linearization."""
    ift = b.ift
    t0 = t
    t = expand(t)
    k = t["t"]
    rec = lambda s: lin_arith(b, s, base, rng)
    if k == "var":
        return base if b.single else base[t["k"]]
    if k == "add":
        return rec(t["a"]) + rec(t["b"])
    if k == "sub":
        return rec(t["a"]) - rec(t["b"])
    if k == "mul":
        tb = t["b"]
        if tb["t"] == "ptw" and tb["f"] == "reciprocal":
            return rec(t["a"]) / rec(tb["a"])                       # __truediv__
        return rec(t["a"]) * rec(t["b"])
    if k == "scale":
        la = rec(t["a"])
        c = t["c"]
        if c == -1.0:
            return -la
        if c in (0.5, 0.25, 2.0) and rng is not None and rng.random() < 0.5:
            return la / (1.0 / c)                                   # __truediv__ by a scalar
        return c * la if (rng is None or rng.random() < 0.5) else la * c
    if k == "addc" and not t["neg"] and t["a"]["t"] == "scale" and t["a"]["c"] == -1.0:
        return b.field(t["c"]) - rec(t["a"]["a"])                    # __rsub__
    if k == "addc":
        la = rec(t["a"])
        f = b.field(t["c"])
        if t["neg"]:
            return la - f
        return la + f if (rng is None or rng.random() < 0.5) else f + la
    if k == "mulc":
        return rec(t["a"]) * b.field(t["d"])
    if k == "ptw":
        la = rec(t["a"])
        if t["f"] == "power":
            return la ** t["p"][0]                                  # __pow__ with a scalar
        if t["f"] == "reciprocal" and rng is not None and rng.random() < 0.5:
            return 1.0 / la                                         # __rtruediv__
        if t["f"] == "exp" and t["a"]["t"] == "mul" and t["a"]["b"]["t"] == "ptw" and t["a"]["b"]["f"] == "log":
            return rec(t["a"]["b"]["a"]) ** rec(t["a"]["a"])        # __pow__ with a Linearization exponent
        return la.ptw(t["f"], *t["p"])
    if t0["t"] in ("addcm", "mulcm"):
        la = lin_arith(b, t0["a"], base, rng)
        mf = ift.MultiField.from_dict({kk: b.field(v) for kk, v in t0["C"].items()})
        if t0["t"] == "addcm":
            return (la - mf) if t0["neg"] else (la + mf)
        return la * mf
    if t0["t"] == "ptwa":
        la = lin_arith(b, t0["a"], base, rng)
        if t0["f"] == "power" and (rng is None or rng.random() < 0.5):
            return la ** b.field(t0["P"][0])                          # __pow__ with a Field exponent
        return la.ptw(t0["f"], *[b.field(P) for P in t0["P"]])
    if k == "bil":
        from nifty.cl.operators.simple_linear_operators import DomainChangerAndReshaper
        m, na, nb, T, oshape = bil_info(t)
        sa, sb = [tuple(x) for x in t["shapes"]]
        la, lb = rec(t["a"]), rec(t["b"])
        if t["ss"] == "i,j->ij":
            r = la.outer(lb)                                          # Linearization.outer
            return DomainChangerAndReshaper(r.target, b.sp(m))(r)
        da = ift.DomainTuple.make(tuple(ift.UnstructuredDomain(n) for n in sa))
        db = ift.DomainTuple.make(tuple(ift.UnstructuredDomain(n) for n in sb))
        A = ift.FieldAdapter(da, "e0").adjoint(DomainChangerAndReshaper(la.target, da)(la))
        B = ift.FieldAdapter(db, "e1").adjoint(DomainChangerAndReshaper(lb.target, db)(lb))
        mle = ift.MultiLinearEinsum(ift.MultiDomain.make({"e0": da, "e1": db}), t["ss"], key_order=("e0", "e1"))
        r = mle(A + B)
        return r if len(oshape) == 0 else DomainChangerAndReshaper(r.target, b.sp(m))(r)
    if k == "varcov":
        la, lb = rec(t["a"]), rec(t["b"])
        return 0.5 * ((la * (la * lb)).sum() - lb.ptw("log").sum())
    if k == "lin":
        m = np.array(t["rows"], dtype=np.float64).reshape(t["m"], t["n"])
        L = (ift.MatrixProductOperator(b.sp(t["n"]), m) if t["m"] == t["n"] else dense_op(ift, b.sp(t["n"]), b.sp(t["m"]), m))
        return L(rec(t["a"]))
    if k == "sum":
        return rec(t["a"]).sum()
    if k == "vdot":
        return rec(t["a"]).vdot(rec(t["b"]))
    if k == "getKey":
        return rec(t["a"])[t["k"]]
    if k == "putKey":
        la = rec(t["a"])
        return ift.FieldAdapter(la.target, t["k"]).adjoint(la)
    if k == "chain":
        lg = rec(t["g"])
        inner = Builder(dom(t["g"]), b.space)
        return lin_arith(inner, t["f"], lg, rng)
    if k == "sqnorm":
        la = rec(t["a"])
        return ift.Squared2NormOperator(la.target)(la)
    if k == "quad":
        return ift.QuadraticFormOperator(ift.makeOp(b.field(t["d"])))(rec(t["a"]))
    if k == "gauss":
        return ift.GaussianEnergy(data=b.field(t["data"]), inverse_covariance=ift.makeOp(b.field(t["icov"])))(rec(t["a"]))
    raise ValueError(k)


def linearize_arith(b, t, x, wm, rng=None):
    """dense val/jac/adj of the tree evaluated by Linearization arithmetic on make_var(x) over the FULL environment"""
    ift = b.ift
    p = b.point(x)
    lin = lin_arith(b, t, ift.Linearization.make_var(p, wm), rng)
    din, dout = dict(b.indom), dom(t)
    return dict(val=to_flat(lin.val, dout), jac=dense(lin.jac, b, din, dout),
                adj=dense(lin.jac.adjoint_times, b, dout, din), din=din,
                metric=None if lin.metric is None else dense(lin.metric, b, din, din))


# ---------------------------------------------------------------------------------------------- C04 helpers
def walk_consts(op):
    """ConstantOperator / ConstantEnergyOperator leaves of a real operator tree: list of (is_energy, {key: values})"""
    from nifty.cl.operators.simplify_for_const import ConstantOperator, ConstantEnergyOperator
    out = []
    seen = set()

    def rec(o):
        if id(o) in seen:
            return
        seen.add(id(o))
        if isinstance(o, (ConstantOperator, ConstantEnergyOperator)):
            f = o._output
            if hasattr(f, "keys"):
                vals = {k: np.asarray(f[k].val.asnumpy() if hasattr(f[k].val, "asnumpy") else f[k].val).ravel().tolist()
                        for k in f.keys()}
            else:
                vals = {"": np.asarray(f.val.asnumpy() if hasattr(f.val, "asnumpy") else f.val).ravel().tolist()}
            out.append((isinstance(o, ConstantEnergyOperator), vals))
            return
        for attr in ("_ops",):
            if hasattr(o, attr) and isinstance(getattr(o, attr), (tuple, list)):
                for s in getattr(o, attr):
                    rec(s)
        for attr in ("_op1", "_op2", "_op"):
            s = getattr(o, attr, None)
            if s is not None and hasattr(s, "domain"):
                rec(s)
    rec(op)
    return out


def subsets(keys):
    """every non-empty proper subset of the keys, deterministic order"""
    keys = sorted(keys)
    n = len(keys)
    return [[keys[i] for i in range(n) if (m >> i) & 1] for m in range(1, (1 << n) - 1)]


# ---------------------------------------------------------------------------------------------- class E (exact)
RATIONAL_PTW = {"abs", "absolute", "sign", "unitstep", "clip"}


def _dy_bits(x):
    """significant bits of a dyadic float (None if |x| is not a small dyadic number)"""
    from fractions import Fraction
    f = Fraction(float(x))
    if f == 0:
        return 0
    if f.denominator & (f.denominator - 1):
        return None
    return abs(f.numerator).bit_length() + (f.denominator.bit_length() - 1 if abs(f) < 1 else 0)


def exact_bits(t):
    """Upper bound on the significant bits of every intermediate entry when the tree is evaluated on inputs with <= 6
    bits, or None if the tree is not a polynomial / piecewise-linear expression with dyadic constants.  With the bound
    below 52 every float64 operation on the path (in any association order) is exact: class E applies."""
    t = expand(t)
    k = t["t"]

    def cb(vals):
        bs = [_dy_bits(v) for v in vals]
        return None if any(b is None or b > 8 for b in bs) else max(bs + [1])
    sub = [exact_bits(c) for c in children(t)]
    if any(b is None for b in sub):
        return None
    if k == "var":
        return 6
    if k in ("add", "sub"):
        return max(sub) + 1
    if k == "mul":
        return sub[0] + sub[1]
    if k == "scale":
        c = cb([t["c"]])
        return None if c is None else sub[0] + c
    if k == "addc":
        c = cb(t["c"])
        return None if c is None else max(sub[0], c) + 1
    if k == "mulc":
        c = cb(t["d"])
        return None if c is None else sub[0] + c
    if k == "ptw":
        if t["f"] not in RATIONAL_PTW:
            return None
        c = cb(t["p"]) if t["p"] else 1
        return None if c is None else max(sub[0], c)
    if k == "lin":
        c = cb([v for row in t["rows"] for v in row])
        return None if c is None else sub[0] + c + max(t["n"], 1).bit_length()
    if k == "sum":
        return sub[0] + 3
    if k == "vdot":
        return sub[0] + sub[1] + 3
    if k in ("getKey", "putKey"):
        return sub[0]
    if k == "chain":
        # f is evaluated on g's output: its "input bits" are g's bits; bound by composition of the two bounds
        fb, gb = exact_bits(t["f"]), exact_bits(t["g"])
        return None if fb is None or gb is None else max(1, fb - 6) * 1 + gb * max(1, (fb + 5) // 6)
    if k == "sqnorm":
        return 2 * sub[0] + 3
    if k == "quad":
        c = cb(t["d"])
        return None if c is None else 2 * sub[0] + c + 3
    if k == "gauss":
        c, d = cb(t["icov"]), cb(t["data"])
        return None if c is None or d is None else 2 * (max(sub[0], d) + 1) + c + 3
    if k == "bil":
        return sub[0] + sub[1] + 4
    return None


def ship_q(t):
    """tree with python floats -> exact rationals "p/q" (driver op linq)"""
    from fractions import Fraction
    q = lambda x: str(Fraction(float(x)))
    t = expand(t)
    if t["t"] == "bil":
        m, na, nb, T, _ = bil_info(t)
        return dict(t="bil", m=m, na=na, nb=nb, T=[[[q(x) for x in row] for row in mat] for mat in T],
                    a=ship_q(t["a"]), b=ship_q(t["b"]))
    r = {}
    for k, v in t.items():
        if k in ("a", "b", "f", "g") and isinstance(v, dict):
            r[k] = ship_q(v)
        elif k == "c" and t["t"] == "scale":
            r[k] = q(v)
        elif k in ("c", "d", "p", "data", "icov"):
            r[k] = [q(x) for x in v]
        elif k == "rows":
            r[k] = [[q(x) for x in row] for row in v]
        else:
            r[k] = v
    return r


# ---------------------------------------------------------------------------------------------- complex mode
def complexify(t, rng):
    """copy of a (holomorphic) tree whose constants get small dyadic imaginary parts (`*_im` fields)"""
    t = expand(t)
    d = lambda: rng.choice([0, 0, 1, -1, 2, -2]) / 32
    r = {}
    for k, v in t.items():
        r[k] = complexify(v, rng) if (k in ("a", "b", "f", "g") and isinstance(v, dict)) else v
    k = t["t"]
    if k == "scale":
        r["c_im"] = rng.choice([0.0, 0.5, -0.25, 1.0]) if rng.random() < 0.6 else 0.0
    elif k == "addc":
        r["c_im"] = [d() for _ in t["c"]]
    elif k == "mulc":
        r["d_im"] = [d() for _ in t["d"]]
    elif k == "lin":
        r["rows_im"] = [[d() for _ in row] for row in t["rows"]]
    return r


def ship_c(t):
    """complex tree -> numbers as [re_bits, im_bits] (driver op linc)"""
    c = lambda re, im=0.0: [f2b(re), f2b(im)]
    t = expand(t)
    if t["t"] == "bil":
        m, na, nb, T, _ = bil_info(t)
        return dict(t="bil", m=m, na=na, nb=nb, T=[[[c(x) for x in row] for row in mat] for mat in T],
                    a=ship_c(t["a"]), b=ship_c(t["b"]))
    r = {}
    for k, v in t.items():
        if k.endswith("_im"):
            continue
        if k in ("a", "b", "f", "g") and isinstance(v, dict):
            r[k] = ship_c(v)
        elif k == "c" and t["t"] == "scale":
            r[k] = c(v, t.get("c_im", 0.0))
        elif k in ("c", "d"):
            im = t.get(k + "_im", [0.0] * len(v))
            r[k] = [c(x, y) for x, y in zip(v, im)]
        elif k == "p":
            r[k] = [c(x) for x in v]
        elif k == "rows":
            im = t.get("rows_im", [[0.0] * len(row) for row in v])
            r[k] = [[c(x, y) for x, y in zip(row, irow)] for row, irow in zip(v, im)]
        else:
            r[k] = v
    return r


def decc(l):
    return np.array([complex(b2f(a), b2f(b)) for a, b in l])
