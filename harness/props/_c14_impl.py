"""C14 adapters: everything that calls the real nifty.cl code (imported from NIFTY_REPO by vcheck.py's sys.path).

A *case* is a JSON-able dict (integers / "p/q" strings only); `run_cg`, `run_qe`, `run_ctrl`, `run_ie` execute it on the
real implementation and return plain Python data (floats, lists).  Exceptions of the real code become
`{"error": <type name>}`.
"""
import logging
import warnings
from fractions import Fraction

import numpy as np

_ift = None
_MatOp = None
MAX_CHECKS = 2000      # a CG run on our systems needs < 200; beyond this the real code is not terminating
MAX_APPLIES = 6000


class Runaway(Exception):
    """the real code keeps iterating: reported as error kind 'Runaway' instead of hanging the harness"""


def ift():
    global _ift, _MatOp
    if _ift is None:
        import nifty.cl as m
        _ift = m
        m.logger.setLevel(logging.CRITICAL + 1)   # silence; messages are captured by _LogTap below

        class MatOp(m.EndomorphicOperator):
            """dense matrix operator with explicit capability; inverse modes use a supplied exact inverse"""

            def __init__(self, dom, mat, inv=None, cap=3):
                self._domain = m.DomainTuple.make(dom)
                self._capability = int(cap)
                self._m = np.asarray(mat)
                self._inv = None if inv is None else np.asarray(inv)
                self.calls = []

            def apply(self, x, mode):
                self._check_input(x, mode)
                v = x.val.asnumpy()
                self.calls.append((int(mode), v.copy()))
                if len(self.calls) > MAX_APPLIES:
                    raise Runaway()
                if mode == 1:
                    r = self._m @ v
                elif mode == 2:
                    r = self._m.conj().T @ v
                elif mode == 4:
                    r = self._inv @ v
                else:
                    r = self._inv.conj().T @ v
                return m.makeField(self._domain, r)
        _MatOp = MatOp
    return _ift


def F(s):
    """'p/q' | int -> Fraction"""
    return Fraction(s) if not isinstance(s, Fraction) else s


def fl(s):
    return None if s is None else float(F(s))


def fstr(x):
    """float/int/Fraction -> exact 'p/q' string"""
    fr = Fraction(x)
    return str(fr.numerator) if fr.denominator == 1 else f"{fr.numerator}/{fr.denominator}"


def cvec(case, key):
    """numpy vector from the case (complex if case['cplx'])"""
    re = np.array([float(F(v)) for v in case[key]], dtype=np.float64)
    if case.get("cplx"):
        return re + 1j * np.array([float(F(v)) for v in case[key + "i"]], dtype=np.float64)
    return re


def cmat(case, key, src=None):
    src = case if src is None else src
    re = np.array([[float(F(v)) for v in row] for row in src[key]], dtype=np.float64)
    if case.get("cplx"):
        return re + 1j * np.array([[float(F(v)) for v in row] for row in src[key + "i"]], dtype=np.float64)
    return re


def make_controller(cj):
    m = ift()
    t = cj["type"]
    lim = cj.get("limit")
    lvl = cj["level"]
    if t == "gradnorm":
        return m.GradientNormController(tol_abs_gradnorm=fl(cj.get("tol_abs")), tol_rel_gradnorm=fl(cj.get("tol_rel")),
                                        convergence_level=lvl, iteration_limit=lim)
    if t == "gradinf":
        return m.GradInfNormController(fl(cj.get("tol")), convergence_level=lvl, iteration_limit=lim)
    if t == "deltae":
        return m.DeltaEnergyController(fl(cj["tol"]), convergence_level=lvl, iteration_limit=lim)
    if t == "absdeltae":
        return m.AbsDeltaEnergyController(fl(cj["tol"]), convergence_level=lvl, iteration_limit=lim)
    if t == "stochastic":
        return m.StochasticAbsDeltaEnergyController(fl(cj["tol"]), convergence_level=lvl, iteration_limit=lim,
                                                    memory_length=cj["memlen"])
    raise ValueError(t)


class _LogTap(logging.Handler):
    def __init__(self):
        super().__init__(level=logging.WARNING)
        self.msgs = []

    def emit(self, record):
        self.msgs.append(record.getMessage())


class _tap:
    """capture NIFTy logger warnings/errors (they tell why CG gave up)"""

    def __enter__(self):
        m = ift()
        self.h = _LogTap()
        self.old = (m.logger.level, list(m.logger.handlers))
        for h in list(m.logger.handlers):
            m.logger.removeHandler(h)
        m.logger.addHandler(self.h)
        m.logger.setLevel(logging.WARNING)
        self.w = warnings.catch_warnings()
        self.w.__enter__()
        warnings.simplefilter("ignore")
        self.e = np.errstate(all="ignore")
        self.e.__enter__()
        return self.h

    def __exit__(self, *a):
        m = ift()
        self.e.__exit__(*a)
        self.w.__exit__(*a)
        m.logger.removeHandler(self.h)
        for h in self.old[1]:
            m.logger.addHandler(h)
        m.logger.setLevel(self.old[0])


def _reason_from_log(msgs):
    for s in msgs:
        if "curv==0" in s:
            return "curvZero"
        if "alpha<0" in s:
            return "alphaNeg"
        if "Positive definiteness of preconditioner" in s:
            return "gammaNeg"
        if "NaN" in s:
            return "nan"
    return None


def _recorder(real):
    """controller that delegates to the real one and records every energy it is shown"""
    m = ift()

    class Rec(m.IterationController):
        def __init__(self):
            super().__init__()
            self.rec = []
            self.real = real

        def _note(self, energy, st):
            if len(self.rec) > MAX_CHECKS:
                raise Runaway()
            self.rec.append(dict(pos=energy.position.val.asnumpy().copy(), grad=energy.gradient.val.asnumpy().copy(),
                                 value=float(energy.value), gn=float(energy.gradient_norm), status=int(st),
                                 itcount=int(real._itcount), ccount=int(real._ccount)))

        def start(self, energy):
            st = real.start(energy)
            self._note(energy, st)
            return st

        def check(self, energy):
            st = real.check(energy)
            self._note(energy, st)
            return st
    return Rec()


def build_system(case):
    """-> (dom, A ndarray, b ndarray|None, P ndarray|None, x0 ndarray)"""
    A = cmat(case, "A")
    b = None if case.get("b") is None else cvec(case, "b")
    P = None if case.get("P") is None else cmat(case, "P")
    x0 = cvec(case, "x")
    return A, b, P, x0


def run_cg(case):
    """run ConjugateGradient on the real code; returns dict(status, reason_hint, pos, grad, value, recs, ...)"""
    m = ift()
    A, b, P, x0 = build_system(case)
    n = case["n"]
    dom = m.UnstructuredDomain(n)
    opA = _MatOp(dom, A)
    opP = None if P is None else _MatOp(dom, P)
    fb = None if b is None else m.makeField(dom, b)
    try:
        with _tap() as tap:
            real = make_controller(case["ctrl"])
            if case.get("reuse"):
                # the same controller object has served an earlier minimisation: `start` must reset all of its state
                pre = m.QuadraticEnergy(m.makeField(dom, x0 + 8.0 * (np.arange(n) + 1)), opA, fb)
                try:
                    m.ConjugateGradient(_recorder(real), nreset=case["nreset"])(pre, preconditioner=opP)
                except Runaway:
                    pass
            rec = _recorder(real)
            E0 = m.QuadraticEnergy(m.makeField(dom, x0), opA, fb)
            n0 = len(opA.calls)
            cg = m.ConjugateGradient(rec, nreset=case["nreset"])
            E, st = cg(E0, preconditioner=opP)
    except Exception as e:   # canonical error kind (the energies seen so far are kept for the rounding-level test)
        recs = rec.rec if "rec" in locals() else []
        return {"error": type(e).__name__, "recs": recs, "A": A, "b": b}
    # which A-applications were position re-evaluations (reset branch): calls come as d, [x], d, [x], ...
    calls = opA.calls[n0:]
    return dict(status=int(st), hint=_reason_from_log(tap.msgs), pos=E.position.val.asnumpy().copy(),
                grad=E.gradient.val.asnumpy().copy(), value=float(E.value), recs=rec.rec,
                itcount=int(real._itcount), ccount=int(real._ccount), ncalls=len(calls),
                A=A, b=b, P=P, x0=x0, calls=calls, msgs=tap.msgs)


def run_qe(case):
    """QuadraticEnergy(x, A, b) / .at_with_grad(x, g): value and gradient as exact strings"""
    m = ift()
    A, b, _, x = build_system(case)
    dom = m.UnstructuredDomain(case["n"])
    opA = _MatOp(dom, A)
    fb = None if b is None else m.makeField(dom, b)
    try:
        with _tap():
            base = m.QuadraticEnergy(m.makeField(dom, np.zeros_like(x)), opA, fb)
            if case.get("g") is None:
                E = base.at(m.makeField(dom, x))
            else:
                E = base.at_with_grad(m.makeField(dom, x), m.makeField(dom, cvec(case, "g")))
            g = E.gradient.val.asnumpy()
            v = E.value
    except Exception as e:
        return {"error": type(e).__name__}
    gl = [fstr(t) for t in g.real] + ([fstr(t) for t in g.imag] if case.get("cplx") else [])
    return {"value": fstr(v), "grad": gl}


class _StubG:
    def __init__(self, gn, ginf):
        self._gn = np.float64(gn)
        self._ginf = np.float64(ginf)

    def norm(self, ord=2):
        return self._ginf if ord == np.inf else (self._gn if ord == 2 else np.float64("nan"))


class _StubE:
    """what a controller reads from an energy: types as in the real classes
    (gradient_norm / norm(inf): numpy.float64, value: Python float)"""

    def __init__(self, gn, ginf, val):
        self.gradient_norm = np.float64(gn)
        self.gradient = _StubG(gn, ginf)
        self.value = float(val)


def run_ctrl(case):
    """feed a controller with stub energies: obs = [[gn, ginf, value], ...] (exact dyadic strings)"""
    res = []
    raised = False
    try:
        with _tap():
            c = make_controller(case["ctrl"])
    except Exception as e:
        return {"error": type(e).__name__}
    with _tap():
        for i, (gn, gi, v) in enumerate(case.get("pre") or []):     # an earlier use of the same controller object
            e = _StubE(float(F(gn)), float(F(gi)), float(F(v)))
            try:
                c.start(e) if i == 0 else c.check(e)
            except Exception:
                break
        for i, (gn, gi, v) in enumerate(case["obs"]):
            e = _StubE(float(F(gn)), float(F(gi)), float(F(v)))
            try:
                st = c.start(e) if i == 0 else c.check(e)
                res.append([int(st), int(c._itcount), int(c._ccount)])
            except ZeroDivisionError:
                raised = True
                break
            except Exception as ex:       # anything else: canonical error kind, shows up as a disagreement
                return {"error": type(ex).__name__}
    return {"res": res, "raised": raised}


def run_ie(case):
    """InversionEnabler(op, ic, approximation).apply(x, mode)"""
    m = ift()
    n = case["n"]
    dom = m.UnstructuredDomain(n)
    o = case["opm"]
    op = _MatOp(dom, cmat(case, "mat", o), cmat(case, "inv", o), o["cap"])
    ap = None
    if case.get("approx") is not None:
        a = case["approx"]
        ap = _MatOp(dom, cmat(case, "mat", a), cmat(case, "inv", a), a["cap"])
    x = cvec(case, "x")
    try:
        with _tap() as tap:
            real = make_controller(case["ctrl"])
            rec = _recorder(real)
            ie = m.InversionEnabler(op, rec, approximation=ap)
            if case.get("reuse"):
                # InversionEnabler keeps one controller object for all of its applications
                try:
                    ie.apply(m.makeField(dom, x * 0 + 8.0 * (np.arange(n) + 1)), case["mode"])
                except Exception:
                    pass
                rec.rec.clear()
                tap.msgs.clear()
                op.calls.clear()
                if ap is not None:
                    ap.calls.clear()
            y = ie.apply(m.makeField(dom, x), case["mode"])
            cap = int(ie.capability)
    except Exception as e:
        return {"error": type(e).__name__, "recs": rec.rec if "rec" in locals() else []}
    return dict(y=y.val.asnumpy().copy(), recs=rec.rec, ncalls=len(op.calls), cap=cap,
                itcount=getattr(real, "_itcount", None), ccount=getattr(real, "_ccount", None),
                warned=any("Error detected during operator inversion" in s for s in tap.msgs), msgs=tap.msgs,
                modes=[c[0] for c in op.calls], apmodes=[] if ap is None else [c[0] for c in ap.calls],
                calls=list(op.calls))
