"""C36 — Fit-quality diagnostics report the documented statistics (DESIGN.md §5 C36)."""
import math
from fractions import Fraction

ID = "C36"
LEAN_MODULES = ["NiftyVerif.Props.C36"]
DRIVER = "Driver/C36.lean"
OBLIGATIONS = ["NiftyVerif.C36." + t for t in (
    "redchisq_sample_spec", "redchisq_spec", "scmean_sample_spec", "scmean_spec", "counts_spec", "all_ignored_case",
    "cl_eq_re_on_clean_real", "cl_eq_re_reports_on_clean_real", "re_complex_ndof", "zeros_differ_by_count",
    "var_ddof_relation", "cl_var_spec", "cl_re_var_on_clean_real")]
RULE = ("case = (likelihood: Gaussian with dyadic diagonal inverse covariance on 1-8 points, two latent keys; 1-6 samples "
        "with integer/dyadic values; stream clean | zeros (sample == data / latent 0) | nan (NaN in data or latent) | "
        "complex | all-ignored); the normalised residual arrays produced by the REAL likelihood are shipped to the model as "
        "exact rationals; non-trivial = at least one key with an ignored entry or more than one sample; distinct by case")
TRUSTED_BASE = [
    "Lean 4.33 kernel; axioms propext/Classical.choice/Quot.sound only (audited every run)",
    "hand-written model Model/Minisanity.lean of the per-key statistics of cl/extra.py minisanity and re/minisanity.py "
    "_residual_params/reduced_residual_stats, tied by differential execution on the residual arrays of the real code",
    "sample mean modelled as sum/len (StatCalculator's Welford recursion is C26's subject); float rounding outside the "
    "model: compared with relative tolerance 1e-11 (inputs are small dyadics, observed noise < 1e-15)",
]
ASSUMPTIONS = ["standard deviations: classic unbiased (1/(n-1), none for one sample), JAX population (1/n); modelled as two-pass "
               "variances (Welford's recursion is C26) and compared as std^2 with relative tolerance 1e-9; complex means: only "
               "the variance of the real reduced chi-square is compared",
               "printed table: every row is re-derived from the returned values with the documented format (1 decimal, "
               "'±' only with a standard deviation, '-' for no ignored dof) and must occur in the table; colours off"]
TOL = 1e-11


def _frac(x):
    return None if (isinstance(x, float) and math.isnan(x)) else str(Fraction(x))


def _entry(z):
    z = complex(z)
    if math.isnan(z.real) or math.isnan(z.imag):
        return None
    return [str(Fraction(z.real)), str(Fraction(z.imag))]


def _build(case):
    """-> (likelihood, sample list) built with the repo's own constructors"""
    import numpy as np
    import nifty.cl as ift
    n = case["n"]
    dt = np.complex128 if case["cplx"] else np.float64
    dom = ift.UnstructuredDomain(n)
    a = ift.ducktape(dom, None, "a")
    b = ift.ducktape(dom, None, "b")
    op = a + b

    def arr(v):
        return np.array([complex(*x) if isinstance(x, list) else (float("nan") if x is None else x) for x in v], dtype=dt)
    d = arr(case["data"])
    icov = ift.makeOp(ift.makeField(dom, np.array(case["icov"], dtype=np.float64)), sampling_dtype=dt)
    lh = ift.GaussianEnergy(data=ift.makeField(dom, d), inverse_covariance=icov) @ op
    smp = [ift.MultiField.from_dict({"a": ift.makeField(dom, arr(s["a"])), "b": ift.makeField(dom, arr(s["b"]))})
           for s in case["samples"]]
    return lh, ift.SampleList(smp)


def _real(case):
    """classic minisanity values, the residual arrays of the real code, and the JAX statistics on those arrays"""
    import numpy as np
    import nifty.cl as ift
    import jax
    jax.config.update("jax_enable_x64", True)
    import jax.numpy as jnp
    import nifty.re as jft
    lh, sl = _build(case)
    table, v = ift.extra.minisanity(lh, sl, terminal_colors=False, return_values=True)
    arrays = {"data:<None>": [np.asarray(r.val.asnumpy()) for r in sl.iterator(lh.normalized_residual)]}
    for k in ("a", "b"):
        arrays["latent:" + k] = [np.asarray(s[k].val.asnumpy()) for s in sl.iterator()]
    out = {}
    for key, arrs in arrays.items():
        cat, kk = key.split(":")
        cat = "data_residuals" if cat == "data" else "latent_variables"
        m = complex(v["scmean"][cat][kk]["mean"])
        rstd, mstd = v["redchisq"][cat][kk]["std"], v["scmean"][cat][kk]["std"]
        cl = dict(redchisq=float(v["redchisq"][cat][kk]["mean"]), meanRe=m.real, meanIm=m.imag,
                  ndof=int(v["ndof"][cat][kk]), nigndof=int(v["nigndof"][cat][kk]),
                  redchisqVar=None if rstd is None else float(np.real(rstd)) ** 2,
                  meanReVar=None if (mstd is None or case["cplx"]) else float(np.real(mstd)) ** 2)
        # the printed row, re-derived from the returned values with the documented format
        foo = f"{cl['redchisq']:.1f}" + ("" if rstd is None else f" ± {rstd:.1f}")
        mval = v["scmean"][cat][kk]["mean"]
        bar = f"{mval:.1f}" + ("" if mstd is None else f" ± {mstd:.1f}")
        cplx_table = any(np.iscomplexobj(v["scmean"][c2][k2]["mean"]) for c2 in v["scmean"] for k2 in v["scmean"][c2])
        row = "  " + kk.ljust(18) + f"{foo:>11}" + (f"{bar:>26}" if cplx_table else f"{bar:>14}") + f"{cl['ndof']:>11}" \
              + f"{('-' if cl['nigndof'] == 0 else cl['nigndof']):>11}"
        cl["_row_ok"] = row in table.split("\n")
        cl["_section_ok"] = ("Data residuals" in table and "Latent space" in table
                             and table.index("Data residuals") < table.index("Latent space"))
        try:
            st = jft.reduced_residual_stats(jft.Samples(pos=None, samples=jnp.stack(arrs)))
            rm = complex(st.mean[0])
            re = dict(rchisq=float(st.reduced_chisq[0]), meanRe=rm.real, meanIm=rm.imag, ndof=int(st.ndof),
                      rchisqVar=float(st.reduced_chisq[1]) ** 2,
                      meanReVar=None if case["cplx"] else float(np.real(st.mean[1])) ** 2)
            if any(math.isnan(x) for x in (re["rchisq"], re["meanRe"], re["meanIm"])):
                re = {"error": "nan"}
        except Exception as e:  # noqa: BLE001
            re = {"error": type(e).__name__}
        out[key] = dict(cl=cl, re=re, arrays=[[_entry(z) for z in a.ravel()] for a in arrs])
    return out


def _close(x, y, tol=None):
    return abs(x - y) <= (tol or TOL) * (1.0 + abs(x) + abs(y))


def _cmp(impl, model, keys):
    """compare floats of the implementation with exact rationals of the model"""
    if "error" in impl or "error" in model:
        return impl.get("error") == model.get("error")
    for k in keys:
        mv = model[k]
        if impl.get(k, "skip") is None and mv is not None and k == "meanReVar":
            continue          # complex means: variance not compared
        if isinstance(mv, str):
            if impl[k] is None or not _close(impl[k], float(Fraction(mv)), 1e-9 if k.endswith("Var") else TOL):
                return False
        elif impl[k] != mv:
            return False
    return True


def _direct(arrs):
    """the property's own statement, computed directly with exact rationals on the residual arrays"""
    rc, mr = [], []
    last = (0, 0)
    for a in arrs:
        kept = [(Fraction(e[0]), Fraction(e[1])) for e in a if e is not None and not (Fraction(e[0]) == 0 and Fraction(e[1]) == 0)]
        if kept:
            rc.append(sum(x * x + y * y for x, y in kept) / len(kept))
            mr.append(sum(x for x, _ in kept) / len(kept))
        else:
            rc.append(Fraction(0))
            mr.append(Fraction(0))
        last = (len(kept), len(a) - len(kept))
    return float(sum(rc) / len(rc)), float(sum(mr) / len(mr)), last


def _cause(case, arrs):
    if case["cplx"]:
        return "complex"
    flat = [e for a in arrs for e in a]
    if any(e is None for e in flat):
        return "nan"
    if any(Fraction(e[0]) == 0 and Fraction(e[1]) == 0 for e in flat):
        return "zero"
    return "clean"


def _judge(case, real):
    """property on the real code only -> list of (what, signature)"""
    bad = []
    for key, r in real.items():
        cl, re, arrs = r["cl"], r["re"], r["arrays"]
        rc, mr, (nd, nig) = _direct(arrs)
        if not (_close(cl["redchisq"], rc) and _close(cl["meanRe"], mr)):
            bad.append((f"classic minisanity [{key}] reports redchisq={cl['redchisq']}, mean={cl['meanRe']}; the sample-averaged "
                        f"mean over non-ignored entries is {rc}, {mr}", dict(site="cl.minisanity", kind="value")))
        if (cl["ndof"], cl["nigndof"]) != (nd, nig) or cl["ndof"] + cl["nigndof"] != len(arrs[-1]):
            bad.append((f"classic minisanity [{key}] reports ndof={cl['ndof']}, nigndof={cl['nigndof']}; expected {nd}, {nig}",
                        dict(site="cl.minisanity", kind="counts")))
        if not cl.get("_row_ok", True) or not cl.get("_section_ok", True):
            bad.append((f"classic minisanity [{key}]: the printed table has no row showing the returned values "
                        f"(redchisq {cl['redchisq']}, mean {cl['meanRe']}, ndof {cl['ndof']}, ign. {cl['nigndof']})",
                        dict(site="cl.minisanity", kind="table")))
        ns = len(arrs)
        if (cl["redchisqVar"] is None) != (ns < 2):
            bad.append((f"classic minisanity [{key}]: standard deviation {'missing' if ns >= 2 else 'reported'} for {ns} sample(s)",
                        dict(site="cl.minisanity", kind="std")))
        cause = _cause(case, arrs)
        if cause == "clean" and ns >= 2 and "error" not in re and not _close((ns - 1) * cl["redchisqVar"], ns * re["rchisqVar"], 1e-9):
            bad.append((f"std of the reduced chi-square [{key}]: classic (unbiased) {cl['redchisqVar']} and JAX (population) "
                        f"{re['rchisqVar']} are not related by (n-1)/n, n={ns}", dict(site="cl-vs-re", cause="clean-std")))
        agree = ("error" not in re and _close(cl["redchisq"], re["rchisq"]) and _close(cl["meanRe"], re["meanRe"])
                 and _close(cl["meanIm"], re["meanIm"]) and cl["ndof"] == re["ndof"])
        if not agree:
            bad.append((f"classic and JAX diagnostics disagree on the same samples [{key}, {cause}]: classic "
                        f"redchisq={cl['redchisq']} mean={cl['meanRe']} ndof={cl['ndof']} vs JAX {re}",
                        dict(site="cl-vs-re", cause=cause)))
    return bad


def oracle(case):
    try:
        real = _real(case)
    except Exception as e:  # noqa: BLE001
        return (f"minisanity raised {type(e).__name__}: {e}"[:200], dict(site="cl.minisanity", kind="raises",
                                                                          error=type(e).__name__))
    bad = _judge(case, real)
    want = case.get("_want")
    for what, sig in bad:
        if want is None or sig == want:
            return what, sig
    return None


def shrink(case):
    if len(case["samples"]) > 1:
        yield dict(case, samples=case["samples"][:1])
        yield dict(case, samples=case["samples"][-1:])
    n = case["n"]
    if n > 1:
        for cut in (n // 2, n - 1):
            yield dict(case, n=cut, data=case["data"][:cut], icov=case["icov"][:cut],
                       samples=[{k: v[:cut] for k, v in s.items()} for s in case["samples"]])


def _gen(rng, stream):
    n = rng.randint(1, 8)
    ns = rng.randint(1, 6)
    cplx = stream == "complex"

    def val():
        x = rng.randint(-8, 8) / rng.choice([1, 1, 2, 4])
        return [x, rng.randint(-4, 4) / 2] if cplx else x
    data = [val() for _ in range(n)]
    icov = [rng.choice([0.25, 1.0, 4.0, 16.0]) for _ in range(n)]
    samples = []
    for _ in range(ns):
        a = [val() for _ in range(n)]
        b = [val() for _ in range(n)]
        samples.append(dict(a=a, b=b))
    z = [0.0, 0.0] if cplx else 0.0
    if stream in ("zeros", "allign", "complex") and (stream != "complex" or rng.random() < 0.3):
        for s in samples:
            for i in range(n):
                if rng.random() < (0.35 if stream != "allign" else 1.0):
                    # exact zero residual: a + b == data ; exact zero latent entry
                    if rng.random() < 0.5 or stream == "allign":
                        d = data[i]
                        s["b"][i] = z
                        s["a"][i] = d
                    else:
                        s["b"][i] = z
    if stream in ("nan",) or (stream == "allign" and rng.random() < 0.5):
        for i in range(n):
            if rng.random() < 0.3:
                data[i] = None
        for s in samples:
            for i in range(n):
                if rng.random() < 0.15:
                    s[rng.choice("ab")][i] = None
    return dict(n=n, cplx=cplx, data=data, icov=icov, samples=samples, stream=stream)


def run(ctx):
    import json
    import os
    from core.ctx import VERIF
    cases = []
    d = os.path.join(VERIF, "corpus", ID)
    for fn in sorted(os.listdir(d)) if os.path.isdir(d) else []:
        if fn.endswith(".json"):
            rec = json.load(open(os.path.join(d, fn)))
            cases += rec.get("cases", [rec] if "samples" in rec else [])
    streams = ["clean"] * 4 + ["zeros"] * 2 + ["nan"] * 2 + ["complex"] * 2 + ["allign"]
    for i in range(ctx.n(88, 1200)):
        cases.append(_gen(ctx.rng, streams[i % len(streams)]))
    reals, lines, index = [], [], []
    for ci, case in enumerate(cases):
        try:
            real = _real(case)
        except Exception as e:  # noqa: BLE001
            ctx.case(case)
            ctx.counterexample(case, f"minisanity raised {type(e).__name__}: {e}"[:200],
                               dict(site="cl.minisanity", kind="raises", error=type(e).__name__))
            reals.append(None)
            continue
        reals.append(real)
        for key, r in real.items():
            lines.append(dict(op="cl", samples=r["arrays"]))
            index.append((ci, key, "cl"))
            lines.append(dict(op="re", cplx=case["cplx"], samples=r["arrays"]))
            index.append((ci, key, "re"))
    outs = ctx.model(DRIVER, lines)
    for (ci, key, which), line, out in zip(index, lines, outs):
        case, r = cases[ci], reals[ci][key]
        sub = dict(case=ci, stream=case.get("stream", "corpus"), key=key, impl=which, samples=line["samples"])
        nontrivial = len(line["samples"]) > 1 or any(e is None for a in line["samples"] for e in a)
        ctx.case(sub, nontrivial)
        ctx.stat(f"{which}:{case.get('stream', 'corpus')}")
        keys = (("redchisq", "meanRe", "meanIm", "ndof", "nigndof", "redchisqVar", "meanReVar") if which == "cl"
                else ("rchisq", "meanRe", "meanIm", "ndof", "rchisqVar", "meanReVar"))
        if not _cmp(r[which], out, keys):
            ctx.disagree(dict(case, _key=key), r[which], out, f"{'classic' if which == 'cl' else 'JAX'} statistics of one key vs model")
        if which == "re" and "error" in out:
            ctx.stat("re:model-rejects-" + out["error"])
    seen = set()
    for case, real in zip(cases, reals):
        if real is None:
            continue
        for what, sig in _judge(case, real):
            ctx.stat("oracle:" + sig.get("cause", sig.get("kind", "?")))
            key = json.dumps(sig, sort_keys=True)
            if key in seen:
                continue
            seen.add(key)
            ctx.counterexample(dict(case, _want=sig), what, sig)


def search(ctx):
    for stream in ("clean", "zeros", "nan", "complex", "allign") * 40:
        case = _gen(ctx.rng, stream)
        r = oracle(case)
        if r and r[1].get("cause") not in ("zero", "nan", "complex"):
            ctx.counterexample(case, *r)
            return
