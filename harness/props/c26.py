"""C26 — Sample lists persist faithfully and report exact statistics (DESIGN.md §5 C26).

Tie
  (a) histories of save / overwrite / load on the REAL SampleList / ResidualSampleList, executed over the synchronous
      fake communicator with 1..4 tasks on either side (sub-communicators of one 4-rank run; `comm=None` as well),
      field and multi-field samples, several file-name bases in one directory (prefixes of each other, regex
      metacharacters) — compared op by op with Model/SampleFiles.lean (class E): result / error kind, the samples every
      task loads, and the directory listing after every op;
  (b) `_consecutive_length` vs the model on generated lists;
  (c) StatCalculator and sample_stat on dyadic value sequences vs Model/Welford.lean evaluated in exact rationals
      (class T, tolerance 1e-9 * scale), and the HDF5 export (`save_to_hdf5`) read back with h5py.
Oracle (real code only): after a successful save every later load of that base — with any task count — returns exactly
the saved samples; exported/in-memory means and variances equal the arithmetic mean and the unbiased variance computed
with exact fractions.
"""
import os
import shutil
import tempfile
from fractions import Fraction

from core.ctx import canon
from props import _mpi_fakempi as fm

ID = "C26"
LEAN_MODULES = ["NiftyVerif.Props.C26", "NiftyVerif.Core.Proto", "NiftyVerif.Model.SampleFiles", "NiftyVerif.Model.Welford"]
DRIVER = "Driver/C26.lean"
OBLIGATIONS = ["NiftyVerif.C26." + t for t in (
    "consecutive_length_spec", "save_postcondition", "load_of_fresh", "save_load_roundtrip", "stale_never_leaks",
    "save_overwrite_succeeds", "load_partition_independent", "welford_mean", "welford_var", "n1_variance_zero",
    "sample_stat_spec", "welford_merge", "refused_save_changes_nothing", "refused_on_nonempty_fresh",
    "refused_save_then_load", "nonoverwrite_write_preserves_existing")]
RULE = ("export matrix: ALL combinations of save_to_hdf5 flags {samples, mean, std} x op {None, linear, non-linear} x "
        "{plain, residual list} x {field, multi-field} x n in {1,2,5}; history = sequence of save(list length 0..6, task partition, overwrite?, residual?) / load(task count) ops on 1-3 "
        "bases in one directory, task counts 0(comm=None),1..4 on either side; non-trivial = a shorter list saved over a "
        "longer one, or different task counts on the two sides, or a refused save; distinct by history. "
        "stat cases: dyadic sequences of length 0..9, plain/multi-field, with and without operator")
TRUSTED_BASE = ["Lean 4.33 kernel; axioms propext/Classical.choice/Quot.sound only (audited every run)",
                "Model/SampleFiles.lean, Model/Welford.lean are hand transcriptions (sample_list.py save/load/"
                "_list_local_sample_files/_consecutive_length/_ensure_proper_sample_list_ending/_save_to_disk, "
                "probing.py StatCalculator, sample_stat); tied by the comparisons in RULE",
                "harness/props/_mpi_fakempi.py stands in for MPI; pickle and h5py and the file system are executed, not modelled"]
ASSUMPTIONS = ["file contents are abstract tags: pickle round-trips objects faithfully",
               "floating-point rounding in the streaming statistics is outside the model (class T, 1e-9 relative)",
               "no crash in the middle of a save (that is C25's subject)"]

BASES = ["s", "s.0", "ab", "a", "run", "a+b", "x(1)", "q[0]"]
NRANKS = 4


# ------------------------------------------------------------------------------------------------------
def _mk(tag, multi):
    import numpy as np
    import nifty.cl as ift
    dom = ift.UnstructuredDomain(2)
    arr = np.array([float(tag), tag + 0.5])
    if multi:
        return ift.MultiField.from_dict({"u": ift.makeField(dom, arr), "v": ift.makeField(dom, -arr)})
    return ift.makeField(dom, arr)


def _tag(f):
    import nifty.cl as ift
    if isinstance(f, ift.MultiField):
        u, v = f["u"].val.asnumpy(), f["v"].val.asnumpy()
        if list(v) != list(-u):
            return -1
        f = f["u"]
    a = f.val.asnumpy()
    return int(a[0]) if a[1] == a[0] + 0.5 else -1


def _listing(d, base):
    import re
    idx = sorted(int(m.group(1)) for m in (re.fullmatch(re.escape(base) + r"\.([0-9]+)\.pickle", f) for f in os.listdir(d)) if m)
    return dict(idx=idx, mean=os.path.isfile(os.path.join(d, base + ".mean.pickle")))


def _do_op(sub, serial, op, d, multi):
    """one op on the real code; every member rank returns the same kind of result"""
    import nifty.cl as ift
    base = os.path.join(d, BASES[op["b"]])
    comm = None if serial else sub
    r = 0 if comm is None else comm.Get_rank()
    if op["k"] == "save":
        counts = op["counts"]
        lo = sum(counts[:r])
        mine = [_mk(t, multi) for t in op["xs"][lo:lo + counts[r]]]
        dom = _mk(0, multi).domain
        if op.get("mean") is not None:
            zero = _mk(0, multi) * 0.
            sl = ift.ResidualSampleList(_mk(op["mean"], multi), [m - _mk(op["mean"], multi) for m in mine],
                                        [False] * len(mine), comm=comm)
            del zero
        else:
            sl = ift.SampleList(mine, comm=comm, domain=dom)
        sl.save(base, overwrite=op["ow"])
        return {"res": "ok"}
    cls = ift.ResidualSampleList if op["residual"] else ift.SampleList
    sl = cls.load(base, comm=comm)
    out = {"mine": [_tag(s) for s in sl.local_iterator()], "n": int(sl.n_samples)}
    if op["residual"]:
        out["mean"] = _tag(sl.mean)
    return out


def _job(comm, histories, root):
    import warnings
    warnings.simplefilter("ignore")
    r = comm.Get_rank()
    outs = []
    for hi, h in enumerate(histories):
        d = os.path.join(root, f"h{hi}")
        if r == 0:
            os.makedirs(d, exist_ok=True)
        res = []
        for op in h["ops"]:
            comm.Barrier()
            k = op["p"] if op["k"] == "save" else op["q"]
            serial = k == 0
            member = r < max(k, 1)
            o = None
            if member:
                try:
                    o = _do_op(None if serial else comm.sub(k), serial, op, d, h["multi"])
                except fm.FakeMPIError:
                    raise
                except Exception as e:  # noqa: BLE001
                    o = {"error": type(e).__name__}
            comm.Barrier()
            if r == 0:
                o = dict(o, dir=_listing(d, BASES[op["b"]]))
            res.append(o)
        outs.append(res)
    return outs


def _run_histories(histories, seed=None):
    root = tempfile.mkdtemp(prefix="c26_")
    try:
        res = fm.run(NRANKS, _job, histories, root, seed=seed, timeout=150.0 * fm.load_factor())
    finally:
        shutil.rmtree(root, ignore_errors=True)
    return res


def _assemble(res, hi, h):
    """per op: the canonical real result comparable with the model's"""
    out = []
    for oi, op in enumerate(h["ops"]):
        k = max(op["p"] if op["k"] == "save" else op["q"], 1)
        per = [res.values[r][hi][oi] for r in range(k)]
        if any(p is None for p in per):
            out.append({"error": "missing"})
            continue
        errs = sorted({p.get("error") for p in per if "error" in p})
        o = {"dir": per[0]["dir"]}
        if errs:
            o["error"] = errs[0] if len(errs) == 1 and all("error" in p for p in per) else "ranks-disagree:" + ",".join(map(str, errs))
        elif op["k"] == "save":
            o["res"] = "ok"
        else:
            # a residual list's files hold `sample - mean`: compare residual tags (after a refused save the files and the
            # mean on disk may stem from different saves)
            o["per"] = [[t - p["mean"] for t in p["mine"]] if op["residual"] else p["mine"] for p in per]
            if len({p["n"] for p in per}) != 1 or (op["residual"] and len({p["mean"] for p in per}) != 1):
                o["error"] = "ranks-disagree:n"
            if op["residual"]:
                o["mean_tag"] = per[0]["mean"]
        out.append(o)
    return out


def _to_model(h):
    ops = []
    for op in h["ops"]:
        if op["k"] == "save":
            m = dict(k="save", b=op["b"], xs=op["xs"], counts=op["counts"], ow=op["ow"])
            if op.get("mean") is not None:
                m["mean"] = op["mean"]
                m["xs"] = [t - op["mean"] for t in op["xs"]]
            ops.append(m)
        else:
            ops.append(dict(k="load", b=op["b"], q=max(op["q"], 1), residual=op["residual"]))
    return dict(op="history", ops=ops)


def _property_check(h, real):
    """the property itself on the real results: loads after a successful save return that save's samples"""
    last = {}  # base -> ("ok", xs, mean)
    refused = {}
    for op, o in zip(h["ops"], real):
        b = op["b"]
        if op["k"] == "save":
            if o.get("res") == "ok":
                last[b] = ("ok", op["xs"], op.get("mean"))
                refused[b] = False
            else:
                refused[b] = True
            # a refused save must leave the directory as it was: `last` stays what it is
            continue
        st = last.get(b)
        if not st or st[0] != "ok" or len(st[1]) == 0:
            continue
        if op["residual"] and st[2] is None:
            continue
        if "error" in o or "per" not in o:
            o = dict(o, error=o.get("error", "no-result"))
            return (f"load of base {BASES[b]!r} with {op['q']} tasks after a successful save of {len(st[1])} samples fails: "
                    f"{o['error']}", {"site": "load", "what": "error-after-save", "err": o["error"].split(":")[0],
                                      "name": "plain" if BASES[b] in BASES[:5] else "regex-metachar"})
        got = [t + (o.get("mean_tag", 0) if op["residual"] else 0) for row in o["per"] for t in row]
        if op["residual"] and o.get("mean_tag") != st[2]:
            return (f"load of base {BASES[b]!r} returns mean {o.get('mean_tag')}, last successful save wrote {st[2]}",
                    {"site": "load", "what": "wrong-mean"})
        if got != st[1]:
            return (f"load of base {BASES[b]!r} with {op['q']} tasks returns samples {got}, last successful save wrote {st[1]}",
                    {"site": "load", "what": "wrong-samples", "after": "refused-save" if refused.get(b) else "save"})
    return None


def oracle(case):
    if case.get("kind") == "history":
        res = _run_histories([case])
        if not res.ok:
            return (f"history does not complete: {res.summary()}", {"site": "history", "what": "no-completion"})
        return _property_check(case, _assemble(res, 0, case))
    if case.get("kind") == "stat":
        return _stat_oracle(case)
    if case.get("kind") == "export":
        return _export_oracle(case)
    return None


def shrink(case):
    if case.get("kind") == "history":
        ops = case["ops"]
        for i in range(len(ops)):
            yield dict(case, ops=ops[:i] + ops[i + 1:])
        for i, op in enumerate(ops):
            if op["k"] == "save" and op["p"] > 0:
                n = len(op["xs"])
                yield dict(case, ops=ops[:i] + [dict(op, p=0, counts=[n])] + ops[i + 1:])
            if op["k"] == "load" and op["q"] > 0:
                yield dict(case, ops=ops[:i] + [dict(op, q=0)] + ops[i + 1:])
    elif case.get("kind") == "stat":
        xs = case["xs"]
        for i in range(len(xs)):
            yield dict(case, xs=xs[:i] + xs[i + 1:])
    elif case.get("kind") == "export":
        xs = case["xs"]
        for i in range(len(xs)):
            if len(xs) > 2:
                yield dict(case, xs=xs[:i] + xs[i + 1:])
        if case["multi"]:
            yield dict(case, multi=False)
        if case["residual"]:
            yield dict(case, residual=False)


# ------------------------------------------------------------------------------------------------------
def _mean_tag(rng):
    """mean tags are < 64 and sample tags multiples of 64 (see `tagger`): residual tags `sample - mean` identify both"""
    return rng.randrange(1, 60)


def _gen_history(rng, tagger, plain_names):
    nb = rng.choice([1, 1, 2, 3])
    pool = BASES[:5] if plain_names else BASES
    bases = rng.sample(range(len(pool)), nb)
    resid = {b: rng.random() < 0.4 for b in bases}   # a base holds either plain or residual lists
    ops = []
    for _ in range(rng.randrange(2, 8)):
        b = rng.choice(bases)
        if rng.random() < 0.55:
            n = rng.choice([0, 1, 1, 2, 2, 3, 4, 5, 6])
            p = rng.choice([0, 1, 2, 3, 4])
            counts = [0] * max(p, 1)
            for _i in range(n):
                counts[rng.randrange(len(counts))] += 1
            mean_tag = _mean_tag(rng) if resid[b] else None
            op = dict(k="save", b=b, xs=[tagger() for _ in range(n)], p=p, counts=counts, ow=rng.random() < 0.7)
            if resid[b]:
                op["mean"] = mean_tag
            ops.append(op)
        else:
            ops.append(dict(k="load", b=b, q=rng.choice([0, 1, 2, 3, 4]), residual=resid[b]))
    return dict(kind="history", ops=ops, multi=rng.random() < 0.4)


def _targeted(tagger):
    """shorter over longer, more tasks than samples, different task counts on both sides"""
    t = tagger
    hs = []
    for (n1, p1, n2, p2, q) in [(5, 2, 2, 3, 4), (6, 4, 1, 0, 3), (3, 0, 2, 2, 0), (4, 3, 3, 1, 4), (2, 1, 1, 4, 2)]:
        c1 = [n1 // max(p1, 1) + (1 if i < n1 % max(p1, 1) else 0) for i in range(max(p1, 1))]
        c2 = [0] * max(p2, 1)
        c2[-1] = n2
        hs.append(dict(kind="history", multi=False, ops=[
            dict(k="save", b=0, xs=[t() for _ in range(n1)], p=p1, counts=c1, ow=True),
            dict(k="save", b=0, xs=[t() for _ in range(n2)], p=p2, counts=c2, ow=True),
            dict(k="load", b=0, q=q, residual=False),
            dict(k="save", b=0, xs=[t() for _ in range(n2 + 1)], p=p1, counts=[n2 + 1] + [0] * (max(p1, 1) - 1), ow=False),
            dict(k="load", b=0, q=1, residual=False)]))
    # a refused save (no overwrite, several tasks) after a shorter list was saved over a longer one: must change nothing
    for (n0, n1, n2, p2) in [(6, 2, 4, 2), (5, 1, 5, 3), (4, 2, 6, 4)]:
        c2 = [n2 // p2 + (1 if i < n2 % p2 else 0) for i in range(p2)]
        hs.append(dict(kind="history", multi=False, ops=[
            dict(k="save", b=0, xs=[t() for _ in range(n0)], p=0, counts=[n0], ow=True),
            dict(k="save", b=0, xs=[t() for _ in range(n1)], p=0, counts=[n1], ow=True),
            dict(k="save", b=0, xs=[t() for _ in range(n2)], p=p2, counts=c2, ow=False),
            dict(k="load", b=0, q=0, residual=False),
            dict(k="load", b=0, q=3, residual=False)]))
    return hs


# ---- statistics ----------------------------------------------------------------------------------------
def _frac_stats(xs):
    fx = [Fraction(x) for x in xs]
    n = len(fx)
    m = sum(fx) / n
    v = sum((x - m) ** 2 for x in fx) / (n - 1) if n > 1 else Fraction(0)
    return m, v


def _close(a, b, scale):
    return abs(float(a) - float(b)) <= 1e-9 * (abs(float(b)) + scale)


def _stat_real(case):
    """StatCalculator, sample_stat, average and the HDF5 export on the real code (single process)"""
    import numpy as np
    import nifty.cl as ift
    from nifty.cl.probing import StatCalculator
    xs = case["xs"]
    out = {}
    sc = StatCalculator()
    for x in xs:
        sc.add(np.float64(x))
    for name in ("mean", "var"):
        try:
            out["sc_" + name] = float(getattr(sc, name))
        except RuntimeError:
            out["sc_" + name] = "RuntimeError"
    dom = ift.UnstructuredDomain(2)
    fl = [ift.makeField(dom, np.array([x, 2 * x + 1])) for x in xs]
    try:
        sl = ift.SampleList(fl, domain=dom)
        m, v = sl.sample_stat()
        out["ss_mean"], out["ss_var"] = m.val.asnumpy().tolist(), v.val.asnumpy().tolist()
    except Exception as e:  # noqa: BLE001
        out["ss_mean"] = out["ss_var"] = type(e).__name__
    if len(xs) >= 1 and case.get("hdf5"):
        import h5py
        d = tempfile.mkdtemp(prefix="c26h_")
        try:
            fn = os.path.join(d, "o.h5")
            sl.save_to_hdf5(fn, samples=True, mean=True, std=len(xs) > 1)
            with h5py.File(fn, "r") as f:
                out["h5_mean"] = np.array(f["stats/mean"]).tolist()
                if len(xs) > 1:
                    out["h5_std"] = np.array(f["stats/standard deviation"]).tolist()
                out["h5_samples"] = [np.array(f["samples"][str(i)]).tolist() for i in range(len(xs))]
            # multi-field samples through an operator: one HDF5 group per sample / statistic, one dataset per key
            mfl = [ift.MultiField.from_dict({"u": f_, "w": 3. * f_}) for f_ in fl]
            msl = ift.SampleList(mfl)
            op = ift.ScalingOperator(mfl[0].domain, 1.)
            fn2 = os.path.join(d, "m.h5")
            msl.save_to_hdf5(fn2, op=op, samples=True, mean=True, std=len(xs) > 1, overwrite=True)
            with h5py.File(fn2, "r") as f:
                out["h5m_mean"] = [np.array(f["stats/mean"][k]).tolist() for k in ("u", "w")]
                if len(xs) > 1:
                    out["h5m_std"] = [np.array(f["stats/standard deviation"][k]).tolist() for k in ("u", "w")]
                out["h5m_samples"] = [[np.array(f["samples"][str(i)][k]).tolist() for k in ("u", "w")] for i in range(len(xs))]
            # mean only (the `elif mean:` branch uses `average`, not the StatCalculator)
            fn3 = os.path.join(d, "mean_only.h5")
            sl.save_to_hdf5(fn3, samples=False, mean=True, std=False)
            with h5py.File(fn3, "r") as f:
                out["h5_mean_only"] = np.array(f["stats/mean"]).tolist()
                out["h5_mean_only_groups"] = sorted(f.keys())
            # the export used by optimize_kl (`_export_operators`): samples+mean+std for n > 1, samples only otherwise
            import nifty.cl.minimization.optimize_kl as okl
            saved = (getattr(okl, "_output_directory", None), getattr(okl, "_save_strategy", None))
            try:
                okl._output_directory, okl._save_strategy = d, "latest"
                os.makedirs(os.path.join(d, "sig"), exist_ok=True)
                okl._export_operators(0, {"sig": ift.ScalingOperator(dom, 2.)}, sl, None)
                with h5py.File(os.path.join(d, "sig", "latest.hdf5"), "r") as f:
                    out["exp_groups"] = sorted(f.keys())
                    out["exp_samples"] = [np.array(f["samples"][str(i)]).tolist() for i in range(len(xs))]
                    if "stats" in f:
                        out["exp_mean"] = np.array(f["stats/mean"]).tolist()
                        out["exp_std"] = np.array(f["stats/standard deviation"]).tolist()
            finally:
                okl._output_directory, okl._save_strategy = saved
        except Exception as e:  # noqa: BLE001
            out["h5_error"] = type(e).__name__ + ":" + str(e)[:80]
        finally:
            shutil.rmtree(d, ignore_errors=True)
    return out


def _dist_job(comm, cases, root):
    """sample_stat / average / save_to_hdf5 of a DISTRIBUTED sample list (arbitrary partition, sub-communicators)"""
    import warnings
    import numpy as np
    import nifty.cl as ift
    warnings.simplefilter("ignore")
    r = comm.Get_rank()
    dom = ift.UnstructuredDomain(2)
    outs = []
    for ci, c in enumerate(cases):
        comm.Barrier()
        k = len(c["counts"])
        o = None
        if r < k:
            sub = comm.sub(k)
            try:
                lo = sum(c["counts"][:r])
                mine = [ift.makeField(dom, np.array([x, 2 * x + 1])) for x in c["xs"][lo:lo + c["counts"][r]]]
                sl = ift.SampleList(mine, comm=sub, domain=dom)
                m, v = sl.sample_stat()
                o = {"ss_mean": m.val.asnumpy().tolist(), "ss_var": v.val.asnumpy().tolist(),
                     "avg": sl.average().val.asnumpy().tolist()}
                fn = os.path.join(root, f"d{ci}.h5")
                sl.save_to_hdf5(fn, samples=True, mean=True, std=len(c["xs"]) > 1)
                import h5py
                if r == 0:
                    with h5py.File(fn, "r") as f:
                        o["h5_mean"] = np.array(f["stats/mean"]).tolist()
                        if len(c["xs"]) > 1:
                            o["h5_std"] = np.array(f["stats/standard deviation"]).tolist()
                        o["h5_samples"] = [np.array(f["samples"][str(i)]).tolist() for i in range(len(c["xs"]))]
                # a second export through a NON-LINEAR operator with another combination of flags
                S = ift.ScalingOperator(dom, 0.125)
                opx = S.exp() + S * S
                flags = EXPORT_FLAGS[1:][ci % 7]
                fnx = os.path.join(root, f"x{ci}.h5")
                sl.save_to_hdf5(fnx, op=opx, samples=flags[0], mean=flags[1], std=flags[2])
                if r == 0:
                    with h5py.File(fnx, "r") as f:
                        hx = {"flags": list(flags), "groups": sorted(f.keys())}
                        if "samples" in f:
                            hx["samples"] = [np.array(f["samples"][str(i)]).tolist() for i in range(len(f["samples"].keys()))]
                        if "stats" in f:
                            hx["stats"] = sorted(f["stats"].keys())
                            for key, name in (("mean", "mean"), ("std", "standard deviation")):
                                if name in f["stats"]:
                                    hx[key] = np.array(f["stats"][name]).tolist()
                        o["h5x"] = hx
            except fm.FakeMPIError:
                raise
            except Exception as e:  # noqa: BLE001
                # an exception on one task leaves the others waiting: stop here so that the report names the cause
                outs.append({"error": type(e).__name__, "msg": str(e)[-60:]})
                return outs
        comm.Barrier()
        outs.append(o)
    return outs


def _dist_failure(res, cases):
    """a batch that did not complete -> (case index, what, signature)"""
    errs = [(len(v) - 1, v[-1]) for v in res.values if v and isinstance(v[-1], dict) and "error" in v[-1]]
    sig = {"site": "statistics-distributed"}
    if errs:
        ci, e = min(errs, key=lambda t: t[0])
        exists = "already exists" in e.get("msg", "") or "exists" in e.get("msg", "")
        return ci, (f"distributed save_to_hdf5/sample_stat over partition {cases[ci]['counts']}: a task raises {e['error']} "
                    f"({e.get('msg')}) while the others wait in a collective ({(res.deadlock or {}).get('blocked')})"), \
            dict(sig, what="task-raises", err=e["error"], cause="file-exists-race" if exists else "other")
    return 0, f"distributed statistics run does not complete: {res.summary()}", dict(sig, what="no-completion")


def _dist_judge(c, per):
    """per: outputs of the member ranks"""
    import math
    xs = c["xs"]
    m, v = _frac_stats(xs)
    sc = max(abs(x) for x in xs) + 1.0
    sig = {"site": "statistics-distributed"}
    for r, o in enumerate(per):
        if o is None or "error" in o:
            return (f"distributed sample_stat/save_to_hdf5 over partition {c['counts']} fails on rank {r}: {o}", dict(sig, what="error"))
        if not (_close(o["ss_mean"][0], m, sc) and _close(o["avg"][0], m, sc) and _close(o["ss_mean"][1], 2 * m + 1, 2 * sc)):
            return (f"distributed mean {o['ss_mean']} / average {o['avg']} != {float(m)} for {xs} split {c['counts']}", dict(sig, what="mean"))
        if not (_close(o["ss_var"][0], v, sc * sc) and _close(o["ss_var"][1], 4 * v, 4 * sc * sc)):
            return (f"distributed variance {o['ss_var']} != {float(v)} for {xs} split {c['counts']}", dict(sig, what="var"))
    o = per[0]
    if not _close(o["h5_mean"][0], m, sc):
        return (f"HDF5 mean written by the master {o['h5_mean']} != {float(m)}", dict(sig, what="h5-mean"))
    if len(xs) > 1 and not _close(o["h5_std"][0], math.sqrt(v), sc):
        return (f"HDF5 standard deviation {o['h5_std']} != {math.sqrt(v)}", dict(sig, what="h5-std"))
    if o["h5_samples"] != [[x, 2 * x + 1] for x in xs]:
        return (f"HDF5 samples {o['h5_samples']} are not the samples in global order", dict(sig, what="h5-samples"))
    # the export through the non-linear operator: statistics of the operator OUTPUTS
    import numpy as np
    hx = o["h5x"]
    flags = hx["flags"]
    outs = [(np.exp(0.125 * np.array([x, 2 * x + 1])) + (0.125 * np.array([x, 2 * x + 1])) ** 2).tolist() for x in xs]
    want_groups = sorted((["samples"] if flags[0] else []) + (["stats"] if (flags[1] or flags[2]) else []))
    if hx["groups"] != want_groups:
        return (f"distributed save_to_hdf5{tuple(flags)}: groups {hx['groups']} != {want_groups}", dict(sig, what="h5x-groups"))
    if flags[0] and not all(_close(a, b, 1.0) for row, wrow in zip(hx["samples"], outs) for a, b in zip(row, wrow)):
        return (f"distributed save_to_hdf5{tuple(flags)} through a non-linear operator: samples are not op(sample_i)", dict(sig, what="h5x-samples"))
    for j in range(2):
        col = [w[j] for w in outs]
        mj, vj = _frac_stats(col)
        scj = max(abs(t) for t in col) + 1.0
        if flags[1] and not _close(hx["mean"][j], mj, scj):
            return (f"distributed save_to_hdf5{tuple(flags)} (partition {c['counts']}) through a non-linear operator: exported mean "
                    f"{hx['mean']} is not the arithmetic mean of the operator outputs ({float(mj)} at entry {j})", dict(sig, what="h5x-mean"))
        if flags[2] and not _close(hx["std"][j], math.sqrt(vj), scj):
            return (f"distributed save_to_hdf5{tuple(flags)} through a non-linear operator: exported standard deviation {hx['std']} "
                    f"is not sqrt(unbiased variance of the operator outputs) ({math.sqrt(vj)} at entry {j})", dict(sig, what="h5x-std"))
    return None


def _run_dist(cases):
    root = tempfile.mkdtemp(prefix="c26d_")
    try:
        res = fm.run(NRANKS, _dist_job, cases, root, seed=None, timeout=100.0 * fm.load_factor())
    finally:
        shutil.rmtree(root, ignore_errors=True)
    return res


# ---- the full export matrix -------------------------------------------------------------------------------------------
EXPORT_FLAGS = [(sa, me, sd) for sa in (False, True) for me in (False, True) for sd in (False, True)]
EXPORT_OPS = ("none", "linear", "nonlinear")


def _export_case(xs, flags, opkind, residual, multi):
    """save_to_hdf5 with one combination of {samples, mean, std} x op x list type x field type on the real code.
    Returns (what the file contains, the operator outputs per sample as flat float lists)"""
    import numpy as np
    import h5py
    import nifty.cl as ift
    dom = ift.UnstructuredDomain(2)

    def mk(x):
        f = ift.makeField(dom, np.array([x, 0.5 * x - 0.25]))
        return ift.MultiField.from_dict({"u": f, "w": 0.5 * f + 1.}) if multi else f
    samples = [mk(x) for x in xs]
    if multi:
        U, W = ift.FieldAdapter(dom, "u"), ift.FieldAdapter(dom, "w")
        op = {"none": None, "linear": U + 2. * W, "nonlinear": U.exp() * W}[opkind]
    else:
        S = ift.ScalingOperator(dom, 1.)
        op = {"none": None, "linear": ift.ScalingOperator(dom, 3.), "nonlinear": S.exp() + S * S}[opkind]
    if residual:
        mean = mk(0.375)
        neg = [i % 2 == 1 for i in range(len(xs))]
        sl = ift.ResidualSampleList(mean, [(mean - smp) if ng else (smp - mean) for smp, ng in zip(samples, neg)], neg)
        samples = list(sl.iterator())          # what the list itself says its samples are
    else:
        sl = ift.SampleList(samples)

    def flat(obj):
        if isinstance(obj, ift.MultiField):
            return [float(t) for k in sorted(obj.keys()) for t in obj[k].val.asnumpy().ravel()]
        return [float(t) for t in obj.val.asnumpy().ravel()]

    def hflat(node):
        if isinstance(node, h5py.Group):
            return [float(t) for k in sorted(node.keys()) for t in np.array(node[k]).ravel()]
        return [float(t) for t in np.array(node).ravel()]
    outputs = [flat(smp if op is None else op.force(smp)) for smp in samples]
    d = tempfile.mkdtemp(prefix="c26x_")
    got = {}
    try:
        fn = os.path.join(d, "x.h5")
        try:
            sl.save_to_hdf5(fn, op=op, samples=flags[0], mean=flags[1], std=flags[2])
        except Exception as e:  # noqa: BLE001
            return {"error": type(e).__name__}, outputs
        with h5py.File(fn, "r") as f:
            got["groups"] = sorted(f.keys())
            if "samples" in f:
                got["samples"] = [hflat(f["samples"][str(i)]) for i in range(len(f["samples"].keys()))]
            if "stats" in f:
                got["stats"] = sorted(f["stats"].keys())
                if "mean" in f["stats"]:
                    got["mean"] = hflat(f["stats/mean"])
                if "standard deviation" in f["stats"]:
                    got["std"] = hflat(f["stats/standard deviation"])
    finally:
        shutil.rmtree(d, ignore_errors=True)
    return got, outputs


def _export_oracle(case):
    """exported mean / standard deviation == exact arithmetic mean / sqrt(unbiased variance) of the operator OUTPUTS;
    exported samples == the outputs; groups present exactly as requested"""
    import math
    xs, flags = case["xs"], tuple(case["flags"])
    got, outs = _export_case(xs, flags, case["op"], case["residual"], case["multi"])
    sig = {"site": "save_to_hdf5", "flags": "".join("1" if f else "0" for f in flags), "op": case["op"]}
    if not any(flags):
        if got != {"error": "ValueError"}:
            return (f"save_to_hdf5 with nothing requested does not raise ValueError: {got}", dict(sig, what="no-flags"))
        return None
    if "error" in got:
        return (f"save_to_hdf5{flags} op={case['op']} raises {got['error']}", dict(sig, what="raises"))
    n, width = len(outs), len(outs[0])
    want_groups = sorted((["samples"] if flags[0] else []) + (["stats"] if (flags[1] or flags[2]) else []))
    if got["groups"] != want_groups:
        return (f"save_to_hdf5{flags}: groups {got['groups']}, expected {want_groups}", dict(sig, what="groups"))
    if flags[0] and got["samples"] != outs:
        return (f"save_to_hdf5{flags} op={case['op']}: exported samples are not op(sample_i) in order", dict(sig, what="samples"))
    if flags[1] or flags[2]:
        want_stats = sorted((["mean"] if flags[1] else []) + (["standard deviation"] if flags[2] else []))
        if got["stats"] != want_stats:
            return (f"save_to_hdf5{flags}: stats entries {got['stats']}, expected {want_stats}", dict(sig, what="stats-entries"))
    for j in range(width):
        col = [o[j] for o in outs]
        m, v = _frac_stats(col)
        sc = max(abs(c) for c in col) + 1.0
        if flags[1] and not _close(got["mean"][j], m, sc):
            return (f"save_to_hdf5{flags} op={case['op']} ({'residual' if case['residual'] else 'plain'}, "
                    f"{'multi' if case['multi'] else 'field'}, n={n}): exported mean[{j}] = {got['mean'][j]!r} but the arithmetic "
                    f"mean of the operator outputs is {float(m)!r}", dict(sig, what="mean"))
        if flags[2] and not _close(got["std"][j], math.sqrt(v), sc):
            return (f"save_to_hdf5{flags} op={case['op']} (n={n}): exported standard deviation[{j}] = {got['std'][j]!r} but "
                    f"sqrt(unbiased variance of the operator outputs) is {math.sqrt(v)!r}", dict(sig, what="std"))
    return None


def _stat_oracle(case):
    xs = case["xs"]
    if not xs:
        return None
    if case.get("counts"):
        res = _run_dist([case])
        if not res.ok:
            _, what, sg = _dist_failure(res, [case])
            return (what, sg)
        return _dist_judge(case, [res.values[r][0] for r in range(len(case["counts"]))])
    o = _stat_real(case)
    m, v = _frac_stats(xs)
    sc = max(abs(x) for x in xs) + 1.0
    sig = {"site": "statistics"}
    if not _close(o["sc_mean"], m, sc):
        return (f"StatCalculator.mean over {xs} = {o['sc_mean']}, arithmetic mean {float(m)}", dict(sig, what="sc-mean"))
    if len(xs) >= 2 and not _close(o["sc_var"], v, sc * sc):
        return (f"StatCalculator.var over {xs} = {o['sc_var']}, unbiased variance {float(v)}", dict(sig, what="sc-var"))
    m2, v2 = 2 * m + 1, 4 * v
    if isinstance(o["ss_mean"], str):
        return (f"sample_stat over {len(xs)} samples raises {o['ss_mean']}", dict(sig, what="ss-error"))
    if not (_close(o["ss_mean"][0], m, sc) and _close(o["ss_mean"][1], m2, 2 * sc)):
        return (f"sample_stat mean {o['ss_mean']} != ({float(m)}, {float(m2)}) for {xs}", dict(sig, what="ss-mean"))
    if not (_close(o["ss_var"][0], v, sc * sc) and _close(o["ss_var"][1], v2, 4 * sc * sc)):
        return (f"sample_stat variance {o['ss_var']} != ({float(v)}, {float(v2)}) for {xs}", dict(sig, what="ss-var"))
    if case.get("hdf5"):
        if "h5_error" in o:
            return (f"save_to_hdf5 fails: {o['h5_error']}", dict(sig, what="h5-error"))
        if not (_close(o["h5_mean"][0], m, sc) and _close(o["h5_mean"][1], m2, 2 * sc)):
            return (f"HDF5 mean {o['h5_mean']} != ({float(m)}, {float(m2)})", dict(sig, what="h5-mean"))
        if len(xs) > 1:
            import math
            if not (_close(o["h5_std"][0], math.sqrt(v), sc) and _close(o["h5_std"][1], math.sqrt(v2), 2 * sc)):
                return (f"HDF5 standard deviation {o['h5_std']} != sqrt of unbiased variance ({math.sqrt(v)}, {math.sqrt(v2)})",
                        dict(sig, what="h5-std"))
        if o["h5_samples"] != [[x, 2 * x + 1] for x in xs]:
            return ("HDF5 samples differ from the sample list", dict(sig, what="h5-samples"))
        if not (_close(o["h5m_mean"][0][0], m, sc) and _close(o["h5m_mean"][1][0], 3 * m, 3 * sc)
                and _close(o["h5m_mean"][1][1], 3 * m2, 6 * sc)):
            return (f"HDF5 mean of multi-field samples {o['h5m_mean']} != per-key arithmetic means", dict(sig, what="h5-multi-mean"))
        if len(xs) > 1:
            import math
            if not (_close(o["h5m_std"][0][0], math.sqrt(v), sc) and _close(o["h5m_std"][1][0], 3 * math.sqrt(v), 3 * sc)):
                return (f"HDF5 standard deviation of multi-field samples {o['h5m_std']} is not the per-key unbiased one",
                        dict(sig, what="h5-multi-std"))
        if o["h5m_samples"] != [[[x, 2 * x + 1], [3 * x, 3 * (2 * x + 1)]] for x in xs]:
            return ("HDF5 multi-field samples differ from the sample list", dict(sig, what="h5-multi-samples"))
        if not (_close(o["h5_mean_only"][0], m, sc) and _close(o["h5_mean_only"][1], m2, 2 * sc)) or o["h5_mean_only_groups"] != ["stats"]:
            return (f"HDF5 export with mean only: {o['h5_mean_only']} (groups {o['h5_mean_only_groups']}) != arithmetic mean {float(m)}",
                    dict(sig, what="h5-mean-only"))
        import math
        if o["exp_samples"] != [[2 * x, 2 * (2 * x + 1)] for x in xs]:
            return ("operator export of optimize_kl: samples are not op(sample)", dict(sig, what="export-samples"))
        if len(xs) > 1:
            if "exp_mean" not in o or not (_close(o["exp_mean"][0], 2 * m, 2 * sc) and _close(o["exp_std"][0], 2 * math.sqrt(v), 2 * sc)
                                           and _close(o["exp_std"][1], 4 * math.sqrt(v), 4 * sc)):
                return (f"operator export of optimize_kl: mean/std {o.get('exp_mean')}/{o.get('exp_std')} are not the exact statistics of op(samples)",
                        dict(sig, what="export-stats"))
        elif o["exp_groups"] != ["samples"]:
            return (f"operator export of a single sample writes groups {o['exp_groups']}", dict(sig, what="export-groups"))
    return None


def _rat(x):
    f = Fraction(x)
    return f"{f.numerator}/{f.denominator}"


def _conslen_impl(lst):
    from nifty.cl.minimization.sample_list import _consecutive_length
    try:
        return {"n": int(_consecutive_length(list(lst)))}
    except ValueError:
        return {"error": "ValueError"}


# ------------------------------------------------------------------------------------------------------
def run(ctx):
    import numpy  # noqa: F401
    import nifty.cl  # noqa: F401
    rng = ctx.rng
    counter = [100]

    def tagger():
        counter[0] += 1
        return counter[0]

    # corpus first: minimised past failures are replayed through the oracle
    cdir = os.path.join(os.path.dirname(os.path.dirname(os.path.dirname(os.path.abspath(__file__)))), "corpus", ID)
    for fn in sorted(os.listdir(cdir)) if os.path.isdir(cdir) else []:
        import json
        c = json.load(open(os.path.join(cdir, fn))).get("case")
        if c:
            ctx.stat("corpus")
            ctx.case(c, nontrivial=True)
            r = oracle(c)
            if r:
                ctx.counterexample(c, *r)
    histories = _targeted(tagger)
    for i in range(ctx.n(40, 400)):
        histories.append(_gen_history(rng, tagger, plain_names=(i % 4 != 0)))
    cl_cases = [[rng.randrange(0, 8) for _ in range(rng.randrange(0, 7))] for _ in range(ctx.n(60, 400))]
    cl_cases += [[], [0], [1], [0, 0, 1], [5, 4, 3, 2, 1, 0]]
    stat_cases = []
    for i in range(ctx.n(40, 300)):
        n = rng.randrange(0, 10)
        stat_cases.append(dict(kind="stat", xs=[rng.randrange(-800, 800) / 8.0 for _ in range(n)], hdf5=(i % 3 == 0)))
    stat_cases.append(dict(kind="stat", xs=[1e8 + 0.5, 1e8 + 1.5, 1e8 + 2.5], hdf5=False))  # cancellation-prone two-pass killer
    # ---- one model call -----------------------------------------------------------------------------------
    lines = [_to_model(h) for h in histories] + [dict(op="conslen", lst=c) for c in cl_cases] + \
            [dict(op="stat", xs=[_rat(x) for x in c["xs"]]) for c in stat_cases]
    mouts = ctx.model(DRIVER, lines)
    mh, mc, ms = mouts[:len(histories)], mouts[len(histories):len(histories) + len(cl_cases)], mouts[len(histories) + len(cl_cases):]
    # ---- histories on the real code -------------------------------------------------------------------------
    res = _run_histories(histories, seed=rng.randrange(1 << 30))
    if not res.ok:
        done = min(len(v) if v is not None else 0 for v in res.values) if all(res.returned) else 0
        ctx.broke("correspondence", "history batch did not complete", canon(res.summary())[:600])
        for h in histories[:60]:
            r = oracle(h)
            if r:
                ctx.counterexample(h, *r)
                break
    else:
        for hi, (h, m) in enumerate(zip(histories, mh)):
            real = _assemble(res, hi, h)
            model = [{k: v for k, v in mo.items()} for mo in m]
            for op, ro in zip(h["ops"], real):
                ctx.stat(("save" if op["k"] == "save" else "load") + ":" + ("error" if "error" in ro else "ok"))
                ctx.stat("tasks=" + str(op.get("p", op.get("q"))))
                if op["k"] == "load" and op["residual"]:
                    ctx.stat("residual-load")
            saves = [len(op["xs"]) for op in h["ops"] if op["k"] == "save"]
            nontriv = any(a > b for a, b in zip(saves, saves[1:])) or len({op.get("p", op.get("q")) for op in h["ops"]}) > 1
            names_plain = all(BASES[op["b"]] in BASES[:5] for op in h["ops"])
            ctx.stat("plain-names" if names_plain else "regex-metachar-names")
            pc = _property_check(h, real)
            for ro in real:
                ro.pop("mean_tag", None)
            ctx.compare(h, real, model, note="save/load history on the real sample lists vs Model/SampleFiles", nontrivial=nontriv)
            if pc:
                ctx.counterexample(h, *pc)
        ctx.traces_validated += len(histories)
    # ---- _consecutive_length ---------------------------------------------------------------------------------
    for c, m in zip(cl_cases, mc):
        ctx.stat("conslen")
        ctx.compare(dict(kind="conslen", lst=c), _conslen_impl(c), m, note="_consecutive_length vs model", nontrivial=0 in c)
    # ---- statistics ----------------------------------------------------------------------------------------------
    for c, m in zip(stat_cases, ms):
        xs = c["xs"]
        o = _stat_real(c)
        ctx.stat(f"stat:n={min(len(xs), 3)}{'+' if len(xs) > 3 else ''}")
        sc = (max(abs(x) for x in xs) if xs else 0.0) + 1.0
        ok = True
        for key, mk, scale in (("sc_mean", "mean", sc), ("sc_var", "var", sc * sc)):
            mv = m[mk]
            if mv == "RuntimeError" or o[key] == "RuntimeError":
                ok = ok and (mv == o[key])
            else:
                ok = ok and _close(o[key], Fraction(mv), scale)
        if m["sample_stat"] == "RuntimeError" or isinstance(o["ss_mean"], str):
            ok = ok and (m["sample_stat"] == "RuntimeError") == isinstance(o["ss_mean"], str)
        else:
            mm, mv = (Fraction(t) for t in m["sample_stat"])
            ok = ok and _close(o["ss_mean"][0], mm, sc) and _close(o["ss_var"][0], mv, sc * sc)
        ctx.case(c, nontrivial=len(xs) >= 2)
        if not ok:
            ctx.disagree(c, o, m, "StatCalculator / sample_stat vs Model/Welford (exact rationals, tolerance 1e-9)")
        r = _stat_oracle(c)
        if r:
            ctx.counterexample(c, *r)
    # ---- the full export matrix: {samples, mean, std} x {op None, linear, non-linear} x {plain, residual} x {field,
    # multi-field} x n in {1, 2, 5}; exported statistics against exact statistics of the operator OUTPUTS ------------------
    for n in (1, 2, 5):
        for flags in EXPORT_FLAGS:
            for opk in EXPORT_OPS:
                for residual in (False, True):
                    for multi in (False, True):
                        c = dict(kind="export", xs=[rng.randrange(-16, 17) / 8.0 for _ in range(n)], flags=list(flags),
                                 op=opk, residual=residual, multi=multi)
                        ctx.stat(f"export:flags={''.join('1' if f else '0' for f in flags)}")
                        ctx.stat(f"export:op={opk}")
                        ctx.case(c, nontrivial=n >= 2 and opk == "nonlinear")
                        r = _export_oracle(c)
                        if r:
                            ctx.counterexample(c, *r)
    # ---- statistics and HDF5 export of DISTRIBUTED sample lists, against exact values ---------------------------------
    dcases = []
    for i in range(ctx.n(12, 80)):
        n = rng.randrange(1, 8)
        k = rng.randrange(1, NRANKS + 1)
        counts = [0] * k
        for _ in range(n):
            counts[rng.randrange(k)] += 1
        if counts[0] == 0:      # SampleList.save_to_hdf5/iterator work with any partition; keep rank 0 possibly empty too
            pass
        dcases.append(dict(kind="stat", xs=[rng.randrange(-800, 800) / 8.0 for _ in range(n)], counts=counts))
    dres = _run_dist(dcases)
    if not dres.ok:
        ci, what, sg = _dist_failure(dres, dcases)
        ctx.counterexample(dcases[ci], what, sg)
    else:
        for ci, c in enumerate(dcases):
            ctx.stat(f"dist-stat:ranks={len(c['counts'])}")
            ctx.case(c, nontrivial=len(c["counts"]) > 1)
            r = _dist_judge(c, [dres.values[rk][ci] for rk in range(len(c["counts"]))])
            if r:
                ctx.counterexample(c, *r)
    ctx.extra["exhaustive"] = False


def search(ctx):
    rng = ctx.rng
    counter = [5000]

    def tagger():
        counter[0] += 1
        return 64 * counter[0]
    for h in _targeted(tagger) + [_gen_history(rng, tagger, False) for _ in range(30)]:
        r = oracle(h)
        if r:
            ctx.counterexample(h, *r)
            return
    for _ in range(50):
        c = dict(kind="stat", xs=[rng.randrange(-800, 800) / 8.0 for _ in range(rng.randrange(1, 9))], hdf5=True)
        r = _stat_oracle(c)
        if r:
            ctx.counterexample(c, *r)
            return
