"""C15 — JAX conjugate gradients: accurate, and eager and compiled variants agree (DESIGN.md §5 C15).

Tie (class T): both real solvers (`_cg`, `_static_cg`, and the public `cg`/`static_cg` wrappers) are run on generated
pytree-shaped systems and compared with both Lean models (exact rationals) on (x, info, nit / ValueError);
discrete outputs are compared only when the model's decisions are stable under a ±4e-6 perturbation of every threshold.
Oracle (real code only): eager vs compiled agreement, criterion met when info = 0, energy not above start,
failure reported on non-positive-definite systems when asked to, steepest-descent first step.
"""
import math
from fractions import Fraction

import numpy as np

from ._iter_common import rs, opt

ID = "C15"
LEAN_MODULES = ["NiftyVerif.Core.Proto", "NiftyVerif.Model.RVec", "NiftyVerif.Model.CgRe", "NiftyVerif.Props.C15"]
DRIVER = "Driver/C15.lean"
OBLIGATIONS = ["NiftyVerif.C15." + t for t in (
    "static_eq_eager", "static_terminates", "eager_info_range", "cg_residual_invariant",
    "cg_reports_success_only_if", "nonposdef_reports_failure", "nonposdef_energy_not_above_start",
    "first_step_steepest_descent", "spd_never_fails", "normLt_encodings_exact", "maxiter0_disagree", "driver_residual_invariant", "driver_static_eq_eager")]
RULE = ("systems = (matrix kind, dimension, pytree shape, j, x0) x stopping configuration (absdelta/resnorm/tol/atol/"
        "miniter/maxiter/_raise_nonposdef), thresholds placed between consecutive trajectory values so that convergence "
        "falls before/at/after the iteration limit; non-trivial = at least one CG iteration is executed; distinct by "
        "canonical case")
TRUSTED_BASE = [
    "Lean 4.33 kernel; axioms propext/Classical.choice/Quot.sound only (audited every run)",
    "hand-written model Model/CgRe.lean of _cg/_static_cg (tied by differential execution, class T)",
    "IEEE rounding, XLA, jax.lax.while_loop/cond, tree_math.Vector arithmetic: executed, not modelled",
    "harness generators/canonicalisation"]
ASSUMPTIONS = ["norm_ord in {1, 2, inf} (other orders are irrational); float64 / complex128; time_threshold/name (logging) not modelled; nfev not compared",
               "exact arithmetic in the model: rounding drift of the recurrence residual is outside the model"]

XTOL = 1e-7      # class-T tolerance on x relative to (|x|_inf + 1); observed noise < 1e-12 on the generated systems
PERT = 4e-6      # threshold perturbation deciding whether a branch decision is robust
_J = {}


def _jax():
    if not _J:
        import jax
        jax.config.update("jax_enable_x64", True)
        import jax.numpy as jnp
        import nifty.re as jft
        from nifty.re import conjugate_gradient as cgm
        import logging
        from nifty.re.logger import logger as _lg
        _lg.setLevel(logging.CRITICAL)
        _J.update(jax=jax, jnp=jnp, jft=jft, cgm=cgm)
    return _J


# ------------------------------------------------------------------------------------------------ pytrees
def _build_tree(shape, flat, dtype=float):
    """shape: nested structure of ints (leaf sizes) / [a,b] 2-D leaf shapes in dicts/lists -> pytree of arrays"""
    jnp = _jax()["jnp"]
    pos = [0]
    float_ = dtype

    def rec(s):
        if isinstance(s, int):
            a = jnp.array(flat[pos[0]:pos[0] + s], dtype=float_)
            pos[0] += s
            return a
        if isinstance(s, dict) and "shape" in s:
            k = int(np.prod(s["shape"]))
            a = jnp.array(flat[pos[0]:pos[0] + k], dtype=float_).reshape(s["shape"])
            pos[0] += k
            return a
        if isinstance(s, dict):
            return {k: rec(s[k]) for k in sorted(s)}
        return tuple(rec(t) for t in s)
    t = rec(shape)
    assert pos[0] == len(flat)
    return t


def _flatten(tree):
    jax, jnp = _jax()["jax"], _jax()["jnp"]
    leaves = jax.tree_util.tree_leaves(tree)
    return jnp.concatenate([l.reshape(-1) for l in leaves])


def _shape_size(s):
    if isinstance(s, int):
        return s
    if isinstance(s, dict) and "shape" in s:
        return int(np.prod(s["shape"]))
    if isinstance(s, dict):
        return sum(_shape_size(v) for v in s.values())
    return sum(_shape_size(v) for v in s)


def _gen_shape(rng, n):
    """random pytree shape with n scalar entries in total"""
    if n <= 1 or rng.random() < 0.15:
        return n
    parts = []
    left = n
    while left > 0:
        k = rng.randint(1, left)
        parts.append(k)
        left -= k
    leaves = []
    for k in parts:
        if k >= 4 and k % 2 == 0 and rng.random() < 0.4:
            leaves.append({"shape": [2, k // 2]})
        else:
            leaves.append(k)
    if rng.random() < 0.5:
        return {f"k{i}": l for i, l in enumerate(leaves)}
    if len(leaves) >= 2 and rng.random() < 0.5:
        return [leaves[0], {"a": leaves[1:]}] if len(leaves) > 2 else [leaves[0], {"a": leaves[1]}]
    return list(leaves)


# ------------------------------------------------------------------------------------------------ real code
def _cfg_kwargs(case):
    kw = {}
    for k in ("absdelta", "resnorm"):
        if case.get(k) is not None:
            kw[k] = float(Fraction(case[k]))
    kw["tol"] = float(Fraction(case["tol"]))
    kw["atol"] = float(Fraction(case["atol"]))
    for k in ("miniter", "maxiter"):
        if case.get(k) is not None:
            kw[k] = int(case[k])
    kw["_raise_nonposdef"] = bool(case["raise"])
    if case.get("norm_ord") is not None:
        kw["norm_ord"] = float("inf") if case["norm_ord"] == "inf" else int(case["norm_ord"])
    return kw


def _system(case):
    J = _jax()
    jnp, jft = J["jnp"], J["jft"]
    cp = case.get("cplx")
    dt = complex if cp else float
    H = jnp.array(np.array(case["mat"], dtype=float))
    jvals, x0vals = list(case["j"]), (None if case.get("x0") is None else list(case["x0"]))
    if cp:
        H = H + 1j * jnp.array(np.array(cp["mat_im"], dtype=float))
        jvals = [a + 1j * b for a, b in zip(jvals, cp["j_im"])]
        if x0vals is not None:
            x0vals = [a + 1j * b for a, b in zip(x0vals, cp["x0_im"])]
    shape = case["shape"]
    jt = _build_tree(shape, jvals, dt)
    wrap = case.get("vector", True)
    unflat = lambda f: _build_tree_from_array(shape, f)
    if wrap:
        jv = jft.Vector(jt)
        mat = lambda v: jft.Vector(unflat(H @ _flatten(v.tree)))
        x0 = None if x0vals is None else jft.Vector(_build_tree(shape, x0vals, dt))
        flat = lambda v: _reim(np.array(_flatten(v.tree)), cp)
    else:
        jv = jt
        mat = lambda v: unflat(H @ _flatten(v))
        x0 = None if x0vals is None else _build_tree(shape, x0vals, dt)
        flat = lambda v: _reim(np.array(_flatten(v)), cp)
    return mat, jv, x0, flat


def _reim(a, cp):
    """complex vectors are reported as (real parts, imaginary parts): the real vector space of doubled dimension"""
    return np.concatenate([a.real, a.imag]) if cp else a


def _realified(case):
    """(H, j, x0) of the equivalent real system: complex Hermitian n x n  ->  real symmetric 2n x 2n"""
    H = np.array(case["mat"], dtype=object)
    j = list(case["j"])
    x0 = None if case.get("x0") is None else list(case["x0"])
    cp = case.get("cplx")
    if not cp:
        return [list(r) for r in case["mat"]], j, x0
    A, B = np.array(case["mat"]), np.array(cp["mat_im"])
    H2 = np.block([[A, -B], [B, A]])
    j2 = j + list(cp["j_im"])
    x02 = None if x0 is None else x0 + list(cp["x0_im"])
    return [[int(v) for v in r] for r in H2], j2, x02


def _build_tree_from_array(shape, f):
    pos = [0]

    def rec(s):
        if isinstance(s, int):
            a = f[pos[0]:pos[0] + s]
            pos[0] += s
            return a
        if isinstance(s, dict) and "shape" in s:
            k = int(np.prod(s["shape"]))
            a = f[pos[0]:pos[0] + k].reshape(s["shape"])
            pos[0] += k
            return a
        if isinstance(s, dict):
            return {k: rec(s[k]) for k in sorted(s)}
        return tuple(rec(t) for t in s)
    return rec(shape)


_MEMO = {}


def _run_real(case, variant, kw=None, public=False):
    """memoised (the correspondence and the oracle ask for the same runs)"""
    import json
    key = json.dumps([case, variant, kw, public], sort_keys=True, default=str)
    if key not in _MEMO:
        if len(_MEMO) > 4000:
            _MEMO.clear()
        _MEMO[key] = _run_real_(case, variant, kw, public)
    return _MEMO[key]


_NRUN = [0]


def _housekeeping():
    """every new closure is a new XLA compilation: drop the compilation caches regularly (JIT code memory is finite)"""
    _NRUN[0] += 1
    if _NRUN[0] % 40 == 0:
        try:
            _jax()["jax"].clear_caches()
            import gc
            gc.collect()
        except Exception:
            pass


def _run_real_(case, variant, kw=None, public=False):
    """-> {"x": [floats], "info": int, "nit": int} | {"error": kind}"""
    _housekeeping()
    J = _jax()
    cgm, jft = J["cgm"], J["jft"]
    kw = dict(_cfg_kwargs(case) if kw is None else kw)
    old_reset = cgm.N_RESET
    try:
        cgm.N_RESET = int(case.get("nreset", 20))     # harness-side patch of the module constant (default 20)
        mat, jv, x0, flat = _system(case)
        if public:
            f = jft.cg if variant == "eager" else jft.static_cg
            x, info = f(mat, jv, x0, **kw)
            return {"x": [float(t) for t in flat(x)], "info": int(info)}
        f = cgm._cg if variant == "eager" else cgm._static_cg
        r = f(mat, jv, x0, **kw)
        return {"x": [float(t) for t in flat(r.x)], "info": int(r.info), "nit": int(r.nit)}
    except Exception as e:  # canonical error kinds
        return {"error": type(e).__name__}
    finally:
        cgm.N_RESET = old_reset


# ------------------------------------------------------------------------------------------------ model
def _model_line(case, scale=None):
    fin = np.finfo(np.float64)
    H2, j2, x02 = _realified(case)
    d = {"op": "cg", "mat": [[rs(v) for v in row] for row in H2], "j": [rs(v) for v in j2],
         "x0": None if x02 is None else [rs(v) for v in x02], "size": len(case["j"]),
         "tol": case["tol"], "atol": case["atol"], "raise": bool(case["raise"]),
         "tiny": rs(6.0 * float(fin.tiny)), "eps": rs(6.0 * float(fin.eps)), "nreset": int(case.get("nreset", 20))}
    for k in ("absdelta", "resnorm", "miniter", "maxiter"):
        d[k] = case.get(k)
    d["norm_ord"] = str(case.get("norm_ord") or 2)
    if scale is not None:
        for k in ("absdelta", "resnorm", "tol", "atol"):
            if d.get(k) is not None:
                d[k] = rs(Fraction(d[k]) * scale)
    return d


def _disc(o):
    """discrete part of one variant's output"""
    if "error" in o:
        return ("error", o["error"])
    return (o["info"], o.get("nit"))


def _close(xr, xm):
    xm = [float(Fraction(v)) for v in xm]
    sc = max([abs(v) for v in xm] + [1.0])
    return len(xr) == len(xm) and all(abs(a - b) <= XTOL * sc and math.isfinite(a) for a, b in zip(xr, xm))


# ------------------------------------------------------------------------------------------------ oracle
def _energy(H, j, x):
    return 0.5 * x @ H @ x - j @ x


def _mk_sig(kind, **kw):
    d = {"site": "re.conjugate_gradient", "kind": kind}
    d.update(kw)
    return d


def oracle(case):
    """the property on the REAL code only"""
    H2_, j2_, x02_ = _realified(case)
    H = np.array(H2_, dtype=float)
    j = np.array(j2_, dtype=float)
    x0 = np.zeros_like(j) if x02_ is None else np.array(x02_, dtype=float)
    kw = _cfg_kwargs(case)
    re = _run_real(case, "eager")
    rs_ = _run_real(case, "static")
    for o in (re, rs_):
        if "error" in o and o["error"] != "ValueError":
            return (f"solver crashed with {o['error']}", _mk_sig("crash", error=o["error"]))
    ev = np.linalg.eigvalsh(H)
    spd = ev[0] > 0
    E0 = _energy(H, j, x0)
    r0 = H @ x0 - j
    g0 = r0 @ r0
    curv0 = r0 @ H @ r0
    escale = abs(E0) + abs(j @ j) + 1.0
    maxiter = kw.get("maxiter")
    if maxiter == 0:
        # zero iterations allowed: only sanity (no claim of convergence unless already converged)
        if "error" not in re and re["info"] == 0 and g0 > 0 and spd:
            return ("maxiter=0: eager reports convergence (info=0) without iterating",
                    _mk_sig("maxiter0_claims_convergence", variant="eager"))
        return None
    # (1) failure reported when asked to -----------------------------------------------------------------
    if kw["_raise_nonposdef"] and g0 > 0 and curv0 < -1e-9 * max(1.0, abs(g0)):
        if "error" not in re:
            return ("eager CG does not raise on first-direction negative curvature with _raise_nonposdef=True",
                    _mk_sig("no_failure_reported", variant="eager"))
        if "error" in rs_ or rs_["info"] == 0:
            return ("compiled CG reports success on first-direction negative curvature with _raise_nonposdef=True",
                    _mk_sig("no_failure_reported", variant="static"))
    # (2) energy not above start; first-step steepest descent ---------------------------------------------------
    for name, o in (("eager", re), ("static", rs_)):
        if "error" in o or (name == "static" and o["info"] == -1):
            continue
        x = np.array(o["x"])
        if not np.all(np.isfinite(x)):
            return (f"{name} CG returned a non-finite point", _mk_sig("nonfinite", variant=name))
        E = _energy(H, j, x)
        if E > E0 + 1e-9 * escale:
            return (f"{name} CG returned a point with quadratic energy {E:.6g} above the start {E0:.6g}",
                    _mk_sig("energy_above_start", variant=name))
        if (not kw["_raise_nonposdef"]) and g0 > 0 and curv0 < -1e-9 * max(1.0, abs(g0)):
            step = x - x0
            t = -(step @ r0) / g0
            par = np.linalg.norm(step + t * r0) <= 1e-9 * (np.linalg.norm(step) + np.linalg.norm(r0))
            if not (t > 0 and par and E < E0):
                return (f"{name} CG: first direction has negative curvature but the step is not a steepest-descent "
                        f"step lowering the energy (t={t:.4g}, E-E0={E - E0:.4g})",
                        _mk_sig("first_step_not_steepest_descent", variant=name))
    # (3) criterion met when success is reported on SPD systems ---------------------------------------------
    if spd:
        for name, o in (("eager", re), ("static", rs_)):
            if "error" in o:
                return (f"{name} CG failed ({o['error']}) on a well-conditioned positive definite system",
                        _mk_sig("failure_on_spd", variant=name))
            if o["info"] == -1:
                return (f"{name} CG reports info=-1 on a well-conditioned positive definite system",
                        _mk_sig("failure_on_spd", variant=name))
            if o["info"] == 0:
                x = np.array(o["x"])
                nord = {None: 2, 1: 1, "1": 1, "inf": np.inf}[case.get("norm_ord")]
                res = np.linalg.norm(H @ x - j, ord=nord)
                ok = False
                resn = kw.get("resnorm")
                if resn is None and kw.get("absdelta") is None:
                    resn = max(kw["tol"] * np.linalg.norm(j, ord=nord), kw["atol"])
                if resn is not None and res < resn * (1 + 1e-6) + 1e-10 * np.linalg.norm(j):
                    ok = True
                if res <= 1e-150:
                    ok = True
                if not ok and kw.get("absdelta") is not None and o["nit"] >= 1:
                    kw2 = dict(kw, maxiter=o["nit"] - 1, miniter=kw.get("miniter", None))
                    if o["nit"] - 1 == 0:
                        Eprev = E0
                    else:
                        # previous iterate: stop the same solver one iteration earlier
                        kw2["miniter"] = _eff_miniter(case)
                        prev = _run_real(case, "eager", kw2)
                        Eprev = _energy(H, j, np.array(prev["x"])) if "error" not in prev else None
                    if Eprev is not None and Eprev - _energy(H, j, x) < kw["absdelta"] * (1 + 1e-6) + 1e-12 * escale:
                        ok = True
                if not ok:
                    return (f"{name} CG reports convergence (info=0) but neither the residual ({res:.4g}) nor the "
                            f"energy criterion is met", _mk_sig("success_without_criterion", variant=name))
    # (4) eager and compiled agree (only where the eager decisions are robust against threshold noise) --------
    dis = None
    if "error" in re:
        if "error" in rs_ or rs_["info"] != -1:
            dis = ("eager CG raises ValueError but compiled CG does not report info=-1",
                   _mk_sig("eager_static_disagree", what="failure"))
    else:
        xe = np.array(re["x"])
        rres = np.linalg.norm(H @ xe - j)
        # exact termination (residual at rounding level) is a rounding event: op-by-op and fused (FMA) evaluation may
        # see gamma == 0 in different iterations; verdict and iteration count are compared only away from it
        exact_event = rres <= 1e-13 * (np.linalg.norm(j) + np.linalg.norm(H) * np.linalg.norm(xe) + 1e-300) \
            and case.get("kind") not in ("scaled_identity", "singular_dir")
        if ("error" in rs_ or rs_["info"] != re["info"]) and not (exact_event and rs_.get("nit") != re["nit"]):
            dis = (f"eager CG reports info={re['info']} but compiled CG reports "
                   f"{rs_.get('info', rs_.get('error'))}", _mk_sig("eager_static_disagree", what="info"))
        elif "error" not in rs_ and rs_["info"] != -1:
            xs = np.array(rs_["x"])
            if np.max(np.abs(xe - xs)) > XTOL * (np.max(np.abs(xe)) + 1.0):
                dis = ("eager and compiled CG return different solutions",
                       _mk_sig("eager_static_disagree", what="x"))
            elif rs_["nit"] != re["nit"] and not exact_event:
                dis = (f"eager CG stops after {re['nit']} iterations, compiled CG after {rs_['nit']}",
                       _mk_sig("eager_static_disagree", what="nit"))
    if dis is None:
        return None
    for sc in (1 + PERT, 1 - PERT):      # a disagreement counts only if the eager outcome is stable under threshold noise
        kw2 = dict(kw)
        for k in ("absdelta", "resnorm", "tol", "atol"):
            if kw2.get(k) is not None:
                kw2[k] = kw2[k] * sc
        if _disc(_run_real(case, "eager", kw2)) != _disc(re):
            return None
    return dis


def _eff_miniter(case):
    n = len(case["j"])
    if case.get("miniter") is not None:
        return int(case["miniter"])
    mx = case.get("maxiter")
    return min(6, int(mx) if mx is not None else 20 * n)


# ------------------------------------------------------------------------------------------------ generators
def _sym(rng, n, lo, hi):
    M = [[0] * n for _ in range(n)]
    for a in range(n):
        for b in range(a + 1, n):
            if rng.random() < 0.6:
                M[a][b] = M[b][a] = rng.randint(lo, hi)
    return M


def _gen_matrix(rng, n, kind):
    M = _sym(rng, n, -1, 1)
    if kind in ("spd", "negdef"):
        for a in range(n):
            M[a][a] = n + rng.randint(1, n + 2)           # strictly diagonally dominant: kappa small
        if kind == "negdef":
            M = [[-v for v in row] for row in M]
    elif kind == "indef":
        for a in range(n):
            M[a][a] = (n + rng.randint(1, n + 2)) * (1 if rng.random() < 0.5 else -1)
        if all(M[a][a] > 0 for a in range(n)):
            M[rng.randrange(n)][rng.randrange(n) * 0 + 0] *= 1
            M[0][0] = -M[0][0]
    elif kind == "scaled_identity":
        c = rng.choice([1, 2, 4, 8])
        M = [[c if a == b else 0 for b in range(n)] for a in range(n)]
    elif kind == "singular_dir":
        # curvature exactly zero along the first direction j = e0 + e1 with diag(1,-1,...)
        M = [[0] * n for _ in range(n)]
        for a in range(n):
            M[a][a] = 1 if a % 2 == 0 else -1
    return M


def _ref_traj(H, j, x0, kmax, nord=2):
    """plain float CG (generator helper only): residual norms and energy differences per iteration"""
    H = np.array(H, dtype=float)
    j = np.array(j, dtype=float)
    x = np.zeros_like(j) if x0 is None else np.array(x0, dtype=float)
    r = H @ x - j
    d = r.copy()
    g = r @ r
    E = 0.5 * x @ H @ x - j @ x
    norms, ediffs = [], []
    for _ in range(kmax):
        if g <= 0:
            break
        q = H @ d
        c = d @ q
        if c <= 0:
            break
        a = g / c
        x = x - a * d
        r = r - a * q
        g2 = r @ r
        E2 = 0.5 * x @ H @ x - j @ x
        norms.append(float(np.linalg.norm(r, ord=nord)))
        ediffs.append(E - E2)
        d = d * (g2 / g) + r
        g, E = g2, E2
    return norms, ediffs


def _gen_case(rng, quick):
    nmax = 8 if quick else 14
    kind = rng.choices(["spd", "indef", "negdef", "scaled_identity", "singular_dir"], [50, 22, 12, 8, 8])[0]
    n = rng.randint(2, nmax) if kind != "spd" else rng.randint(4, nmax)
    H = _gen_matrix(rng, n, kind)
    j = [rng.randint(-4, 4) for _ in range(n)]
    if kind == "singular_dir":
        j = [1, 1] + [0] * (n - 2)
    if all(v == 0 for v in j) and rng.random() < 0.8:
        j[rng.randrange(n)] = rng.randint(1, 3)
    x0 = None if rng.random() < 0.5 else [rng.randint(-3, 3) for _ in range(n)]
    if kind == "singular_dir":
        x0 = None
    case = {"op": "cg", "kind": kind, "mat": H, "j": j, "x0": x0, "shape": _gen_shape(rng, n),
            "vector": True, "tol": rs(1e-5), "atol": rs(0.0), "raise": True,
            "absdelta": None, "resnorm": None, "miniter": None, "maxiter": None}
    if kind != "spd":
        case["raise"] = rng.random() < 0.35
    if rng.random() < 0.45:
        case["nreset"] = rng.randint(1, 4)     # exercise the residual-reset branch (N_RESET patched in-process)
    if kind in ("spd", "indef", "negdef") and rng.random() < 0.25:
        # complex Hermitian system: imaginary part antisymmetric, small enough to keep the definiteness class
        B = [[0] * n for _ in range(n)]
        for a in range(n):
            for b in range(a + 1, n):
                if rng.random() < 0.5:
                    B[a][b] = rng.choice([-1, 1])
                    B[b][a] = -B[a][b]
        case["cplx"] = {"mat_im": B, "j_im": [rng.randint(-3, 3) for _ in range(n)],
                        "x0_im": None if x0 is None else [rng.randint(-2, 2) for _ in range(n)]}
    if isinstance(case["shape"], int) and rng.random() < 0.5:
        case["vector"] = False           # plain arrays; bare pytrees of arrays do not support arithmetic
    H_, j_, x0_ = _realified(case)
    nord = 2
    if not case.get("cplx") and rng.random() < 0.3:
        case["norm_ord"] = rng.choice([1, "inf"])      # exact on rationals; complex moduli are not
        nord = 1 if case["norm_ord"] == 1 else np.inf
    norms, ediffs = _ref_traj(H_, j_, x0_, max(1, n - 2), nord)
    # stopping configuration: thresholds between consecutive trajectory values
    mode = rng.choice(["resnorm", "absdelta", "both", "tol", "atol", "default"])
    k = rng.randrange(len(norms)) if norms else 0
    if norms and mode in ("resnorm", "both"):
        lo, hi = norms[k], (norms[k - 1] if k > 0 else norms[k] * 4)
        case["resnorm"] = rs(math.sqrt(lo * hi)) if lo > 0 else rs(hi / 2)
    if ediffs and mode in ("absdelta", "both"):
        k2 = k if mode == "absdelta" else rng.randrange(len(ediffs))
        lo, hi = ediffs[k2], (ediffs[k2 - 1] if k2 > 0 else ediffs[k2] * 4)
        case["absdelta"] = rs(math.sqrt(lo * hi)) if lo > 0 and hi > 0 else rs(1e-3)
    jn = float(np.linalg.norm(np.array(j_, dtype=float), ord=nord)) or 1.0
    if norms and mode == "tol":
        lo, hi = norms[k], (norms[k - 1] if k > 0 else norms[k] * 4)
        case["tol"] = rs(math.sqrt(lo * hi) / jn) if lo > 0 else rs(1e-3)
    if norms and mode == "atol":
        lo, hi = norms[k], (norms[k - 1] if k > 0 else norms[k] * 4)
        case["atol"] = rs(math.sqrt(lo * hi)) if lo > 0 else rs(1e-3)
        case["tol"] = rs(rng.choice([0.0, 1e-9]))
    if mode == "default":
        case["tol"] = rs(rng.choice([1e-1, 1e-2, 1e-3]))
    # iteration limits: before / exactly at / after the iteration where the criterion is first met
    kk = k + 1
    r = rng.random()
    if r < 0.30:
        case["maxiter"] = kk
    elif r < 0.45:
        case["maxiter"] = max(1, kk - 1)
    elif r < 0.60:
        case["maxiter"] = kk + rng.randint(1, 2)
    elif r < 0.70:
        case["maxiter"] = rng.randint(1, n)
    r = rng.random()
    if r < 0.30:
        case["miniter"] = 0
    elif r < 0.45:
        case["miniter"] = kk
    elif r < 0.55:
        case["miniter"] = kk + 1
    elif r < 0.65:
        case["miniter"] = rng.randint(0, n)
    return case


def _nontrivial(case):
    return any(v != 0 for v in case["j"]) or case.get("x0") is not None


def shrink(case):
    n = len(case["j"])
    if case.get("cplx"):
        yield dict(case, cplx=None)
        for k in ("miniter", "maxiter", "absdelta", "resnorm"):
            if case.get(k) is not None:
                yield dict(case, **{k: None})
        return
    if case.get("shape") != n:
        yield dict(case, shape=n, vector=False)
    for k in ("miniter", "maxiter", "absdelta", "resnorm"):
        if case.get(k) is not None:
            yield dict(case, **{k: None})
    if case.get("x0") is not None:
        yield dict(case, x0=None)
    if n > 2:
        for drop in range(n):
            keep = [a for a in range(n) if a != drop]
            yield dict(case, shape=n - 1, vector=False, mat=[[case["mat"][a][b] for b in keep] for a in keep],
                       j=[case["j"][a] for a in keep],
                       x0=None if case.get("x0") is None else [case["x0"][a] for a in keep])
    for a in range(n):
        if abs(case["j"][a]) > 1:
            jj = list(case["j"])
            jj[a] = 1 if jj[a] > 0 else -1
            yield dict(case, j=jj)
        for b in range(a + 1, n):
            if case["mat"][a][b] != 0:
                M = [list(r) for r in case["mat"]]
                M[a][b] = M[b][a] = 0
                yield dict(case, mat=M)


# ------------------------------------------------------------------------------------------------ run
def _load_corpus():
    import glob
    import json
    import os
    from core.ctx import VERIF
    out = []
    for p in sorted(glob.glob(os.path.join(VERIF, "corpus", ID, "*.json"))):
        out.append(json.load(open(p)))
    return out


def _check_cases(ctx, cases):
    lines = []
    for c in cases:
        lines += [_model_line(c), _model_line(c, Fraction(1) + Fraction(PERT)), _model_line(c, Fraction(1) - Fraction(PERT))]
    outs = ctx.model(DRIVER, lines)
    for idx, c in enumerate(cases):
        m, mu, md = outs[3 * idx], outs[3 * idx + 1], outs[3 * idx + 2]
        ctx.stat("kind=" + c.get("kind", "?"))
        ctx.stat("n=%d" % len(c["j"]))
        ctx.stat("nreset=%s" % c.get("nreset", 20))
        ctx.stat("complex" if c.get("cplx") else "real")
        ctx.stat("norm_ord=%s" % (c.get("norm_ord") or 2))
        if "error" in m and "eager" not in m:
            ctx.disagree(c, None, m, "model driver rejected the case")
            continue
        ctx.stat("why=" + m["eager"].get("why", m["eager"].get("kind", "?")))
        if c.get("maxiter") is not None and m["eager"].get("nit") == c["maxiter"] and m["eager"].get("info") == 0:
            ctx.stat("converged_exactly_at_maxiter")
        robust = all(_disc(o["eager"]) == _disc(m["eager"]) and _disc(o["static"]) == _disc(m["static"])
                     for o in (mu, md))
        exact_ok = c.get("kind") in ("scaled_identity", "singular_dir")
        if m["eager"].get("why") == "gammaTiny" and not exact_ok:
            robust = False    # exact termination (gamma = 0) is a rounding event in floats
        if m["eager"].get("why") in ("zeroCurv",) and not exact_ok:
            robust = False
        ctx.case(c, _nontrivial(c))
        if not robust:
            ctx.skipped_near_threshold += 1
        else:
            for variant in ("eager", "static"):
                real = _run_real(c, variant)
                mo = m[variant]
                if variant == "static" and "error" not in real and real["info"] == -1:
                    ok = mo.get("info") == -1          # failure reported: x is not compared
                elif "error" in real or "error" in mo:
                    ok = real.get("error") == mo.get("error")
                else:
                    ok = (real["info"], real["nit"]) == (mo["info"], mo["nit"]) and _close(real["x"], mo["x"])
                if not ok:
                    ctx.disagree(c, {variant: real}, {variant: mo},
                                 f"C15 {variant} CG: real solver vs Lean model (class T)")
            if ctx.rng.random() < 0.25:
                for variant in ("eager", "static"):
                    pub = _run_real(c, variant, public=True)
                    mo = m[variant]
                    if "error" in pub or "error" in mo or mo.get("info") == -1:
                        ok = ("error" in pub) == ("error" in mo) or (pub.get("info") == -1 == mo.get("info"))
                    else:
                        ok = pub["info"] == mo["info"] and _close(pub["x"], mo["x"])
                    if not ok:
                        ctx.disagree(c, {variant + "_public": pub}, {variant: mo},
                                     f"C15 public wrapper {variant}: (x, info) vs Lean model")
            ctx.traces_validated += 1
        r = oracle(c)
        if r is not None:
            ctx.counterexample(c, r[0], r[1])


def run(ctx):
    cases = _load_corpus()
    N = ctx.n(45, 300)
    for _ in range(N):
        cases.append(_gen_case(ctx.rng, ctx.quick))
    B = 150
    for a in range(0, len(cases), B):
        _check_cases(ctx, cases[a:a + B])


def search(ctx):
    """targeted: non-positive-definite first directions, convergence exactly at the limit"""
    for _ in range(ctx.n(40, 200)):
        c = _gen_case(ctx.rng, True)
        r = oracle(c)
        if r is not None:
            ctx.counterexample(c, r[0], r[1])
            return
