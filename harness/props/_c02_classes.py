"""C02 operator-class table: for every class  gen(rng, quick) -> case (pure JSON),  build(case) -> real operator,
line(case) -> model request,  ref(case, x) -> numpy reference of the documented definition (optional).
A case is self-contained JSON so that replays rebuild the same operator."""
import numpy as np

from . import _c02_util as U


def _ift():
    import nifty.cl as ift
    return ift


def _dt(case):
    return {"i": np.int64, "f": np.float64, "c": np.complex128, "F": np.float32, "C": np.complex64}[case.get("dtype", "f")]


def _pick_dtype(rng, allowed="ifc"):
    """single precision variants (small integers / dyadic weights are exact there too) are mixed in"""
    d = rng.choice(list(allowed))
    if d in "fc" and rng.random() < 0.2:
        return d.upper()
    return d


def _sizes(doms):
    return [U.sub_size(d) for d in doms]


def _fullshape(doms):
    return [s for d in doms for s in d["shape"]]


def _model_doms(case, key="doms"):
    """re-read shape and dvol from the REAL domain objects at check time"""
    return [U.sub_json(d) for d in case[key]]


def _gen_spaces(rng, n):
    r = rng.random()
    if r < 0.15:
        return None
    if r < 0.25 and n >= 1:
        return rng.randrange(n)           # scalar form
    k = rng.randint(0, n)
    return sorted(rng.sample(range(n), k)) if rng.random() < 0.7 else rng.sample(range(n), k)


def _gen_weighted_spaces(rng, doms):
    """spaces over structured sub-domains only (UnstructuredDomain has no volume element)"""
    ok = [i for i, d in enumerate(doms) if d["kind"] != "U"]
    if len(ok) == len(doms):
        return _gen_spaces(rng, len(doms))
    k = rng.randint(0, len(ok))
    sp = rng.sample(ok, k)
    if len(sp) == 1 and rng.random() < 0.3:
        return sp[0]
    return sp


def _resolve_spaces(sp, n):
    if sp is None:
        return list(range(n))
    if isinstance(sp, int):
        return [sp]
    return list(sp)


def _weights(doms, spaces, power):
    """numpy array of the documented volume factor over the sub-domain-size grid"""
    sizes = _sizes(doms)
    w = np.ones(sizes)
    for s in spaces:
        d = U.build_sub(doms[s])
        if power == 0:
            continue
        v = np.full(sizes[s], d.scalar_dvol) if d.scalar_dvol is not None else np.asarray(d.dvol, dtype=float).reshape(-1)
        shp = [1] * len(sizes)
        shp[s] = sizes[s]
        w = w * (v.reshape(shp) ** power)
    return w


CLASSES = {}


def register(name):
    def deco(cls):
        CLASSES[name] = cls()
        cls.name = name
        return cls
    return deco


class Base:
    doubled = False
    dtypes = "ifc"
    real_only_input = {}          # mode -> True when only real input is accepted
    ref = None

    def line(self, case):
        return dict(case)

    def malformed(self, rng):
        return None


# ------------------------------------------------------------------------------------------------
@register("ContractionOperator")
class _Contraction(Base):
    def gen(self, rng, quick):
        doms = U.gen_doms(rng)
        power = rng.choice([0, 0, 1, 1, 2, -1])
        if rng.random() < 0.4:          # make sure contracted / kept sub-domains with several axes are frequent
            i = rng.randrange(len(doms))
            doms[i] = U.sub_json(dict(kind="RG", shape=[rng.randint(1, 3), rng.randint(1, 3)],
                                      dist=[rng.choice([0.5, 1.0, 2.0]), rng.choice([0.5, 0.25])], harmonic=False))
        return dict(cls=self.name, doms=doms,
                    spaces=_gen_spaces(rng, len(doms)) if power == 0 else _gen_weighted_spaces(rng, doms), power=power,
                    via=rng.choice(["ContractionOperator", "IntegrationOperator"]) if power == 1 else "ContractionOperator",
                    dtype=_pick_dtype(rng, "ifc" if power == 0 else "fc"))

    def malformed(self, rng):
        doms = U.gen_doms(rng)
        n = len(doms)
        sp = rng.choice([[n], [0, 0], [n + 1, 0], [-1]])
        return dict(cls=self.name, doms=doms, spaces=sp, power=rng.choice([0, 1]), via="ContractionOperator", dtype="f")

    def build(self, case):
        ift = _ift()
        dom = U.build_domtuple(case["doms"])
        if case.get("via") == "IntegrationOperator":
            return ift.IntegrationOperator(dom, case["spaces"])
        return ift.ContractionOperator(dom, case["spaces"], case["power"])

    def line(self, case):
        return dict(cls=self.name, doms=_model_doms(case), spaces=case["spaces"], power=case["power"])

    def ref(self, case, x):
        doms = case["doms"]
        sp = _resolve_spaces(case["spaces"], len(doms))
        w = _weights(doms, sp, case["power"])
        return (x.reshape(_sizes(doms)) * w).sum(axis=tuple(sp)).reshape(-1)


@register("WeightApplier")
class _WeightApplier(Base):
    dtypes = "fc"

    def gen(self, rng, quick):
        doms = U.gen_doms(rng)
        return dict(cls=self.name, doms=doms, spaces=_gen_weighted_spaces(rng, doms), power=rng.choice([1, 2, -1, 0, -2]),
                    dtype=_pick_dtype(rng, "fc"))

    def malformed(self, rng):
        doms = U.gen_doms(rng)
        return dict(cls=self.name, doms=doms, spaces=[len(doms)], power=1, dtype="f")

    def build(self, case):
        from nifty.cl.operators.simple_linear_operators import WeightApplier
        return WeightApplier(U.build_domtuple(case["doms"]), case["spaces"], case["power"])

    def line(self, case):
        return dict(cls=self.name, doms=_model_doms(case), spaces=case["spaces"], power=case["power"])

    def ref(self, case, x):
        doms = case["doms"]
        w = _weights(doms, _resolve_spaces(case["spaces"], len(doms)), case["power"])
        return (x.reshape(_sizes(doms)) * w).reshape(-1)


@register("DOFDistributor")
class _DOF(Base):
    def gen(self, rng, quick):
        while True:
            doms = U.gen_doms(rng)
            cand = [i for i, d in enumerate(doms) if d["kind"] != "U"]    # the partner space needs a volume element
            if cand:
                break
        space = rng.choice(cand)
        n = U.sub_size(doms[space])
        nb = rng.randint(1, n)
        dofdex = list(range(nb)) + [rng.randrange(nb) for _ in range(n - nb)]
        rng.shuffle(dofdex)
        return dict(cls=self.name, doms=doms, space=space if (len(doms) > 1 or rng.random() < 0.5) else None,
                    dofdex=dofdex, dtype=_pick_dtype(rng, "fc"))

    def malformed(self, rng):
        c = self.gen(rng, True)
        r = rng.random()
        if r < 0.5:
            c["dofdex"] = [v + 1 if v == max(c["dofdex"]) else v for v in c["dofdex"]]   # leaves an empty bin
            if len(set(c["dofdex"])) == max(c["dofdex"]) + 1:
                c["dofdex"][0] = max(c["dofdex"]) + 2
        else:
            c["space"] = len(c["doms"])
        return c

    def build(self, case):
        ift = _ift()
        tgt = U.build_domtuple(case["doms"])
        sp = case["space"] if case["space"] is not None else 0
        if not (0 <= sp < len(tgt)):
            return ift.DOFDistributor(ift.makeField(tgt[0], np.zeros(tgt[0].shape, dtype=np.int64)), tgt, case["space"])
        dd = ift.makeField(tgt[sp], np.array(case["dofdex"], dtype=np.int64).reshape(tgt[sp].shape))
        return ift.DOFDistributor(dd, tgt, case["space"])

    def line(self, case):
        return dict(cls=self.name, doms=_model_doms(case), space=case["space"], dofdex=case["dofdex"])

    def extras(self, case, op):
        sp = case["space"] if case["space"] is not None else 0
        return {"wgt": [U.cq(v) for v in np.asarray(op.domain[sp].dvol).reshape(-1)]}

    def ref(self, case, x):
        doms = case["doms"]
        sizes = _sizes(doms)
        sp = case["space"] if case["space"] is not None else 0
        nb = max(case["dofdex"]) + 1
        pre = int(np.prod(sizes[:sp], dtype=int))
        post = int(np.prod(sizes[sp + 1:], dtype=int))
        return x.reshape(pre, nb, post)[:, np.array(case["dofdex"]), :].reshape(-1)


@register("PowerDistributor")
class _PowerDist(Base):
    def gen(self, rng, quick):
        while True:
            doms = U.gen_doms(rng, kinds=("RG", "U"))
            cand = [i for i, d in enumerate(doms) if d["kind"] == "RG"]
            if cand:
                break
        space = rng.choice(cand)
        doms[space]["harmonic"] = True
        doms[space] = U.sub_json(doms[space])
        return dict(cls=self.name, doms=doms, space=space if (len(doms) > 1 or rng.random() < 0.5) else None,
                    dtype=_pick_dtype(rng, "fc"))

    def malformed(self, rng):
        c = self.gen(rng, True)
        sp = c["space"] or 0
        c["doms"][sp]["harmonic"] = False
        return c

    def build(self, case):
        return _ift().PowerDistributor(U.build_domtuple(case["doms"]), None, case["space"])

    def line(self, case):
        ift = _ift()
        doms = _model_doms(case)
        sp = case["space"] if case["space"] is not None else 0
        if len(doms) != 1 and case["space"] is None:
            return dict(cls="DOFDistributor", doms=doms, space=None, dofdex=[])
        if not doms[sp].get("harmonic"):
            return dict(cls="Reject", kind="ValueError")
        ps = ift.PowerSpace(U.build_sub(case["doms"][sp]))
        return dict(cls="DOFDistributor", doms=doms, space=case["space"],
                    dofdex=[int(v) for v in np.asarray(ps.pindex).reshape(-1)])

    def drop_extras(self):
        return ["wgt"]


@register("MaskOperator")
class _Mask(Base):
    def gen(self, rng, quick):
        doms = U.gen_doms(rng)
        n = int(np.prod(_sizes(doms)))
        p = rng.choice([0.0, 0.3, 0.5, 0.8, 1.0])
        return dict(cls=self.name, doms=doms, flags=[rng.random() < p for _ in range(n)],
                    flagdtype=rng.choice(["bool", "int"]), dtype=_pick_dtype(rng))

    def build(self, case):
        ift = _ift()
        dom = U.build_domtuple(case["doms"])
        fl = np.array(case["flags"], dtype=bool if case["flagdtype"] == "bool" else np.int64).reshape(dom.shape)
        return ift.MaskOperator(ift.makeField(dom, fl))

    def line(self, case):
        return dict(cls=self.name, flags=case["flags"])

    def ref(self, case, x):
        return x[~np.array(case["flags"], dtype=bool)]


@register("ValueInserter")
class _ValueInserter(Base):
    def gen(self, rng, quick):
        doms = U.gen_doms(rng)
        sh = _fullshape(doms)
        return dict(cls=self.name, doms=doms, index=[rng.randrange(s) for s in sh], dtype=_pick_dtype(rng))

    def malformed(self, rng):
        c = self.gen(rng, True)
        r = rng.random()
        if r < 0.3:
            c["index"] = c["index"][:-1]
        elif r < 0.6:
            c["index"][0] = _fullshape(c["doms"])[0]
        elif r < 0.8:
            c["index"] = c["index"] + [0]
        else:
            c["index"][-1] = -1
        return c

    def build(self, case):
        return _ift().ValueInserter(U.build_domtuple(case["doms"]), case["index"])

    def line(self, case):
        return dict(cls=self.name, shape=_fullshape(_model_doms(case)), index=case["index"])

    def ref(self, case, x):
        sh = _fullshape(case["doms"])
        out = np.zeros(sh, dtype=x.dtype)
        out[tuple(case["index"])] = x[0]
        return out.reshape(-1)


@register("DomainTupleFieldInserter")
class _DTFI(Base):
    def gen(self, rng, quick):
        doms = U.gen_doms(rng)
        space = rng.randrange(len(doms))
        return dict(cls=self.name, doms=doms, space=space, index=[rng.randrange(s) for s in doms[space]["shape"]],
                    dtype=_pick_dtype(rng))

    def malformed(self, rng):
        c = self.gen(rng, True)
        r = rng.random()
        if r < 0.25:
            c["space"] = len(c["doms"]) + 1
        elif r < 0.5:
            c["index"] = c["index"] + [0]
        elif r < 0.75:
            c["index"][0] = c["doms"][c["space"]]["shape"][0]
        else:
            c["space"] = -1
        return c

    def build(self, case):
        return _ift().DomainTupleFieldInserter(U.build_domtuple(case["doms"]), case["space"], tuple(case["index"]))

    def line(self, case):
        return dict(cls=self.name, doms=_model_doms(case), space=case["space"], index=case["index"])

    def ref(self, case, x):
        doms = case["doms"]
        sh = _fullshape(doms)
        fst = sum(len(d["shape"]) for d in doms[:case["space"]])
        out = np.zeros(sh, dtype=x.dtype)
        rest = [s for i, d in enumerate(doms) if i != case["space"] for s in d["shape"]]
        out[(slice(None),) * fst + tuple(case["index"])] = x.reshape(rest)
        return out.reshape(-1)


@register("TransposeOperator")
class _Transpose(Base):
    def gen(self, rng, quick):
        doms = U.gen_doms(rng)
        perm = list(range(len(doms)))
        rng.shuffle(perm)
        return dict(cls=self.name, doms=doms, indices=perm, dtype=_pick_dtype(rng))

    def malformed(self, rng):
        c = self.gen(rng, True)
        r = rng.random()
        if r < 0.4:
            c["indices"] = c["indices"][:-1]
        elif r < 0.7:
            c["indices"] = c["indices"] + [0]
        else:
            c["indices"][0] = len(c["doms"])
        return c

    def build(self, case):
        return _ift().TransposeOperator(U.build_domtuple(case["doms"]), case["indices"])

    def line(self, case):
        return dict(cls=self.name, doms=_model_doms(case), indices=case["indices"])

    def ref(self, case, x):
        return np.transpose(x.reshape(_sizes(case["doms"])), case["indices"]).reshape(-1)


@register("SqueezeOperator")
class _Squeeze(Base):
    def gen(self, rng, quick):
        while True:
            doms = U.gen_doms(rng, kinds=("RG", "U", "DOF"))
            if rng.random() < 0.6:
                i = rng.randrange(len(doms))
                doms[i] = U.sub_json(dict(kind="U", shape=[1]) if rng.random() < 0.5 else
                                     dict(kind="RG", shape=[1], dist=[0.5], harmonic=False))
            if any(1 in d["shape"] for d in doms) or rng.random() < 0.1:
                break
        return dict(cls=self.name, doms=doms, aggressive=rng.random() < 0.5, dtype=_pick_dtype(rng))

    def build(self, case):
        return _ift().SqueezeOperator(U.build_domtuple(case["doms"]), aggressive=case["aggressive"])

    def line(self, case):
        return dict(cls=self.name, doms=_model_doms(case), aggressive=case["aggressive"])

    def ref(self, case, x):
        return x


@register("GeometryRemover")
class _GeoRem(Base):
    def gen(self, rng, quick):
        doms = U.gen_doms(rng)
        return dict(cls=self.name, doms=doms, space=rng.choice([None] + list(range(len(doms)))), dtype=_pick_dtype(rng))

    def build(self, case):
        return _ift().GeometryRemover(U.build_domtuple(case["doms"]), case["space"])

    def line(self, case):
        return dict(cls="Identity", n=int(np.prod(_sizes(_model_doms(case)))))

    def ref(self, case, x):
        return x


@register("DomainChangerAndReshaper")
class _Reshaper(Base):
    def gen(self, rng, quick):
        doms = U.gen_doms(rng)
        n = int(np.prod(_sizes(doms)))
        facs = [f for f in range(1, n + 1) if n % f == 0]
        a = rng.choice(facs)
        tdoms = [U.sub_json(dict(kind="U", shape=[a])), U.sub_json(dict(kind="U", shape=[n // a]))]
        if rng.random() < 0.3:
            tdoms = [U.sub_json(dict(kind="U", shape=[a, n // a]))]
        return dict(cls=self.name, doms=doms, tdoms=tdoms, dtype=_pick_dtype(rng))

    def malformed(self, rng):
        c = self.gen(rng, True)
        c["tdoms"] = c["tdoms"] + [U.sub_json(dict(kind="U", shape=[2]))]
        return c

    def build(self, case):
        return _ift().DomainChangerAndReshaper(U.build_domtuple(case["doms"]), U.build_domtuple(case["tdoms"]))

    def line(self, case):
        n = int(np.prod(_sizes(_model_doms(case))))
        m = int(np.prod(_sizes(_model_doms(case, "tdoms"))))
        if n != m:
            return dict(cls="Reject", kind="ValueError")
        return dict(cls="Identity", n=n)

    def ref(self, case, x):
        return x


def _gen_mdom(rng, nmin=1, nmax=3, maxsize=24):
    keys = rng.sample(["a", "b", "c", "ab", "B", "z1", "k"], rng.randint(nmin, nmax))
    return {k: U.gen_doms(rng, nmax=2, maxsize=maxsize // max(1, len(keys))) for k in keys}


def _build_mdom(md):
    ift = _ift()
    return ift.MultiDomain.make({k: U.build_domtuple(v) for k, v in md.items()})


def _mdom_sizes(md):
    return [[k, int(np.prod(_sizes([U.sub_json(d) for d in v])))] for k, v in md.items()]


@register("FieldAdapter")
class _FieldAdapter(Base):
    def gen(self, rng, quick):
        doms = U.gen_doms(rng)
        return dict(cls=self.name, doms=doms, name=rng.choice(["a", "xi", "K"]), multi_target=rng.random() < 0.5,
                    dtype=_pick_dtype(rng))

    def build(self, case):
        ift = _ift()
        dom = U.build_domtuple(case["doms"])
        if case["multi_target"]:
            return ift.FieldAdapter(ift.MultiDomain.make({case["name"]: dom}), case["name"])
        return ift.FieldAdapter(dom, case["name"])

    def line(self, case):
        return dict(cls="Identity", n=int(np.prod(_sizes(_model_doms(case)))))

    def ref(self, case, x):
        return x


@register("_SlowFieldAdapter")
class _SlowFA(Base):
    def gen(self, rng, quick):
        md = _gen_mdom(rng)
        return dict(cls=self.name, mdom=md, name=rng.choice(list(md.keys())), dtype=_pick_dtype(rng))

    def malformed(self, rng):
        c = self.gen(rng, True)
        c["name"] = "nokey"
        return c

    def build(self, case):
        from nifty.cl.operators.simple_linear_operators import _SlowFieldAdapter
        return _SlowFieldAdapter(_build_mdom(case["mdom"]), case["name"])

    def line(self, case):
        return dict(cls="BlockSelect", dom=_mdom_sizes(case["mdom"]), tgt=[[case["name"], case["name"]]])


@register("PartialExtractor")
class _PartialExtractor(Base):
    def gen(self, rng, quick):
        md = _gen_mdom(rng)
        ks = list(md.keys())
        return dict(cls=self.name, mdom=md, tkeys=rng.sample(ks, rng.randint(1, len(ks))), dtype=_pick_dtype(rng, "fc"))

    def build(self, case):
        ift = _ift()
        md = _build_mdom(case["mdom"])
        tgt = ift.MultiDomain.make({k: md[k] for k in case["tkeys"]})
        return ift.PartialExtractor(md, tgt)

    def line(self, case):
        return dict(cls="BlockSelect", dom=_mdom_sizes(case["mdom"]), tgt=[[k, k] for k in case["tkeys"]])


@register("PrependKey")
class _PrependKey(Base):
    def gen(self, rng, quick):
        return dict(cls=self.name, mdom=_gen_mdom(rng), pre=rng.choice(["p_", "", "Z", "a"]), dtype=_pick_dtype(rng))

    def build(self, case):
        return _ift().PrependKey(_build_mdom(case["mdom"]), case["pre"])

    def line(self, case):
        return dict(cls="BlockSelect", dom=_mdom_sizes(case["mdom"]), tgt=[[case["pre"] + k, k] for k in case["mdom"]])


@register("Multifield2Vector")
class _MF2V(Base):
    def gen(self, rng, quick):
        return dict(cls=self.name, mdom=_gen_mdom(rng), dtype=_pick_dtype(rng))

    def build(self, case):
        from nifty.cl.operators.multifield2vector import Multifield2Vector
        return Multifield2Vector(_build_mdom(case["mdom"]))

    def line(self, case):
        return dict(cls="Identity", n=sum(s for _, s in _mdom_sizes(case["mdom"])))

    def ref(self, case, x):
        return x


def _rand_vals(rng, n, cplx):
    if cplx:
        return [complex(rng.randint(-3, 3), rng.randint(-3, 3)) for _ in range(n)]
    return [float(rng.randint(-4, 4)) for _ in range(n)]


def _vals_json(vals):
    return [[v.real, v.imag] if isinstance(v, complex) else v for v in vals]


def _vals_np(js):
    if any(isinstance(v, list) for v in js):
        return np.array([complex(*v) if isinstance(v, list) else complex(v) for v in js], dtype=np.complex128)
    return np.array(js, dtype=np.float64)


def _vals_case(case, key):
    """operator-internal arrays (fields, matrices, diagonals) follow the precision of the case"""
    a = _vals_np(case[key]) if not isinstance(case[key], dict) else None
    if case.get("dtype") in ("F", "C"):
        a = a.astype(np.complex64 if np.iscomplexobj(a) else np.float32)
    return a


@register("OuterProduct")
class _Outer(Base):
    def gen(self, rng, quick):
        doms = U.gen_doms(rng, nmax=2, maxsize=12)
        fdoms = U.gen_doms(rng, nmax=2, maxsize=8)
        cplx = rng.random() < 0.4
        return dict(cls=self.name, doms=doms, fdoms=fdoms,
                    f=_vals_json(_rand_vals(rng, int(np.prod(_sizes(fdoms))), cplx)),
                    dtype=_pick_dtype(rng, "c") if cplx else _pick_dtype(rng))

    def build(self, case):
        ift = _ift()
        fd = U.build_domtuple(case["fdoms"])
        f = ift.makeField(fd, _vals_case(case, "f").reshape(fd.shape))
        return ift.OuterProduct(U.build_domtuple(case["doms"]), f)

    def line(self, case):
        return dict(cls=self.name, n=int(np.prod(_sizes(_model_doms(case)))), f=[U.cq(v) for v in _vals_np(case["f"])])

    def ref(self, case, x):
        return np.multiply.outer(_vals_np(case["f"]), x).reshape(-1)


@register("VdotOperator")
class _Vdot(Base):
    def gen(self, rng, quick):
        doms = U.gen_doms(rng, maxsize=24)
        cplx = rng.random() < 0.5
        return dict(cls=self.name, doms=doms, f=_vals_json(_rand_vals(rng, int(np.prod(_sizes(doms))), cplx)),
                    dtype=_pick_dtype(rng, "c") if cplx else _pick_dtype(rng, "fc"))

    def build(self, case):
        ift = _ift()
        d = U.build_domtuple(case["doms"])
        return ift.VdotOperator(ift.makeField(d, _vals_case(case, "f").reshape(d.shape)))

    def line(self, case):
        return dict(cls=self.name, f=[U.cq(v) for v in _vals_np(case["f"])])

    def ref(self, case, x):
        return np.array([np.sum(np.conj(_vals_np(case["f"])) * x)])


def _gen_rg_doms(rng, maxsize=40):
    """domain tuple that contains at least one RGSpace; returns (doms, index of an RG space)"""
    while True:
        doms = U.gen_doms(rng, maxsize=maxsize)
        cand = [i for i, d in enumerate(doms) if d["kind"] == "RG"]
        if cand:
            return doms, rng.choice(cand)


@register("FieldZeroPadder")
class _Padder(Base):
    def gen(self, rng, quick):
        doms, sp = _gen_rg_doms(rng, maxsize=24)
        ns = [s + rng.choice([0, 1, 1, 2, 3]) for s in doms[sp]["shape"]]
        return dict(cls=self.name, doms=doms, space=sp if (len(doms) > 1 or rng.random() < 0.5) else None,
                    new_shape=ns, central=rng.random() < 0.5, dtype=_pick_dtype(rng))

    def malformed(self, rng):
        c = self.gen(rng, True)
        r = rng.random()
        sp = c["space"] or 0
        if r < 0.4:
            c["new_shape"] = c["new_shape"] + [3]
        elif r < 0.8:
            c["new_shape"][0] = c["doms"][sp]["shape"][0] - 1
        else:
            c["doms"][sp] = U.sub_json(dict(kind="U", shape=c["doms"][sp]["shape"]))
        return c

    def build(self, case):
        return _ift().FieldZeroPadder(U.build_domtuple(case["doms"]), tuple(case["new_shape"]), case["space"], case["central"])

    def line(self, case):
        doms = _model_doms(case)
        sp = case["space"] if case["space"] is not None else 0
        if 0 <= sp < len(doms) and doms[sp]["kind"] != "RG" and not (case["space"] is None and len(doms) != 1):
            return dict(cls="Reject", kind="TypeError")
        return dict(cls=self.name, doms=doms, space=case["space"], new_shape=case["new_shape"], central=case["central"])

    def ref(self, case, x):
        """documented: plain = zeros appended at the end of each axis; central = zeros inserted in the middle, the
        first n//2+1 entries stay at the front, the last n//2 go to the end (Nyquist entry of an even axis appears twice)"""
        doms = case["doms"]
        sp = case["space"] if case["space"] is not None else 0
        a0 = sum(len(d["shape"]) for d in doms[:sp])
        v = x.reshape(_fullshape(doms))
        for k, N in enumerate(case["new_shape"]):
            ax = a0 + k
            n = v.shape[ax]
            if n == N:
                continue
            v = np.moveaxis(v, ax, 0)
            new = np.zeros((N,) + v.shape[1:], dtype=v.dtype)
            if case["central"]:
                ny = n // 2
                new[:ny + 1] = v[:ny + 1]
                if ny > 0:
                    new[N - ny:] = v[n - ny:]
            else:
                new[:n] = v
            v = np.moveaxis(new, 0, ax)
        return v.reshape(-1)


@register("RegriddingOperator")
class _Regrid(Base):
    dtypes = "fc"

    def gen(self, rng, quick):
        doms, sp = _gen_rg_doms(rng, maxsize=32)           # axes of length 1 included (finding regrid_unit_axis)
        doms[sp]["harmonic"] = False
        doms[sp] = U.sub_json(doms[sp])
        ns = []
        for s in doms[sp]["shape"]:
            ns.append(rng.choice([v for v in (1, 2, 4, s) if v <= s]))
        return dict(cls=self.name, doms=doms, space=sp if (len(doms) > 1 or rng.random() < 0.5) else None,
                    new_shape=ns, dtype=_pick_dtype(rng, "fc"))

    def malformed(self, rng):
        c = self.gen(rng, True)
        r = rng.random()
        if r < 0.3:
            c["new_shape"] = c["new_shape"] + [1]
        elif r < 0.6:
            c["new_shape"][0] = c["doms"][c["space"] or 0]["shape"][0] + 1
        else:
            c["new_shape"][-1] = 0
        return c

    def build(self, case):
        return _ift().RegriddingOperator(U.build_domtuple(case["doms"]), tuple(case["new_shape"]), case["space"])

    def line(self, case):
        return dict(cls=self.name, doms=_model_doms(case), space=case["space"], new_shape=case["new_shape"])

    def ref(self, case, x):
        """documented: linear interpolation of the old grid values at positions j * n/N (in old pixel units),
        constant... base index clamped so that the last interval is extrapolated"""
        doms = case["doms"]
        sp = case["space"] if case["space"] is not None else 0
        a0 = sum(len(d["shape"]) for d in doms[:sp])
        v = x.reshape(_fullshape(doms))
        for k, N in enumerate(case["new_shape"]):
            ax = a0 + k
            n = v.shape[ax]
            v = np.moveaxis(v, ax, 0)
            new = np.zeros((N,) + v.shape[1:], dtype=np.result_type(v.dtype, np.float64))
            for j in range(N):
                pos = j * n / N
                b = max(0, min(n - 2, int(np.floor(pos))))
                t = pos - b
                new[j] = v[b] * (1 - t) + v[min(b + 1, n - 1)] * t
            v = np.moveaxis(new, 0, ax)
        return v.reshape(-1)


@register("SliceOperator")
class _Slice(Base):
    def gen(self, rng, quick):
        doms = U.gen_doms(rng, kinds=("RG", "U"), maxsize=40)
        ns = []
        for d in doms:
            r = rng.random()
            if r < 0.25:
                ns.append(None)
            else:
                ns.append([rng.randint(1, s) for s in d["shape"]])
        return dict(cls=self.name, doms=doms, new_shape=ns, center=rng.random() < 0.5, dtype=_pick_dtype(rng))

    def malformed(self, rng):
        c = self.gen(rng, True)
        r = rng.random()
        if r < 0.4:
            c["new_shape"] = c["new_shape"] + [None]
        else:
            c["new_shape"][0] = [s + 1 for s in c["doms"][0]["shape"]]
        return c

    def build(self, case):
        from nifty.cl.operators.selection_operators import SliceOperator
        ns = [None if v is None else (tuple(v) if len(v) > 1 or case.get("tupleform", True) else v[0]) for v in case["new_shape"]]
        return SliceOperator(U.build_domtuple(case["doms"]), ns, center=case["center"])

    def line(self, case):
        return dict(cls=self.name, doms=_model_doms(case), new_shape=case["new_shape"], center=case["center"])

    def ref(self, case, x):
        doms = case["doms"]
        v = x.reshape(_fullshape(doms))
        slc = []
        for d, ns in zip(doms, case["new_shape"]):
            for j, s in enumerate(d["shape"]):
                npix = s if ns is None else ns[j]
                st = (s - npix) // 2 if case["center"] else 0
                slc.append(slice(st, st + npix))
        return v[tuple(slc)].reshape(-1)


@register("SplitOperator")
class _Split(Base):
    def gen(self, rng, quick):
        nd = rng.choice([1, 1, 2, 3])
        sizes = [rng.randint(1, 5) for _ in range(nd)]
        keys = rng.sample(["a", "b", "c", "d0"], rng.randint(1, 3))
        slices = {}
        for k in keys:
            specs = []
            adv = False
            for n in sizes[:rng.randint(1, nd)]:
                r = rng.random()
                if r < 0.2:
                    specs.append(None)
                elif r < 0.6:
                    start = rng.choice([None, 0, rng.randrange(n)])
                    stop = rng.choice([None, n, rng.randint((start or 0), n)])
                    step = rng.choice([None, 1, 2, 2, 3])
                    specs.append({"slice": [start, stop, step]})
                elif r < 0.75 and not adv:
                    adv = True
                    specs.append({"idx": rng.sample(range(n), rng.randint(1, n))})   # documented: no repeats inside one key
                elif r < 0.9 and not adv:
                    adv = True
                    specs.append({"mask": [rng.random() < 0.5 for _ in range(n)]})
                else:
                    specs.append(None)
            slices[k] = specs
        return dict(cls=self.name, sizes=sizes, slices=slices, dtype=_pick_dtype(rng))

    @staticmethod
    def _py(spec):
        if spec is None:
            return None
        if "slice" in spec:
            return slice(*spec["slice"])
        if "idx" in spec:
            return list(spec["idx"])
        if "mask" in spec:
            return np.array(spec["mask"], dtype=bool)
        return int(spec["int"])

    def build(self, case):
        ift = _ift()
        from nifty.cl.operators.selection_operators import SplitOperator
        dom = ift.DomainTuple.make(tuple(ift.UnstructuredDomain(n) for n in case["sizes"]))
        return SplitOperator(dom, {k: tuple(self._py(s) for s in v) for k, v in case["slices"].items()})

    def line(self, case):
        return dict(cls=self.name, sizes=case["sizes"], slices=[[k, v] for k, v in case["slices"].items()])

    def extras(self, case, op):
        return {"tsizes": [int(op.target[k].size) for k in op.target.keys()]}

    def ref(self, case, x):
        v = x.reshape(case["sizes"])
        parts = []
        for k in sorted(case["slices"]):
            idx = tuple(slice(None) if s is None else self._py(s) for s in case["slices"][k])
            parts.append(v[idx].reshape(-1))
        return np.concatenate(parts)


@register("ExtractAtIndices")
class _ExtractAt(Base):
    def gen(self, rng, quick):
        doms = U.gen_doms(rng, maxsize=32)
        sp = rng.randrange(len(doms))
        L = rng.randint(1, 4)
        idx = [[rng.randrange(s) for _ in range(L)] for s in doms[sp]["shape"]]
        return dict(cls=self.name, doms=doms, space=sp, indices=idx, dtype=_pick_dtype(rng, "fc"))

    def build(self, case):
        return _ift().ExtractAtIndices(U.build_domtuple(case["doms"]),
                                       tuple(tuple(i) for i in case["indices"]), case["space"])   # documented: tuples

    def line(self, case):
        return dict(cls=self.name, doms=_model_doms(case), space=case["space"], indices=case["indices"])

    def ref(self, case, x):
        doms = case["doms"]
        a0 = sum(len(d["shape"]) for d in doms[:case["space"]])
        v = x.reshape(_fullshape(doms))
        return v[(slice(None),) * a0 + tuple(np.array(i) for i in case["indices"])].reshape(-1)


@register("FFTShiftOperator")
class _FFTShift(Base):
    def gen(self, rng, quick):
        doms = U.gen_doms(rng, kinds=("RG",), maxsize=40)
        return dict(cls=self.name, doms=doms, spaces=_gen_spaces(rng, len(doms)) if rng.random() < 0.8 else None,
                    dtype=_pick_dtype(rng))

    def build(self, case):
        sp = case["spaces"]
        if isinstance(sp, list):
            if len(sp) == 0:
                raise _Skip()
            sp = tuple(sp)
        return _ift().FFTShiftOperator(U.build_domtuple(case["doms"]), sp)

    def line(self, case):
        return dict(cls=self.name, doms=_model_doms(case), spaces=case["spaces"])

    def ref(self, case, x):
        doms = case["doms"]
        sp = _resolve_spaces(case["spaces"], len(doms))
        axes = []
        off = 0
        for i, d in enumerate(doms):
            if i in sp:
                axes += list(range(off, off + len(d["shape"])))
            off += len(d["shape"])
        return np.fft.fftshift(x.reshape(_fullshape(doms)), axes=tuple(axes)).reshape(-1)


class _Skip(Exception):
    pass


@register("MatrixProductOperator")
class _MatProd(Base):
    dtypes = "fc"

    def gen(self, rng, quick):
        cplx = rng.random() < 0.4
        mode = rng.choice(["flat1d", "flatten", "spaces", "anyspaces", "anyspaces"])
        if mode == "anyspaces":
            while True:
                doms = U.gen_doms(rng, maxsize=36)
                k = rng.randint(1, len(doms))
                sp = rng.sample(range(len(doms)), k)          # any subset, any order (non-contiguous included)
                n = int(np.prod([U.sub_size(doms[i]) for i in sp]))
                if n <= 8 and not (len(doms) == 1 and len(doms[0]["shape"]) == 1):
                    break
            m = _rand_vals(rng, n * n, cplx)
            return dict(cls=self.name, doms=doms, spaces=sp, flatten=False, blk=None, m=_vals_json(m),
                        dtype=_pick_dtype(rng, "c") if cplx else _pick_dtype(rng, "fc"))
        if mode == "flat1d":
            doms = [U.sub_json(U.gen_sub(rng, maxdim=1))]
            doms[0] = U.sub_json(dict(kind="U", shape=[rng.randint(1, 5)]))
            spaces, flatten, blk = rng.choice([None, [0]]), False, [0]
        elif mode == "flatten":
            doms = U.gen_doms(rng, maxsize=16)
            spaces, flatten, blk = None, True, list(range(len(doms)))
        else:
            doms = U.gen_doms(rng, maxsize=36)
            a = rng.randrange(len(doms))
            b = rng.randint(a, len(doms) - 1)
            blk = list(range(a, b + 1))
            if int(np.prod([U.sub_size(doms[i]) for i in blk])) > 9:
                blk = [a]
            spaces, flatten = blk, False
        n = int(np.prod([U.sub_size(doms[i]) for i in blk]))
        m = _rand_vals(rng, n * n, cplx)
        return dict(cls=self.name, doms=doms, spaces=spaces, flatten=flatten, blk=blk, m=_vals_json(m),
                    dtype=_pick_dtype(rng, "c") if cplx else _pick_dtype(rng, "fc"))

    def build(self, case):
        doms = case["doms"]
        blk = case["blk"] if case["blk"] is not None else case["spaces"]
        if case["flatten"] or case["spaces"] is None and len(doms) == 1 and len(doms[0]["shape"]) == 1:
            n = int(np.prod([U.sub_size(doms[i]) for i in blk]))
            mshape = (n, n)
        else:
            shp = [s for i in blk for s in doms[i]["shape"]]
            mshape = tuple(shp) + tuple(shp)
        mat = _vals_case(case, "m").reshape(mshape)
        sp = tuple(case["spaces"]) if case["spaces"] is not None else None
        return _ift().MatrixProductOperator(U.build_domtuple(doms), mat, spaces=sp, flatten=case["flatten"])

    def line(self, case):
        doms = _model_doms(case)
        sizes = _sizes(doms)
        blk = case["blk"]
        if blk is None:
            return dict(cls="MatrixProductSpaces", sizes=sizes, spaces=case["spaces"], m=[U.cq(v) for v in _vals_np(case["m"])])
        pre = int(np.prod(sizes[:blk[0]], dtype=int))
        post = int(np.prod(sizes[blk[-1] + 1:], dtype=int))
        n = int(np.prod([sizes[i] for i in blk], dtype=int))
        return dict(cls=self.name, pre=pre, n=n, post=post, m=[U.cq(v) for v in _vals_np(case["m"])])

    def ref(self, case, x):
        sizes = _sizes(case["doms"])
        blk = case["blk"]
        if blk is None:
            sp = case["spaces"]
            n = int(np.prod([sizes[i] for i in sp], dtype=int))
            m = _vals_np(case["m"]).reshape([sizes[i] for i in sp] * 2)
            L = "abcdefg"[:len(sizes)]
            out_l = "".join(L[i].upper() if i in sp else L[i] for i in range(len(sizes)))
            msub = "".join(L[i].upper() for i in sp) + "".join(L[i] for i in sp)
            return np.einsum(msub + "," + L + "->" + out_l, m, x.reshape(sizes)).reshape(-1)
        pre = int(np.prod(sizes[:blk[0]], dtype=int))
        post = int(np.prod(sizes[blk[-1] + 1:], dtype=int))
        n = int(np.prod([sizes[i] for i in blk], dtype=int))
        m = _vals_np(case["m"]).reshape(n, n)
        return np.einsum("ij,ajb->aib", m, x.reshape(pre, n, post)).reshape(-1)


class _RealLinear(Base):
    doubled = True
    dtypes = "c"

    def gen(self, rng, quick):
        return dict(cls=self.name, doms=U.gen_doms(rng, maxsize=16), dtype=_pick_dtype(rng, "c"))

    def line(self, case):
        return dict(cls=self.name, n=int(np.prod(_sizes(_model_doms(case)))))


@register("ConjugationOperator")
class _Conj(_RealLinear):
    def build(self, case):
        return _ift().ConjugationOperator(U.build_domtuple(case["doms"]))

    def ref(self, case, x):
        return np.conj(x)


@register("Realizer")
class _Realizer(_RealLinear):
    def build(self, case):
        return _ift().Realizer(U.build_domtuple(case["doms"]))

    def ref(self, case, x):
        return x.real.astype(np.complex128)


@register("Imaginizer")
class _Imaginizer(_RealLinear):
    real_only_input = {2: True}

    def build(self, case):
        return _ift().Imaginizer(U.build_domtuple(case["doms"]))

    def ref(self, case, x):
        return x.imag.astype(np.complex128)


@register("PartialConjugate")
class _PartialConj(_RealLinear):
    def gen(self, rng, quick):
        md = _gen_mdom(rng, maxsize=16)
        ks = list(md.keys())
        return dict(cls=self.name, mdom=md, keys=rng.sample(ks, rng.randint(0, len(ks))), dtype=_pick_dtype(rng, "c"))

    def malformed(self, rng):
        c = self.gen(rng, True)
        c["keys"] = c["keys"] + ["nokey"]
        return c

    def build(self, case):
        from nifty.cl.operators.partial_conjugate import PartialConjugate
        return PartialConjugate(_build_mdom(case["mdom"]), list(case["keys"]))

    def line(self, case):
        sz = sorted(_mdom_sizes(case["mdom"]))
        if any(k not in case["mdom"] for k in case["keys"]):
            return dict(cls="Reject", kind="ValueError")
        rg, off = [], 0
        for k, n in sz:
            if k in case["keys"]:
                rg.append([off, off + n])
            off += n
        return dict(cls=self.name, n=off, ranges=rg)

    def ref(self, case, x):
        sz = sorted(_mdom_sizes(case["mdom"]))
        out, off = x.copy(), 0
        for k, n in sz:
            if k in case["keys"]:
                out[off:off + n] = np.conj(out[off:off + n])
            off += n
        return out


@register("NullOperator")
class _Null(Base):
    dtypes = "fc"

    def gen(self, rng, quick):
        return dict(cls=self.name, doms=U.gen_doms(rng, maxsize=12), tdoms=U.gen_doms(rng, maxsize=12), dtype=_pick_dtype(rng, "fc"))

    def build(self, case):
        return _ift().NullOperator(U.build_domtuple(case["doms"]), U.build_domtuple(case["tdoms"]))

    def line(self, case):
        return dict(cls=self.name, cols=int(np.prod(_sizes(_model_doms(case)))),
                    rows=int(np.prod(_sizes(_model_doms(case, "tdoms")))))

    def ref(self, case, x):
        return np.zeros(int(np.prod(_sizes(case["tdoms"]))), dtype=x.dtype)


@register("LinearEinsum")
class _Einsum(Base):
    dtypes = "fc"

    def gen(self, rng, quick):
        pool = "ijkl"
        nlet = rng.randint(1, 3)
        letters = list(pool[:nlet])
        sub = {}
        for c in letters:                     # one sub-domain per letter (may have two axes)
            if rng.random() < 0.25:
                sub[c] = U.sub_json(dict(kind="U", shape=[rng.randint(1, 2), rng.randint(1, 2)]))
            elif rng.random() < 0.5:
                sub[c] = U.sub_json(dict(kind="RG", shape=[rng.randint(1, 3)], dist=[rng.choice([0.5, 1.0])], harmonic=False))
            else:
                sub[c] = U.sub_json(dict(kind="U", shape=[rng.randint(1, 3)]))
        nops = rng.randint(1, 2)
        keys = rng.sample(["a", "b", "m"], nops)
        cplx = rng.random() < 0.4
        ops = {}
        for k in keys:
            ls = [rng.choice(letters) for _ in range(rng.randint(1, 2))]
            if len(set(ls)) < len(ls):
                ls = ls[:1]
            n = int(np.prod([U.sub_size(sub[c]) for c in ls]))
            ops[k] = dict(sub="".join(ls), data=_vals_json(_rand_vals(rng, n, cplx)))
        xs = rng.sample(letters, rng.randint(1, len(letters)))
        present = sorted(set("".join(o["sub"] for o in ops.values())) | set(xs))
        out = rng.sample(present, rng.randint(0, len(present)))
        return dict(cls=self.name, letters={c: sub[c] for c in letters}, ops=ops, xsub="".join(xs), out="".join(out),
                    explicit_order=rng.random() < 0.5, dtype=_pick_dtype(rng, "c") if cplx else _pick_dtype(rng, "fc"))

    def malformed(self, rng):
        c = self.gen(rng, True)
        c["out"] = c["out"] + "z"
        return c

    def _subscripts(self, case):
        keys = sorted(case["ops"])
        return ",".join([case["ops"][k]["sub"] for k in keys] + [case["xsub"]]) + "->" + case["out"], keys

    def build(self, case):
        ift = _ift()
        sscr, keys = self._subscripts(case)
        L = case["letters"]
        mf = {}
        for k in keys:
            o = case["ops"][k]
            d = ift.DomainTuple.make(tuple(U.build_sub(L[c]) for c in o["sub"]))
            arr = _vals_np(o["data"])
            if case.get("dtype") in ("F", "C"):
                arr = arr.astype(np.complex64 if np.iscomplexobj(arr) else np.float32)
            mf[k] = ift.makeField(d, arr.reshape(d.shape))
        mf = ift.MultiField.from_dict(mf)
        dom = ift.DomainTuple.make(tuple(U.build_sub(L[c]) for c in case["xsub"]))
        return ift.LinearEinsum(dom, mf, sscr, key_order=tuple(keys) if case["explicit_order"] else None)

    def line(self, case):
        sscr, keys = self._subscripts(case)
        return dict(cls=self.name, sizes=[[c, U.sub_size(U.sub_json(d))] for c, d in case["letters"].items()],
                    subs=[[case["ops"][k]["sub"], [U.cq(v) for v in _vals_np(case["ops"][k]["data"])]] for k in keys],
                    xsub=case["xsub"], out=case["out"])

    def ref(self, case, x):
        sscr, keys = self._subscripts(case)
        sz = {c: U.sub_size(d) for c, d in case["letters"].items()}
        arrs = [_vals_np(case["ops"][k]["data"]).reshape([sz[c] for c in case["ops"][k]["sub"]]) for k in keys]
        return np.einsum(sscr, *arrs, x.reshape([sz[c] for c in case["xsub"]])).reshape(-1)


_DIAGVALS = [1.0, 2.0, -1.0, 0.5, 4.0, -2.0, 0.25]
_DIAGVALS_C = [1j, -1j, 1 + 1j, 1 - 1j, 2j, -1 + 1j, 0.5 + 0.5j]   # Gaussian numbers with an exact dyadic inverse


@register("DiagonalOperator")
class _Diagonal(Base):
    dtypes = "fc"

    def gen(self, rng, quick):
        doms = U.gen_doms(rng, maxsize=36)
        n = len(doms)
        r = rng.random()
        if r < 0.3:
            spaces = None
            sp = list(range(n))
        else:
            k = rng.randint(1, n)
            sp = rng.sample(range(n), k)           # any order: the constructor pairs diagonal.domain[i] with domain[spaces[i]]
            if rng.random() < 0.5:
                sp = sorted(sp)
            spaces = sp[0] if (len(sp) == 1 and rng.random() < 0.4) else sp
        cplx = rng.random() < 0.4
        m = int(np.prod([U.sub_size(doms[s]) for s in sp]))
        vals = [rng.choice(_DIAGVALS_C if (cplx and rng.random() < 0.7) else _DIAGVALS) for _ in range(m)]
        return dict(cls=self.name, doms=doms, spaces=spaces, d=_vals_json([complex(v) if cplx else v for v in vals]),
                    dtype=_pick_dtype(rng, "c") if cplx else _pick_dtype(rng, "fc"))

    def malformed(self, rng):
        c = self.gen(rng, True)
        c["spaces"] = [len(c["doms"])]
        return c

    def _sp(self, case):
        return _resolve_spaces(case["spaces"], len(case["doms"]))

    def build(self, case):
        ift = _ift()
        dom = U.build_domtuple(case["doms"])
        sp = self._sp(case)
        if any(not (0 <= s < len(dom)) for s in sp):
            dd = ift.DomainTuple.make(dom[0])
            return ift.DiagonalOperator(ift.full(dd, 1.), dom, case["spaces"])
        dd = ift.DomainTuple.make(tuple(dom[s] for s in sp))
        diag = ift.makeField(dd, _vals_case(case, "d").reshape(dd.shape))
        spaces = case["spaces"]
        if isinstance(spaces, list):
            spaces = tuple(spaces)
        return ift.DiagonalOperator(diag, dom, spaces)

    def line(self, case):
        doms = _model_doms(case)
        d = _vals_np(case["d"])
        sp = self._sp(case)
        return dict(cls=self.name, doms=doms, spaces=case["spaces"],
                    dsizes=[U.sub_size(doms[s]) for s in sp if 0 <= s < len(doms)],
                    d=[U.cq(v) for v in d], dinv=[U.cq(1 / v) for v in d])

    def ref(self, case, x):
        doms = case["doms"]
        sizes = _sizes(doms)
        sp = self._sp(case)
        d = _vals_np(case["d"]).reshape([sizes[s] for s in sp])
        # documented: pixel-wise product, the diagonal's i-th sub-domain lives on domain[spaces[i]]
        letters = "abcdefg"
        full = letters[:len(sizes)]
        return np.einsum("".join(full[s] for s in sp) + "," + full + "->" + full, d, x.reshape(sizes)).reshape(-1)


@register("ScalingOperator")
class _Scaling(Base):
    dtypes = "fc"

    def gen(self, rng, quick):
        cplx = rng.random() < 0.4
        f = rng.choice(_DIAGVALS_C) if cplx else rng.choice(_DIAGVALS)
        return dict(cls=self.name, doms=U.gen_doms(rng, maxsize=24), f=[f.real, f.imag] if cplx else f,
                    dtype=_pick_dtype(rng, "c") if cplx else _pick_dtype(rng, "fc"))

    def _f(self, case):
        f = case["f"]
        return complex(*f) if isinstance(f, list) else float(f)

    def build(self, case):
        return _ift().ScalingOperator(U.build_domtuple(case["doms"]), self._f(case))

    def line(self, case):
        f = self._f(case)
        return dict(cls=self.name, n=int(np.prod(_sizes(_model_doms(case)))), f=U.cq(f), finv=U.cq(1 / f))

    def ref(self, case, x):
        return self._f(case) * x
