"""C11 round 2 — complex models in front of the likelihood energies.

A `cmodel` wrapper  {"k":"cmodel","e":<inner spec>,"ops":{key|"": [op, ...]}}  composes the inner energy (built on the
*target* domain of the chains) with one operator chain per input key; ops are applied first-to-last.  Every field has n
pixels; a chain only changes the field type (R = real, C = complex) and, on RGSpaces, position <-> harmonic space.

op specs (typing  in -> out):
  {"o":"cscal","g":[re,im]}        ScalingOperator, complex / pure imaginary / negative real factor   T->T (im != 0 needs C)
  {"o":"cdiag","v":[[re],[im]]}    DiagonalOperator with a complex diagonal                            C->C
  {"o":"cmat","A":[[..]],"B":[[..]]}  dense complex matrix A+iB (MatrixProductOperator on the flattened field)  C->C
  {"o":"conj"}                      ConjugationOperator (anti-linear, real-linear)                      C->C
  {"o":"cfy"}                       Realizer.adjoint  (the "complexifier")                               R->C
  {"o":"real"} / {"o":"imag"}      Realizer / Imaginizer                                               C->R
  {"o":"ptw","f":"exp|sinh|cos|sqr"}  point-wise holomorphic non-linearity                              C->C
  {"o":"f","spec":fspec}            the real point-wise / scaling / diagonal functions of round 1       R->R
  {"o":"ft","kind":"fft"}           FFTOperator(pos)                      C, pos  -> C, harm
  {"o":"ft","kind":"ifft"|"fftadj"} FFTOperator(pos).inverse / .adjoint   C, harm -> C, pos
  {"o":"ft","kind":"hartley"}       HartleyOperator(pos)                  T, pos  -> T, harm
  {"o":"ft","kind":"hartley_back"}  HartleyOperator(harm)                 T, harm -> T, pos
  {"o":"ft","kind":"harmonic"}      HarmonicTransformOperator(harm, pos)  T, harm -> T, pos

This file holds (a) the typing, (b) the *definition side*: an independent NumPy implementation of every op with its
analytic real Jacobian (real coordinates: real block, imaginary block), (c) the builder of the real NIFTy operators,
(d) the generators.
"""
import numpy as np

LINEAR = ("cscal", "cdiag", "cmat", "conj", "cfy", "real", "imag", "ft")
HOLO = {
    "exp": (np.exp, np.exp),
    "sinh": (np.sinh, np.cosh),
    "cos": (np.cos, lambda z: -np.sin(z)),
    "sqr": (lambda z: z * z, lambda z: 2 * z),
}


# ------------------------------------------------------------------------------------------------
# typing
def op_type(op, cplx, harm, rg):
    """(cplx, harm) after the op, None if the op is not applicable to a field of this type"""
    o = op["o"]
    if o == "cscal":
        if op["g"][1] != 0 and not cplx:
            return None
        return cplx, harm
    if o in ("cdiag", "cmat", "conj", "ptw"):
        return (cplx, harm) if cplx else None
    if o == "cfy":
        return (True, harm) if not cplx else None
    if o in ("real", "imag"):
        return (False, harm) if cplx else None
    if o == "f":
        return (False, harm) if not cplx else None
    if o == "ft":
        kd = op["kind"]
        if not rg:
            return None
        if kd == "fft":
            return (True, True) if (cplx and not harm) else None
        if kd in ("ifft", "fftadj"):
            return (True, False) if (cplx and harm) else None
        if kd == "hartley":
            return (cplx, True) if not harm else None
        if kd in ("hartley_back", "harmonic"):
            return (cplx, False) if harm else None
    return None


def chain_type(ops, cplx, rg):
    harm = False
    for op in ops:
        t = op_type(op, cplx, harm, rg)
        if t is None:
            return None
        cplx, harm = t
    return cplx, harm


def dtype_complex(ops, cin):
    """does the field really carry a complex dtype after the chain?  (Realizer.adjoint leaves a real array real; the
    Imaginizer rejects real arrays — a NIFTy convention, so `imag` is only generated where the dtype is complex)"""
    dc = cin
    for op in ops:
        o = op["o"]
        if (o == "cscal" and op["g"][1] != 0) or o in ("cdiag", "cmat") or (o == "ft" and op["kind"] in ("fft", "ifft", "fftadj")):
            dc = True
        elif o in ("real", "imag"):
            dc = False
    return dc


def chain_ok(ops, cin, rg):
    """well-typed, and every Imaginizer sees a complex dtype; -> (cplx, harm) | None"""
    t = chain_type(ops, cin, rg)
    if t is None:
        return None
    for j, op in enumerate(ops):
        if op["o"] == "imag" and not dtype_complex(ops[:j], cin):
            return None
    return t


def is_linear(ops):
    return all(op["o"] in LINEAR or (op["o"] == "f" and op["spec"]["f"] in ("id", "scal", "diag")) for op in ops)


# ------------------------------------------------------------------------------------------------
# definition side (NumPy only)
def hartley_sign():
    """documented convention switch of nifty.config: non_canonical_hartley = Re + Im, canonical = Re - Im"""
    try:
        from nifty.config import _config
        return 1.0 if _config.get("hartley_convention") == "non_canonical_hartley" else -1.0
    except Exception:    # pragma: no cover
        return 1.0


def c2r(A):
    """real-coordinate matrix of the complex-linear map A"""
    A = np.asarray(A, dtype=complex)
    return np.block([[A.real, -A.imag], [A.imag, A.real]])


_FFT = {}


def fft_matrix(shape):
    shape = tuple(shape)
    if shape not in _FFT:
        n = int(np.prod(shape))
        cols = []
        for j in range(n):
            e = np.zeros(n)
            e[j] = 1.
            cols.append(np.fft.fftn(e.reshape(shape)).ravel())
        _FFT[shape] = np.array(cols).T
    return _FFT[shape]


def dvols(dom):
    d = float(np.prod(dom["dist"]))
    dh = float(np.prod([1.0 / (s * dd) for s, dd in zip(dom["shape"], dom["dist"])]))
    return d, dh


def ft_matrix(kind, dom):
    """FFTOperator: documented as  dvol(domain) * fftn  from position space; inverse / adjoint follow mathematically.
    Hartley-type: dvol(domain) * (Re fftn +- Im fftn)."""
    d, dh = dvols(dom)
    F = fft_matrix(dom["shape"])
    s = hartley_sign()
    if kind == "fft":
        return d * F
    if kind == "ifft":
        return np.linalg.inv(d * F)
    if kind == "fftadj":
        return (d * F).conj().T
    if kind == "hartley":
        return d * (F.real + s * F.imag)
    if kind in ("hartley_back", "harmonic"):
        return dh * (F.real + s * F.imag)
    raise ValueError(kind)


def ref_op(op, z, cplx, dom):
    """-> (value, real Jacobian (m_out x m_in))"""
    from ._c11_ref import f_val_der
    n = len(z)
    o = op["o"]
    I, Z = np.eye(n), np.zeros((n, n))
    if o == "cscal":
        g = complex(*op["g"])
        if g.imag == 0:
            return g.real * z, g.real * np.eye(2 * n if cplx else n)
        return g * z, c2r(g * I)
    if o == "cdiag":
        v = np.array(op["v"][0], float) + 1j * np.array(op["v"][1], float)
        return v * z, c2r(np.diag(v))
    if o == "cmat":
        A = np.array(op["A"], float) + 1j * np.array(op["B"], float)
        return A @ z, c2r(A)
    if o == "conj":
        return np.conj(z), np.block([[I, Z], [Z, -I]])
    if o == "cfy":
        return z.astype(complex), np.vstack([I, Z])
    if o == "real":
        return np.real(z).copy(), np.hstack([I, Z])
    if o == "imag":
        return np.imag(z).copy(), np.hstack([Z, I])
    if o == "ptw":
        f, df = HOLO[op["f"]]
        return f(z), c2r(np.diag(df(z)))
    if o == "f":
        v, d = f_val_der(op["spec"], np.asarray(z, float))
        return v, np.diag(d)
    if o == "ft":
        A = ft_matrix(op["kind"], dom)
        w = A @ z
        if cplx:
            return w, c2r(A)
        return np.real(w), np.real(A)
    raise ValueError(o)


def to_field(block, cplx):
    b = np.asarray(block, float)
    if cplx:
        n = len(b) // 2
        return b[:n] + 1j * b[n:]
    return b


def to_flat(z, cplx):
    if cplx:
        return np.concatenate([np.real(z), np.imag(z)]).astype(float)
    return np.asarray(np.real(z), float)


def chain_ref(ops, block, cplx, dom):
    """block: real coordinates of the chain input.  -> (flat real output, real Jacobian, cplx_out, info)
    info = (max |intermediate|, max |argument of a point-wise nonlinearity|)"""
    z = to_field(block, cplx)
    J = np.eye(len(block))
    mx, mxarg = float(np.max(np.abs(z))) if len(z) else 0., 0.
    harm = False
    for op in ops:
        if op["o"] == "ptw" or (op["o"] == "f" and op["spec"]["f"] not in ("id", "scal", "diag")):
            mxarg = max(mxarg, float(np.max(np.abs(z))))
        z, Jo = ref_op(op, z, cplx, dom)
        cplx, harm = op_type(op, cplx, harm, True)
        J = Jo @ J
        mx = max(mx, float(np.max(np.abs(z))))
    return to_flat(z, cplx), J, cplx, (mx, mxarg)


# ------------------------------------------------------------------------------------------------
# the real operators
def build_op(op, cur, posdom, harmdom):
    from . import _c11_impl as A
    I = A.ift()
    from nifty.cl.operators.simple_linear_operators import DomainChangerAndReshaper
    o = op["o"]
    if o == "cscal":
        g = complex(*op["g"])
        return I.ScalingOperator(cur, g if g.imag != 0 else float(g.real))
    if o == "cdiag":
        v = np.array(op["v"][0], float) + 1j * np.array(op["v"][1], float)
        return I.DiagonalOperator(I.makeField(cur, v.reshape(cur.shape)))
    if o == "cmat":
        M = np.array(op["A"], float) + 1j * np.array(op["B"], float)
        flat = I.DomainTuple.make(I.UnstructuredDomain(cur.size))
        return DomainChangerAndReshaper(flat, cur) @ I.MatrixProductOperator(flat, M) @ DomainChangerAndReshaper(cur, flat)
    if o == "conj":
        return I.ConjugationOperator(cur)
    if o == "cfy":
        return I.Realizer(cur).adjoint
    if o == "real":
        return I.Realizer(cur)
    if o == "imag":
        from nifty.cl.operators.simple_linear_operators import Imaginizer
        return Imaginizer(cur)
    if o == "ptw":
        idop = I.ScalingOperator(cur, 1.)
        return idop ** 2 if op["f"] == "sqr" else idop.ptw(op["f"])
    if o == "f":
        return A.fop(cur, op["spec"])
    if o == "ft":
        kd = op["kind"]
        if kd == "fft":
            return I.FFTOperator(posdom, harmdom)
        if kd == "ifft":
            return I.FFTOperator(posdom, harmdom).inverse
        if kd == "fftadj":
            return I.FFTOperator(posdom, harmdom).adjoint
        if kd == "hartley":
            return I.HartleyOperator(posdom, harmdom)
        if kd == "hartley_back":
            return I.HartleyOperator(harmdom, posdom)
        if kd == "harmonic":
            return I.HarmonicTransformOperator(harmdom, posdom)
    raise A.Bad("cmodel op " + str(o))


def build_chain(ops, dom):
    """-> NIFTy operator (dom -> target); an empty chain is the identity"""
    from . import _c11_impl as A
    I = A.ift()
    cur = I.DomainTuple.make(dom)
    posdom = cur[0]
    harmdom = posdom.get_default_codomain() if isinstance(posdom, I.RGSpace) else None
    chain = None
    for op in ops:
        o = build_op(op, cur, posdom, harmdom)
        chain = o if chain is None else o @ chain
        cur = o.target
    if chain is None:
        chain = I.ScalingOperator(cur, 1.)
    return chain


# ------------------------------------------------------------------------------------------------
# generators
def rc(rng, lo, hi, digits=3):
    return round(rng.uniform(lo, hi), digits)


def nz(rng, lo, hi, eps=0.2):
    v = rc(rng, lo, hi)
    return v if abs(v) >= eps else (eps if v >= 0 else -eps)


def make_op(rng, name, n):
    from . import _c11_gen as G
    if name == "cscal_i":
        return {"o": "cscal", "g": [0.0, rng.choice([-1, 1]) * rc(rng, 0.3, 2)]}
    if name == "cscal_c":
        return {"o": "cscal", "g": [nz(rng, -1.5, 1.5), nz(rng, -1.5, 1.5)]}
    if name == "cscal_neg":
        return {"o": "cscal", "g": [-rc(rng, 0.3, 2), 0.0]}
    if name == "cdiag":
        return {"o": "cdiag", "v": [[nz(rng, -1.5, 1.5) for _ in range(n)], [nz(rng, -1.5, 1.5) for _ in range(n)]]}
    if name == "cmat":
        return {"o": "cmat", "A": [[rc(rng, -1, 1, 2) for _ in range(n)] for _ in range(n)],
                "B": [[rc(rng, -1, 1, 2) for _ in range(n)] for _ in range(n)]}
    if name == "ptw":
        return {"o": "ptw", "f": rng.choice(["exp", "sinh", "cos", "sqr"])}
    if name.startswith("ptw:"):
        return {"o": "ptw", "f": name[4:]}
    if name in ("conj", "cfy", "real", "imag"):
        return {"o": name}
    if name == "f":
        f = G.gen_f(rng, n)
        return {"o": "f", "spec": f}
    if name.startswith("f:"):
        t = name[2:]
        if t == "expscal":
            return {"o": "f", "spec": {"f": "expscal", "c": rng.choice([-1, 1]) * rc(rng, 0.3, 0.9)}}
        return {"o": "f", "spec": {"f": t}}
    if name in ("fft", "ifft", "fftadj", "hartley", "hartley_back", "harmonic"):
        return {"o": "ft", "kind": name}
    raise ValueError(name)


def candidates(cplx, harm, rg):
    if cplx:
        c = ["cscal_i", "cscal_c", "cscal_c", "cscal_neg", "cdiag", "cdiag", "cmat", "ptw", "conj"]
        if rg and not harm:
            c += ["fft", "fft", "hartley"]
        if rg and harm:
            c += ["ifft", "fftadj", "hartley_back", "harmonic"]
        c += ["real", "imag"]
    else:
        c = ["cfy", "cfy", "cfy", "cscal_neg", "f"]
        if rg and not harm:
            c += ["hartley"]
        if rg and harm:
            c += ["hartley_back", "harmonic"]
    return c


def gen_chain(rng, n, rg, cin, need_cplx, need_cls, allow_harm, length, names=None):
    """random well-typed chain from type `cin` to the type the leaf needs (`need_cplx`; real leaves: range class)"""
    ops = []
    cplx, harm = cin, False
    todo = list(names) if names is not None else [None] * length
    for nm in todo:
        if nm is None:
            nm = rng.choice(candidates(cplx, harm, rg))
        if nm == "imag" and not dtype_complex(ops, cin):
            nm = "real"
        op = make_op(rng, nm, n)
        t = op_type(op, cplx, harm, rg)
        if t is None:
            return None
        ops.append(op)
        cplx, harm = t
    if harm and not allow_harm:
        nm = rng.choice(["ifft", "fftadj", "hartley_back", "harmonic"] if cplx else ["hartley_back", "harmonic"])
        op = make_op(rng, nm, n)
        ops.append(op)
        cplx, harm = op_type(op, cplx, harm, rg)
    if cplx and not need_cplx:
        ops.append(make_op(rng, rng.choice(["real", "real", "imag"]) if dtype_complex(ops, cin) else "real", n))
        cplx = False
    if not cplx and need_cplx:
        ops.append({"o": "cfy"})
        cplx = True
        if rng.random() < 0.7:
            ops.append(make_op(rng, rng.choice(["cscal_c", "cscal_i", "cdiag"]), n))
    if not need_cplx and need_cls != "real":
        nm = {"pos": rng.choice(["f:exp", "f:expscal", "f:sqr"]), "unit": "f:sigmoid"}[need_cls]
        ops.append(make_op(rng, nm, n))
    return ops, harm


def gen_cleaf(rng, dom, n, kind, icov=None):
    """leaf spec; kinds: cgauss (complex Gaussian, incl. complex-bun sandwich), cvarcov, or a real round-1 kind"""
    from . import _c11_gen as G
    if kind == "cgauss":
        ic = icov or rng.choice(["none", "scal", "diag", "diag", "csand", "csand"])
        e = {"k": "gauss", "icov": ic, "cplx": True, "sdt": "c16"}
        e["d"] = None if rng.random() < 0.25 else [[rc(rng, -3, 3) for _ in range(n)], [rc(rng, -3, 3) for _ in range(n)]]
        if ic == "scal":
            e["c"] = rc(rng, 0.1, 5)
        if ic in ("diag", "csand"):
            e["diag"] = [rc(rng, 0.1, 5) for _ in range(n)]
        if ic == "csand":
            nm = rng.choice([["cscal_i"], ["cscal_c"], ["cdiag"], ["cmat"], ["cdiag", "cmat"], ["cscal_c", "cdiag"]])
            e["bunops"] = [make_op(rng, x, n) for x in nm]
        return e
    if kind == "cvarcov":
        return {"k": "varcov", "cplx": True, "full": rng.random() < 0.5, "kr": "a", "ki": "b"}
    if kind == "rgauss":
        for _ in range(50):
            e = G.gen_leaf(rng, "gauss", dom, n)
            if not e.get("cplx"):
                return e
    return G.gen_leaf(rng, kind, dom, n)


NEEDC = {"cgauss": "real", "rgauss": "real", "studentt": "real", "poisson": "pos", "invgamma": "pos", "sgamma": "pos",
         "bernoulli": "unit"}
CKINDS = ["cgauss", "cgauss", "cgauss", "cgauss", "cvarcov", "rgauss", "poisson", "studentt", "invgamma", "bernoulli", "sgamma"]


def gen_cdom(rng, small):
    from . import _c11_gen as G
    for _ in range(50):
        d = G.gen_dom(rng, small)
        if d["t"] == "rg" or rng.random() < 0.3:
            return d
    return d


def gen_ccase(rng, small=True, force=None):
    for _ in range(400):
        c = _gen_ccase(rng, small, force or {})
        if c is not None and valid(c):
            return c
    raise RuntimeError("complex-model generator failed")


def _blk(rng, n, cplx):
    return [rc(rng, -1.5, 1.5) for _ in range(n * (2 if cplx else 1))]


def _gen_ccase(rng, small, force):
    from . import _c11_gen as G
    dom = gen_cdom(rng, small)
    if force.get("rg") and dom["t"] != "rg":
        return None
    n = G.npix(dom)
    rg = dom["t"] == "rg"
    shape_b = force.get("shape", "B" if rng.random() < 0.25 else "A") == "B"
    cplxk, pos, pos2 = {}, {}, {}
    bare = bool(force.get("bare"))

    def maybe_scale(node):
        if not bare and rng.random() < 0.35:
            return {"k": "scale", "c": rc(rng, 0.1, 4), "e": node, "left": rng.random() < 0.7}
        return node

    if shape_b:
        # ([c1]·lh1 + [c2]·lh2) @ chain : the model is applied to a whole (scaled) sum
        cl = force.get("leaf") == "cgauss" or (force.get("leaf") is None and rng.random() < 0.6)
        nl = rng.choice([1, 2, 2]) if not bare else 2
        if cl:
            kinds = ["cgauss"] * nl
        else:
            kinds = [rng.choice(["rgauss", "poisson", "studentt", "invgamma", "bernoulli"]) for _ in range(nl)]
        need = "real"
        for kd in kinds:
            if G.sub(NEEDC[kd], need):
                need = NEEDC[kd]
        cin = force.get("cin", rng.random() < 0.6)
        ch = gen_chain(rng, n, rg, cin, cl, need, rng.random() < 0.3, rng.choice([1, 1, 2, 3]), force.get("ops"))
        if ch is None:
            return None
        ops, _ = ch
        ls = [maybe_scale(gen_cleaf(rng, dom, n, kd, force.get("icov") if j == 0 else None)) for j, kd in enumerate(kinds)]
        inner = ls[0] if nl == 1 else {"k": "sum", "es": ls}
        e = {"k": "cmodel", "e": inner, "ops": {"": ops}}
        cplxk[""] = cin
    else:
        nsum = 1 if bare else rng.choice([1, 1, 2, 2, 3])
        kinds = [force.get("leaf") if (force.get("leaf") and i == 0) else rng.choice(CKINDS) for i in range(nsum)]
        if kinds.count("cvarcov") > 1:
            return None
        keyed = (nsum > 1 and rng.random() < 0.8) or "cvarcov" in kinds
        summ = []
        for i, kd in enumerate(kinds):
            leaf = gen_cleaf(rng, dom, n, kd, force.get("icov") if i == 0 else None)
            names = force.get("ops") if i == 0 else None
            length = rng.choice([0, 1, 1, 2, 2, 3, 4])
            if kd == "cvarcov":
                reqs = [("a", True, "real", names, length), ("b", False, "pos", None, rng.choice([0, 0, 1, 2]))]
            else:
                key = rng.choice(["u", "v", "a", "b"]) if keyed else ""
                if keyed:
                    leaf["key"] = key
                reqs = [(key, kd == "cgauss", NEEDC[kd], names, length)]
            opsd = {}
            allow_harm = len(reqs) == 1 and rng.random() < 0.3
            for key, ncp, ncls, nms, ln in reqs:
                if key in cplxk:
                    cin = cplxk[key]
                else:
                    cin = force.get("cin", rng.random() < 0.6)
                ch = gen_chain(rng, n, rg, cin, ncp, ncls, allow_harm, ln, nms)
                if ch is None:
                    return None
                opsd[key] = ch[0]
                cplxk.setdefault(key, cin)
            summ.append(maybe_scale({"k": "cmodel", "e": leaf, "ops": opsd}))
        e = summ[0] if nsum == 1 else {"k": "sum", "es": summ}
    if not bare and rng.random() < 0.3:
        e = {"k": "scale", "c": rc(rng, 0.1, 4), "e": e, "left": rng.random() < 0.7}
    if not bare and rng.random() < 0.3:
        e = {"k": "ham", "e": e, "ic": rng.random() < 0.5}
    for key, c in cplxk.items():
        pos[key] = _blk(rng, n, c)
        pos2[key] = [v + rc(rng, -0.5, 0.5) for v in pos[key]]
    return {"op": "lh", "dom": dom, "e": e, "pos": pos, "pos2": pos2, "cplx": cplxk,
            "cls": {k: "real" for k in cplxk}}


def need_of_leaf(l):
    """key -> range class of the leaf's input"""
    from . import _c11_gen as G
    if l["k"] == "varcov":
        return {l.get("kr", "a"): "real", l.get("ki", "b"): "pos"}
    return {l.get("key") or "": G.NEED[l["k"]]}


def valid(case):
    """every chain stays in a numerically harmless range at both positions and ends inside the range of its leaves"""
    from . import _c11_gen as G

    def walk(e, blocks, cplx):
        k = e["k"]
        if k in ("scale", "ham"):
            return walk(e["e"], blocks, cplx)
        if k == "sum":
            return all(walk(s, blocks, cplx) for s in e["es"])
        if k == "cmodel":
            out, oc = dict(blocks), dict(cplx)
            for key, ops in e["ops"].items():
                y, _, c2, (mx, mxarg) = chain_ref(ops, blocks[key], cplx[key], case["dom"])
                if not np.all(np.isfinite(y)) or mx > 25 or mxarg > 2.5:
                    return False
                out[key], oc[key] = y, c2
            return walk(e["e"], out, oc)
        for key, cls in need_of_leaf(e).items():
            y = np.asarray(blocks[key], float)
            if cls == "pos" and not (np.all(y > 0.05) and np.all(y < 60)):
                return False
            if cls == "unit" and not (np.all(y > 0.03) and np.all(y < 0.97)):
                return False
            if e["k"] == "studentt" and np.any(np.abs(y) < 0.02):
                return False
        return True

    for which in ("pos", "pos2"):
        if not walk(case["e"], {k: np.array(v, float) for k, v in case[which].items()}, dict(case["cplx"])):
            return False
    return True


# forced every run (quick and thorough, any seed): the Jacobian of the model is *exactly* one operator of each kind
# (ScalingOperator: pure imaginary / general complex / negative real; DiagonalOperator; dense; FFT-type; conj;
# holomorphic point-wise), for every complex-capable leaf, plus the typical R -> C -> R harmonic-space models
FORCED = (
    [dict(leaf="cgauss", icov=ic, ops=[nm], cin=True, bare=True, shape="A")
     for ic in ("none", "scal", "diag", "csand") for nm in ("cscal_i", "cscal_c", "cscal_neg", "cdiag")]
    + [dict(leaf="cgauss", ops=[nm], cin=True, bare=True, shape="A") for nm in ("cmat", "conj", "ptw:exp", "ptw:sqr", "ptw:sinh", "ptw:cos")]
    + [dict(leaf="cgauss", ops=[nm], cin=True, bare=True, shape="A", rg=True) for nm in ("fft", "hartley")]
    + [dict(leaf="cgauss", ops=["fft", nm], cin=True, bare=True, shape="A", rg=True) for nm in ("ifft", "fftadj", "hartley_back", "harmonic")]
    + [dict(leaf="cgauss", ops=["cfy", nm], cin=False, bare=True, shape="A") for nm in ("cscal_i", "cscal_c", "cdiag", "cmat")]
    + [dict(leaf="cvarcov", ops=[nm], cin=True, bare=True, shape="A") for nm in ("cscal_i", "cscal_c", "cdiag", "ptw:exp")]
    + [dict(leaf="cvarcov", ops=["fft"], cin=True, bare=True, shape="A", rg=True)]
    + [dict(leaf=lf, ops=["cfy", "fft", "cdiag", nm], cin=False, bare=True, shape="A", rg=True)
       for lf, nm in (("poisson", "ifft"), ("bernoulli", "fftadj"), ("studentt", "hartley_back"), ("invgamma", "harmonic"), ("rgauss", "ifft"))]
    + [dict(leaf=lf, ops=["cscal_c"], cin=True, bare=True, shape="A") for lf in ("poisson", "studentt", "rgauss", "sgamma")]
    + [dict(leaf="cgauss", ops=[nm], cin=True, bare=True, shape="B") for nm in ("cscal_i", "cscal_c", "cdiag", "cmat")]
    + [dict(leaf="cgauss", ops=["fft"], cin=True, bare=True, shape="B", rg=True)]
    + [dict(leaf="cgauss", ops=[nm], cin=True, shape="A") for nm in ("cscal_i", "cscal_c", "cdiag")]
)
