"""C09 helpers: domain construction from JSON descriptions, exact/numeric evaluation of model outputs,
Hartley-convention switch, adapters into the real code (every call wrapped: exceptions -> error kinds)."""
import contextlib
import math
from fractions import Fraction

import numpy as np

RTOL = 1e-9          # class T; observed noise at these sizes is < 1e-13 relative
CONVS = ("non_canonical_hartley", "canonical_hartley")


def frac_str(x):
    """exact rational text of a Python float / int (every float64 is a dyadic rational)"""
    f = Fraction(x)
    return str(f.numerator) if f.denominator == 1 else f"{f.numerator}/{f.denominator}"


def parse_frac(s):
    return Fraction(s)


@contextlib.contextmanager
def hartley_convention(conv):
    """switch nifty.config hartley_convention (documented API: nifty.config.update) and restore it afterwards"""
    from nifty import config
    old = config._config.get("hartley_convention")
    config.update("hartley_convention", conv)
    try:
        yield
    finally:
        config._config["hartley_convention"] = old


def err_kind(e):
    return {"error": type(e).__name__}


# ---- domains -----------------------------------------------------------------------------------------

def mk_space(d):
    import nifty.cl as ift
    k = d["kind"]
    if k == "rg":
        return ift.RGSpace(tuple(d["shape"]), distances=tuple(d["dist"]) if d.get("dist") is not None else None,
                           harmonic=bool(d.get("harmonic", False)))
    if k == "un":
        return ift.UnstructuredDomain(tuple(d["shape"]))
    if k == "lm":
        return ift.LMSpace(d["lmax"], d.get("mmax"))
    if k == "gl":
        return ift.GLSpace(d["nlat"], d.get("nlon"))
    if k == "hp":
        return ift.HPSpace(d["nside"])
    raise ValueError(k)


def mk_domain(spaces):
    import nifty.cl as ift
    return ift.DomainTuple.make(tuple(mk_space(d) for d in spaces))


def space_shape(d):
    if d["kind"] in ("rg", "un"):
        return list(d["shape"])
    return list(mk_space(d).shape)


def pad3(l, fill):
    l = list(l)
    return l + [fill] * (3 - len(l))


def model_geometry(spaces, space):
    """(pre, n[3], post, rdist[3] as exact strings, dh) of the transformed space, read from the REAL domain object
    (its `_rdistances` are the floats the code works with)"""
    pre = 1
    for d in spaces[:space]:
        pre *= int(np.prod(space_shape(d), dtype=int))
    post = 1
    for d in spaces[space + 1:]:
        post *= int(np.prod(space_shape(d), dtype=int))
    sp = spaces[space]
    if sp["kind"] != "rg":
        return dict(pre=pre, n=pad3(space_shape(sp)[:3], 1), post=post, rdist=["1", "1", "1"], dh=False,
                    spacekind=sp["kind"])
    dom = mk_space(sp)
    rd = [frac_str(float(x)) for x in dom._rdistances]
    return dict(pre=pre, n=pad3(dom.shape, 1), post=post, rdist=pad3(rd, "1"), dh=bool(dom.harmonic), spacekind="rg")


# ---- model output evaluation -------------------------------------------------------------------------

def eval_entries(out, exact):
    """model output {"N":N,"y":[entry...]} -> list of (re, im): Fractions if exact (N | 4) else complex floats"""
    N = out["N"]
    res = []
    if 4 % N == 0:
        for e in out["y"]:
            re, im = Fraction(e[0]), Fraction(e[1])
            res.append((re, im) if exact else complex(float(re), float(im)))
        return res
    w = np.exp(-2j * np.pi * np.arange(N) / N)
    for e in out["y"]:
        v = 0j
        for k, c in e[0]:
            v += float(Fraction(c)) * w[k]
        for k, c in e[1]:
            v += 1j * float(Fraction(c)) * w[k]
        res.append(complex(v))
    return res


def exact_list(arr):
    """real code output (numpy, any dtype) -> list of [re, im] exact fraction strings"""
    a = np.asarray(arr).reshape(-1)
    if np.iscomplexobj(a):
        return [[frac_str(float(z.real)), frac_str(float(z.imag))] for z in a]
    return [[frac_str(float(z)), "0"] for z in a]


def model_exact_list(out):
    return [[str(Fraction(e[0])), str(Fraction(e[1]))] for e in out["y"]]


def close(v, m, scale=None, rtol=RTOL):
    v = np.asarray(v, dtype=complex).reshape(-1)
    m = np.asarray(m, dtype=complex).reshape(-1)
    if v.shape != m.shape:
        return False, float("inf")
    if v.size == 0:
        return True, 0.0
    if not np.all(np.isfinite(v)):
        return False, float("inf")
    sc = float(np.max(np.abs(m))) if scale is None else scale
    err = float(np.max(np.abs(v - m)))
    return err <= rtol * (sc + 1e-300) + 1e-300, err / (sc + 1e-300)


def is_pow2(x):
    if x <= 0:
        return False
    m, e = math.frexp(x)
    return m == 0.5


# ---- explicit references (model-free, O(n^2)) --------------------------------------------------------

def dft_explicit(x, axes, sign=-1):
    x = np.asarray(x, dtype=complex)
    for ax in axes:
        n = x.shape[ax]
        M = np.exp(sign * 2j * np.pi * np.outer(np.arange(n), np.arange(n)) / n)
        x = np.moveaxis(np.tensordot(M, x, axes=(1, ax)), 0, ax)
    return x


def real_sph_matrix(lmax, mmax, theta, phi):
    """matrix R[pix, idx] of the real orthonormal spherical harmonics in NIFTy's LMSpace layout:
    idx 0..lmax: (l, m=0); then for m = 1..mmax, l = m..lmax: pairs (sqrt2 Re Y_lm, -sqrt2 Im Y_lm)"""
    from scipy.special import sph_harm_y
    cols = []
    for l in range(lmax + 1):
        cols.append(sph_harm_y(l, 0, theta, phi).real)
    for m in range(1, mmax + 1):
        for l in range(m, lmax + 1):
            y = sph_harm_y(l, m, theta, phi)
            cols.append(np.sqrt(2.0) * y.real)
            cols.append(-np.sqrt(2.0) * y.imag)
    return np.array(cols).T
