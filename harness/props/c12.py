"""C12 — JAX likelihoods factor their metric and equal the Fisher information (DESIGN.md §5 C12, design.d/C12.md).

Tie, class T: the REAL nifty.re likelihood objects (plain, amended with generated forward models, summed, partially
frozen) are probed densely (M, L, R by unit vectors; transformation values and Jacobian) and compared with the Lean
model (Driver/C12.lean over Model/LikelihoodRe.lean, Float) computed from the same parameters.
Oracle, real code only: M = L R, R = L^H, L = (Jac T)^H (exact transformations) or E_d[(Jac T)^H Jac T] = M
(transformations documented as local approximations), M = Fisher information of the documented distribution
(closed forms written independently in _c12_fisher.py, themselves self-tested against expected Hessians).
"""
import contextlib
import copy
import struct

import numpy as np

from props import _c12_fisher as FI
from props import _c12_gen as G
from props import _c12_impl as I

ID = "C12"
LEAN_MODULES = ["NiftyVerif.Core.Proto", "NiftyVerif.Model.LikelihoodRe", "NiftyVerif.Props.C12"]
DRIVER = "Driver/C12.lean"
OBLIGATIONS = ["NiftyVerif.C12." + t for t in (
    "factor_iff_matrix", "R_eq_Lh", "default_metric_eq_L_R", "ofML_factor", "L_Lh_eq_M_ndvc",
    "expected_pullback_vcgauss_complex_witness", "expected_pullback_vcgauss_complex_factor",
    "studentt_dense_noise_witness", "with_model_factor_star",
    "L_Lh_eq_M_gaussian", "L_Lh_eq_M_studentt", "L_Lh_eq_M_poisson", "L_Lh_eq_M_vcgauss", "L_Lh_eq_M_vcstudt",
    "categorical_factor", "softmax_group_sum", "L_Lh_eq_M_categorical", "categorical_global_sum_defect",
    "L_is_pullback_gaussian", "L_is_pullback_studentt", "L_is_pullback_poisson",
    "expected_pullback_vcgauss_partial",
    "M_is_fisher_poisson", "M_is_fisher_gaussian", "M_is_fisher_vcgauss", "M_is_fisher_categorical", "categorical_score",
    "with_model_factor", "sum_factor", "partial_factor", "with_model_fisher", "sum_fisher", "partial_fisher",
)]
RULE = ("cases = real likelihood objects built from generated JSON: 7 implementations x (scalar | batched | Vector-pytree "
        "data, real | complex) x (plain | amended with linear/non-linear forward model | sum of 2-3 | partially frozen) "
        "x (real latent | latent tree with complex leaves and complex forward models: imaginary/complex scalar, complex "
        "diagonal, jnp.fft, complex dense, holomorphic / anti-holomorphic / real-valued activations) x (float64 | float32); "
        "non-trivial = parameter dimension >= 2 or a composition; distinct by canonical JSON of the case")
TRUSTED_BASE = [
    "Lean 4.33 kernel; axioms propext/Classical.choice/Quot.sound only (audited every run)",
    "hand-written model Model/LikelihoodRe.lean tied to likelihood_impl.py / likelihood.py only by this differential check "
    "(dense M, L, R, transformation values, tolerance 1e-9 relative)",
    "jax.vjp / jax.linearize / jax.linear_transpose / jacfwd, eigh-based solve/sqrtm/logm: executed, not modelled",
    "Fisher information = expected Hessian with data moments substituted (exact for these families); Student-t closed "
    "forms (theta+1)/(theta+3), 2 theta/(theta+3) from the literature, checked by quadrature in the harness self-test",
    "Fisher information transforms as J^T F J under reparametrisation, adds over independent data, restricts to the "
    "liquid block under freezing (standard; used to state preservation under amend / sum / partial)",
    "IEEE rounding outside the model (class T)",
]
ASSUMPTIONS = [
    "noise_cov_inv / noise_std_inv generated diagonal and mutually consistent (the constructor does not check this)",
    "Categorical probed on the logits shape (its declared lsm_tangents_shape is the data shape)",
    "NDVariableCovarianceGaussian: model driver d <= 2 closed forms, d = 3, 4 Gauss-Jordan + Denman-Beavers iteration "
    "(generated: d <= 3); Fisher compared on symmetric matrix directions",
    "dense (non-diagonal) Hermitian noise operators: oracle only; generated mutually consistent (cov_inv = std_inv^2), "
    "Student-t with them and a scalar dof (per-element dof: known finding C12-studentt-dense-noise-dof)",
    "float32 cases run under jax.enable_x64(False) in the same workers, tolerance 2e-4 (observed noise <= 1e-6)",
]

TOL = 1e-9
TOL32 = 2e-4     # float32 worker (jax default configuration): eps = 6e-8, observed noise <= 2e-6 (see design.d/C12.md)


# ---------------------------------------------------------------------------------------------------
# helpers
# ---------------------------------------------------------------------------------------------------
def f2b(x):
    return struct.unpack("<Q", struct.pack("<d", float(x)))[0]


def b2f(n):
    return struct.unpack("<d", struct.pack("<Q", int(n)))[0]


def enc(a):
    a = np.asarray(a, dtype=float)
    if a.ndim == 1:
        return [f2b(x) for x in a]
    return [[f2b(x) for x in r] for r in a]


def dec(a):
    if a is None:
        return None
    if len(a) and isinstance(a[0], list):
        return np.array([[b2f(x) for x in r] for r in a], dtype=float).reshape(len(a), -1)
    return np.array([b2f(x) for x in a], dtype=float)


def close(a, b, scale=1.0, tol=None):
    a, b = np.asarray(a, dtype=float), np.asarray(b, dtype=float)
    if a.shape != b.shape:
        return False
    if a.size == 0:
        return True
    if not (np.all(np.isfinite(a)) and np.all(np.isfinite(b))):
        return False
    ref = max(np.abs(b).max(), np.abs(a).max(), scale)
    r = float(np.abs(a - b).max() / ref)
    ok = r <= (TOL if tol is None else tol)
    if ok:
        NOISE[0] = max(NOISE[0], r)
    return bool(ok)


NOISE = [0.0]    # largest relative deviation seen by `close` since the last reset (noise measurement, per worker case)


def dev(a, b):
    a, b = np.asarray(a, dtype=float), np.asarray(b, dtype=float)
    if a.shape != b.shape:
        return f"shape {a.shape} vs {b.shape}"
    if a.size == 0:
        return "0"
    return f"{np.abs(a - b).max():.3e}"


def _act_np(name, z, shape):
    """numpy twin of the harness activations: value and Jacobian d act / d z"""
    n = z.size
    if name == "id":
        return z, np.eye(n)
    if name == "exp":
        return np.exp(z), np.diag(np.exp(z))
    if name == "tanh":
        return np.tanh(z), np.diag(1.0 - np.tanh(z) ** 2)
    if name == "sq1":
        return 1.0 + z * z, np.diag(2.0 * z)
    if name == "spd":
        d = shape[-1]
        W = z.reshape(-1, d, d)
        Y = np.einsum("bij,bkj->bik", W, W) + np.eye(d)
        Jm = np.zeros((n, n))
        for b in range(W.shape[0]):
            o = b * d * d
            for i in range(d):
                for k in range(d):
                    for j in range(d):
                        # Y_ik = sum_j W_ij W_kj
                        Jm[o + i * d + k, o + i * d + j] += W[b, k, j]
                        Jm[o + i * d + k, o + k * d + j] += W[b, i, j]
        return Y.ravel(), Jm
    raise ValueError(name)


def _dft(n, inverse, norm):
    """explicit DFT matrix (numpy twin of jnp.fft.fft / ifft with the given `norm`)"""
    k = np.outer(np.arange(n), np.arange(n))
    F = np.exp((2j if inverse else -2j) * np.pi * k / n)
    norm = norm or "backward"
    if norm == "ortho":
        return F / np.sqrt(n)
    if (norm == "backward") == bool(inverse):
        return F / n
    return F


def _cmodel_y_and_J(t, lat, x):
    """numpy twin of _c12_impl.cforward_tree_fn: value (real coordinates) and REAL Jacobian w.r.t. the real
    coordinates of the latent tree (complex leaf = [re, im])"""
    m = t["model"]
    cp = lat.get("cplx") or [False] * len(lat["sizes"])
    nl, nr = sum(lat["sizes"]), len(x)
    u = np.zeros(nl, dtype=complex)
    D = np.zeros((nl, nr), dtype=complex)
    ou = ox = 0
    for n, c in zip(lat["sizes"], cp):
        for i in range(n):
            if c:
                u[ou + i] = x[ox + i] + 1j * x[ox + n + i]
                D[ou + i, ox + i] = 1.0
                D[ou + i, ox + n + i] = 1j
            else:
                u[ou + i] = x[ox + i]
                D[ou + i, ox + i] = 1.0
        ou += n
        ox += 2 * n if c else n
    ct = m["ctype"]
    if ct in ("iscal", "cscal"):
        C = complex(*m["g"]) * np.eye(nl)
    elif ct == "cdiag":
        C = np.diag([complex(*v) for v in m["c"]])
    elif ct == "fft":
        C = _dft(nl, m.get("inverse"), m.get("norm"))
    elif ct == "cdense":
        C = np.array([[complex(*v) for v in r] for r in m["C"]]).reshape(len(m["C"]), nl)
    else:
        raise ValueError(ct)
    if ct != "cdense":
        C = C[np.asarray(m["sel"], dtype=int)]
    w = C @ u + np.array([complex(*v) for v in m["b"]])
    Dw = C @ D
    ys, Js, off = [], [], 0
    for l, a in zip(I.spec_leaves(I.primal_spec(t)), m["acts"]):
        n = int(np.prod(l["shape"], dtype=int))
        ww, dd = w[off:off + n], Dw[off:off + n]
        off += n
        if a in ("id", "cexp", "csq", "csin", "conj"):
            if a == "id":
                v, dv = ww, dd
            elif a == "cexp":
                v = np.exp(ww / 2)
                dv = (v / 2)[:, None] * dd
            elif a == "csq":
                v, dv = ww + ww * ww / 4, (1 + ww / 2)[:, None] * dd
            elif a == "csin":
                v, dv = np.sin(ww), np.cos(ww)[:, None] * dd
            else:
                v, dv = np.conj(ww), np.conj(dd)
            assert l.get("cplx")
            ys += [v.real, v.imag]
            Js += [dv.real, dv.imag]
        else:
            assert not l.get("cplx")
            if a == "re":
                v, dv = ww.real, dd.real
            elif a == "im":
                v, dv = ww.imag, dd.imag
            elif a == "abs2p1":
                v, dv = 1.0 + np.abs(ww) ** 2, 2.0 * (np.conj(ww)[:, None] * dd).real
            elif a == "expre":
                v = np.exp(ww.real / 2)
                dv = (v / 2)[:, None] * dd.real
            elif a == "spd":
                v, Ja = _act_np("spd", ww.real, l["shape"])
                dv = Ja @ dd.real
            else:
                raise ValueError(a)
            ys.append(v)
            Js.append(dv)
    return np.concatenate(ys), np.vstack(Js)


def term_y_and_J(case):
    """per term: forward value y_k (real coordinates) and dense Jacobian J_k of the HARNESS forward model
    (numpy, written independently of the jax closure that is handed to the library)"""
    if case.get("latent") is None:
        return [(np.asarray(case["terms"][0]["y"], dtype=float), None)]
    x = np.asarray(case["x"], dtype=float)
    out = []
    for t in case["terms"]:
        m = t["model"]
        if m.get("ctype") is not None:
            out.append(_cmodel_y_and_J(t, case["latent"], x))
            continue
        A = np.asarray(m["A"], dtype=float).reshape(len(m["b"]), -1)
        if m.get("pre") is not None:
            A = A @ np.asarray(m["pre"], dtype=float)
        z = A @ x + np.asarray(m["b"], dtype=float)
        ys, Js, off = [], [], 0
        for l, a in zip(I.spec_leaves(I.primal_spec(t)), m["acts"]):
            n = I.leaf_sizes([l])[0]
            if l.get("cplx"):
                h = n // 2
                v, Ja = _act_np(a, z[off:off + h], l["shape"])
                ys += [v, z[off + h:off + n]]
                Js += [Ja @ A[off:off + h], A[off + h:off + n]]
            else:
                v, Ja = _act_np(a, z[off:off + n], l["shape"])
                ys.append(v)
                Js.append(Ja @ A[off:off + n])
            off += n
        out.append((np.concatenate(ys), np.vstack(Js)))
    return out


def liquid_of(case):
    lat = case.get("latent")
    if lat is None:
        return list(range(I.spec_size(I.primal_spec(case["terms"][0]))))
    frozen = case.get("freeze") or []
    rs = G.lat_real_sizes(lat)
    offs = np.cumsum([0] + rs)
    return [int(i) for k, n in enumerate(rs) if k not in frozen for i in range(offs[k], offs[k] + n)]


def _expand(term, vals):
    """per-data-element (or scalar) values -> per real coordinate of the data tree"""
    if vals is None:
        return None
    n = sum(FI._leaf_elems(term))
    return FI._expand_cplx(term, FI._bcast(vals, n))


def driver_line(case, yj=None):
    """the JSON object for Driver/C12.lean"""
    yj = term_y_and_J(case) if yj is None else yj
    terms = []
    for t, (y, J) in zip(case["terms"], yj):
        k = t["kind"]
        d = dict(kind=k, y=enc(y), J=None if J is None else enc(J), defaults=bool(t.get("defaults")))
        if k in ("gaussian", "studentt"):
            cov, std = _expand(t, t["par"].get("cov")), _expand(t, t["par"].get("std"))
            d["cov"] = None if cov is None else enc(cov)
            d["std"] = None if std is None else enc(std)
            if k == "studentt":
                d["dof"] = enc(_expand(t, t["par"]["dof"]))
        elif k == "vcgauss":
            sidx, cx, off = [], [], 0
            for l in t["tree"]["leaves"]:
                n = G.nelem(l["shape"])
                sidx += list(range(off, off + n)) * (2 if l.get("cplx") else 1)
                cx += [bool(l.get("cplx"))] * n
                off += n
            d["sidx"], d["cx"] = sidx, cx
            d["data"] = enc(t["data"])
        elif k == "vcstudt":
            d["dof"] = enc(FI._bcast(t["par"]["dof"], sum(FI._leaf_elems(t))))
        elif k == "categorical":
            d["grp"] = cat_groups(t)
        elif k == "ndvc":
            d["d"] = t["d"]
            d["cov"] = bool(t["covariance"])
            d["B"] = sum(G.nelem(l["shape"][:-1]) for l in t["tree"]["leaves"])
        terms.append(d)
    n = len(case["x"]) if case.get("latent") is not None else len(yj[0][0])
    return dict(op="lh", n=n, terms=terms, liquid=liquid_of(case))


def cat_groups(t):
    """group id (which categorical distribution) of every logits coordinate: one group per slice along `axis`, per leaf"""
    ax, K = t["axis"], t["K"]
    grp, base = [], 0
    for l in t["tree"]["leaves"]:
        shp = list(l["shape"])          # extent 1 along axis
        nb = G.nelem(shp)
        ids = np.arange(nb).reshape(shp)
        full = list(shp)
        full[ax] = K
        grp += [int(v) + base for v in np.broadcast_to(ids, full).ravel()]
        base += nb
    return grp


def model_supported(case):
    # dense Hermitian noise operators: oracle only (the model transcribes the diagonal branches of the constructor)
    return all(not t.get("par", {}).get("herm") and not (t["kind"] == "ndvc" and t["d"] > ND_MAX) for t in case["terms"])


ND_MAX = 4


# ---------------------------------------------------------------------------------------------------
# adapters to the real code
# ---------------------------------------------------------------------------------------------------
EXACT_T = ("gaussian", "studentt", "poisson")
EXPECT_T = ("vcgauss", "ndvc")


def has_T(case):
    return all(t["kind"] in EXACT_T + EXPECT_T for t in case["terms"])


def impl(case, want=None):
    """dense matrices of the real object; exceptions -> {"error": kind}"""
    try:
        bases = I.build_bases(case)
        b = I.assemble(case, bases)
        want = want or (("M", "L", "R", "T") if has_T(case) else ("M", "L", "R"))
        if case.get("latent") is not None:
            want = want + ("C",)       # composition cross-check: jacfwd/jacrev of the forward models, M_k, L_k
        elif case["terms"][0]["kind"] == "gaussian" and not case["terms"][0].get("defaults"):
            want = want + ("H",)       # Hessian of the energy (independent of the data for a Gaussian)
        out = I.probe(b, want)
        out["_bases"] = bases
        return out
    except Exception as e:  # a seeded bug must show up as a disagreement, not as a harness crash
        return {"error": type(e).__name__, "msg": str(e)[:200]}


def expected_gram(case, yj, bases):
    """E_d[(Jac T)^T (Jac T)] over the documented data distribution at the current parameters, exactly:
    Jac T is affine in the data of each term, terms are independent, so
    E = G(d = mean) + sum over terms, over the columns c of a square root of the data covariance: (J(mean+c)-J(mean))^2"""
    means, cols = {}, []
    for ti, (t, (y, _)) in enumerate(zip(case["terms"], yj)):
        if t["kind"] not in EXPECT_T:
            continue
        nd = len(t["data"])
        means[ti] = np.asarray(y[:nd], dtype=float)
        if t["kind"] == "vcgauss":
            sd = FI._expand_cplx(t, 1.0 / y[nd:])
            for i in range(nd):
                c = np.zeros(nd)
                c[i] = sd[i]
                cols.append((ti, c))
        else:
            d = t["d"]
            B = nd // d
            mats = y[nd:].reshape(B, d, d)
            for bb in range(B):
                S = mats[bb] if t["covariance"] else np.linalg.inv(mats[bb])
                C = np.linalg.cholesky(0.5 * (S + S.T))
                for kk in range(d):
                    c = np.zeros(nd)
                    c[bb * d:(bb + 1) * d] = C[:, kk]
                    cols.append((ti, c))
    stacks = {ti: [m] for ti, m in means.items()}
    for ti, c in cols:
        for tj, m in means.items():
            stacks[tj].append(m + c if tj == ti else m)
    Js = I.transformation_jacobians(case, bases, [(ti, np.array(v)) for ti, v in sorted(stacks.items())])
    J0 = Js[0]
    Gm = J0.T @ J0
    for v in range(1, Js.shape[0]):
        J1 = Js[v] - J0
        Gm = Gm + J1.T @ J1
    return Gm


def sym_projector(term):
    """projector of the real coordinates of an ndvc term onto (mean, symmetric matrices)"""
    d = term["d"]
    B = sum(G.nelem(l["shape"][:-1]) for l in term["tree"]["leaves"])
    n = B * d + B * d * d
    P = np.zeros((n, n))
    P[:B * d, :B * d] = np.eye(B * d)
    for b in range(B):
        o = B * d + b * d * d
        for r in range(d):
            for c in range(d):
                P[o + r * d + c, o + r * d + c] += 0.5
                P[o + r * d + c, o + c * d + r] += 0.5
    return P


def commuting_directions(term, y):
    """columns spanning (all mean directions) + (matrix directions I and A per block): on these the log-Euclidean
    transformation of NDVariableCovarianceGaussian is exact in expectation for every d"""
    d = term["d"]
    B = sum(G.nelem(l["shape"][:-1]) for l in term["tree"]["leaves"])
    n = B * d + B * d * d
    cols = [np.eye(n)[:, i] for i in range(B * d)]
    for b in range(B):
        o = B * d + b * d * d
        for Mx in (np.eye(d), y[o:o + d * d].reshape(d, d)):
            c = np.zeros(n)
            c[o:o + d * d] = Mx.ravel()
            cols.append(c)
    return np.array(cols).T


# ---------------------------------------------------------------------------------------------------
# the property, on the real code only
# ---------------------------------------------------------------------------------------------------
def term_tag(t):
    """which implementation, with the qualifiers that matter for the listed findings"""
    k = t["kind"]
    if k == "vcgauss":
        return "vcgauss[complex]" if any(l.get("cplx") for l in t["tree"]["leaves"]) else "vcgauss[real]"
    if k == "ndvc":
        return "ndvc[d>=2]" if t["d"] >= 2 else "ndvc[d=1]"
    if k == "categorical":
        return "categorical[batched]" if sum(FI._leaf_elems(t)) > 1 else "categorical[single]"
    if k == "studentt" and t["par"].get("herm") is not None and len(t["par"]["dof"]) > 1:
        return "studentt[dense-noise,dof-per-element]"
    return k


def _tol():
    return TOL


@contextlib.contextmanager
def precision(case):
    """cases flagged "f32" run with jax's DEFAULT configuration (x64 off: float32 / complex64 / int32) -- the precision
    the library runs in unless the user switches x64 on; tolerance from the float32 unit round-off"""
    global TOL
    f32 = bool(case.get("f32"))
    if f32 != bool(I.X64):          # already in the right configuration
        yield
        return
    jax = I.jx()
    old = (TOL, I.X64)
    TOL, I.X64 = (TOL32, False) if f32 else (1e-9, True)
    try:
        with jax.enable_x64(not f32):
            yield
    finally:
        TOL, I.X64 = old


def _sig(case, check, **kw):
    s = dict(check=check, culprit="+".join(sorted({term_tag(t) for t in case["terms"]})),
             composed=case.get("latent") is not None)
    s.update(kw)
    return s


def _checks(case, o):
    """list of (what, signature) for every part of the property that fails on the real object of THIS case"""
    fails = []
    if "error" in o:
        return [(f"real code raised {o['error']}: {o.get('msg', '')}", _sig(case, "raises", error=o["error"]))]
    M, L, R = o["M"], o["L"], o["R"]
    kinds = {t["kind"] for t in case["terms"]}
    # 0. every metric is Hermitian and positive semi-definite (real coordinates: a complex direction is probed with
    #    e_j and i e_j separately, the real symmetric matrix IS the Hermitian form Re<a, M b>)
    if not close(M, M.T):
        fails.append((f"metric is not Hermitian ({dev(M, M.T)})", _sig(case, "M=Mh")))
    elif M.size and np.all(np.isfinite(M)):
        ev = np.linalg.eigvalsh(0.5 * (M + M.T))
        if ev.min() < -_tol() * max(np.abs(M).max(), 1.0):
            fails.append((f"metric is not positive semi-definite (smallest eigenvalue {ev.min():.3e})", _sig(case, "M>=0")))
    # 1. M = L R
    if L.shape[1] != R.shape[0] or not close(M, L @ R):
        fails.append(("metric != left_sqrt_metric o right_sqrt_metric (max dev "
                      f"{dev(M, L @ R) if L.shape[1] == R.shape[0] else 'shape'})", _sig(case, "M=LR")))
    # 1b. M = L L^H (the factorisation itself, independent of how R is obtained)
    if not close(M, L @ L.T):
        fails.append((f"metric != L L^H (max dev {dev(M, L @ L.T)})", _sig(case, "M=LLh")))
    # 2. R = L^H
    if not close(R, L.T):
        fails.append((f"right_sqrt_metric is not the conjugate transpose of left_sqrt_metric ({dev(R, L.T)})",
                      _sig(case, "R=Lh")))
    yj = term_y_and_J(case)
    liquid = liquid_of(case)
    # 2b. composition, mechanism against mechanism: M = sum_k J_k^H M_k(y_k) J_k and L = [J_k^H L_k(y_k)]_k with J_k from
    #     jax.jacfwd AND jax.jacrev of the forward model, M_k / L_k the base likelihood's own dense operators
    if "Jf0" in o:
        Mp, Lp, okj = 0.0, [], True
        for k, (_, Jn) in enumerate(yj):
            Jf, Jr = o[f"Jf{k}"], o[f"Jr{k}"]
            if not (close(Jf, Jn) and close(Jr, Jn)):
                okj = False
                fails.append((f"Jacobian of forward model {k}: jacfwd / jacrev / numpy twin differ "
                              f"({dev(Jf, Jn)}, {dev(Jr, Jn)})", _sig(case, "forward_jacobian")))
            Mp = Mp + Jr.T @ o[f"Mk{k}"] @ Jf
            Lp.append(Jf.T @ o[f"Lk{k}"])
        if okj:
            Mp = Mp[np.ix_(liquid, liquid)]
            if not close(M, Mp):
                fails.append((f"metric of the composition != sum_k J_k^H M_k J_k (jacfwd/jacrev) ({dev(M, Mp)})",
                              _sig(case, "amend_metric")))
            Lp = np.hstack(Lp)[liquid, :]
            if Lp.shape == L.shape and not close(L, Lp):
                fails.append((f"left_sqrt_metric of the composition != [J_k^H L_k]_k ({dev(L, Lp)})",
                              _sig(case, "amend_left")))
    if "H" in o and not close(o["H"], M):
        fails.append((f"metric != Hessian of the energy (Gaussian: independent of the data) ({dev(o['H'], M)})",
                      _sig(case, "fisher_energy")))
    # 3. pull-back
    if has_T(case):
        T = o["T"]
        if kinds <= set(EXACT_T):
            o["_gram"] = T.T @ T
            if not close(L, T.T):
                fails.append((f"left_sqrt_metric is not the pull-back (Jac transformation)^H ({dev(L, T.T)})",
                              _sig(case, "pullback")))
        else:
            try:
                Gm = expected_gram(case, yj, o["_bases"])
            except Exception as e:
                Gm = None
                fails.append((f"transformation raised {type(e).__name__}: {str(e)[:120]}",
                              _sig(case, "raises", error=type(e).__name__)))
            if Gm is not None:
                o["_gram"] = Gm
                nd_big = [t for t in case["terms"] if t["kind"] == "ndvc" and t["d"] >= 2]
                if case.get("latent") is None and nd_big:
                    # exact in expectation only along directions commuting with the matrix parameter
                    D = commuting_directions(case["terms"][0], yj[0][0])
                    if not close(D.T @ Gm @ D, D.T @ M @ D):
                        fails.append(("E_d[(Jac T)^H Jac T] != metric on mean/commuting directions "
                                      f"({dev(D.T @ Gm @ D, D.T @ M @ D)})", _sig(case, "expected_pullback", part="commuting")))
                    P = sym_projector(case["terms"][0])
                    if not close(P @ Gm @ P, P @ M @ P):
                        fails.append(("E_d[(Jac T)^H Jac T] != metric on non-commuting symmetric matrix directions "
                                      f"({dev(P @ Gm @ P, P @ M @ P)})", _sig(case, "expected_pullback", part="noncommuting")))
                elif not close(Gm, M):
                    fails.append((f"E_d[(Jac T)^H Jac T] != metric ({dev(Gm, M)})",
                                  _sig(case, "expected_pullback", part="all")))
    # 4. Fisher information of the documented distribution (independent closed forms)
    Fm = None
    for t, (y, J) in zip(case["terms"], yj):
        Fk = FI.fisher(t, y)
        if t["kind"] == "ndvc":
            P = sym_projector(t)
            Fk = P @ Fk @ P
        Fk = Fk if J is None else J.T @ Fk @ J
        Fm = Fk if Fm is None else Fm + Fk
    Fm = Fm[np.ix_(liquid, liquid)]
    Mc = M
    if case.get("latent") is None and case["terms"][0]["kind"] == "ndvc":
        # the distribution lives on symmetric matrices: compare on (mean, symmetric) directions;
        # composed cases: the harness forward models only produce symmetric matrices
        P = sym_projector(case["terms"][0])
        Mc = P @ M @ P
    if not close(Mc, Fm):
        fails.append((f"metric != Fisher information of the documented distribution ({dev(Mc, Fm)})", _sig(case, "fisher")))
    return fails


def oracle_all(case, o=None):
    """list of (case', what, signature): every failing part of the property; failures of a composed case are
    localised — each term is re-examined on its own (no forward model, at the forward value) and, when it fails the
    same check there, the small self-contained case is reported instead of the composition"""
    with precision(case):
        return _oracle_all(case, o)


def _oracle_all(case, o=None):
    o = impl(case) if o is None else o
    fails = _checks(case, o)
    if not fails or case.get("latent") is None:
        return [(case, w, s) for w, s in fails]
    out, explained, grams = [], set(), []
    for i in range(len(case["terms"])):
        try:
            pc = plainify(case, i)       # (always float64: a listed finding must be recognised at full precision)
            with precision(pc):
                po = impl(pc)
                sub = _checks(pc, po)
            grams.append(po.get("_gram"))
        except Exception:
            grams.append(None)
            continue
        for w, s in sub:
            if any(s["check"] == s0["check"] for _, s0 in fails):
                out.append((pc, w, s))
                explained.add(s["check"])
    for w, s in fails:
        if s["check"] not in explained:
            out.append((case, w, dict(s, culprit="composition:" + s["culprit"])))
    if "expected_pullback" in explained and o.get("_gram") is not None and all(g is not None for g in grams):
        # a term on its own explains the failure (possibly a listed finding): the composition must still compose the
        # terms' transformations correctly -- E[Gram] of the whole = sum_k J_k^T E[Gram_k] J_k on the liquid block
        yj = term_y_and_J(case)
        liquid = liquid_of(case)
        pred = sum(J.T @ g @ J for g, (_, J) in zip(grams, yj))[np.ix_(liquid, liquid)]
        if not close(o["_gram"], pred):
            out.append((case, f"transformation of the composition is not the composition of the terms' transformations "
                              f"({dev(o['_gram'], pred)})", _sig(case, "pullback_composition")))
    return out


def oracle(case):
    """first failing part that is not a listed known finding (so that a replay of a new defect stays a violation)"""
    fails = [(w, s) for c, w, s in oracle_all(case) if c is case]
    if not fails:
        fails = [(w, s) for c, w, s in oracle_all(case)]
    if not fails:
        return None
    try:
        from core import findings
        kf = findings.load(ID)
        for w, s in fails:
            if findings.match(kf, dict(signature=s)) is None:
                return (w, s)
    except Exception:
        pass
    return fails[0]


def plainify(case, i):
    """term i on its own, without forward model, at the forward value"""
    yj = term_y_and_J(case)
    t = copy.deepcopy(case["terms"][i])
    t.pop("model", None)
    if t.get("defaults") == "outer":
        t.pop("defaults")
    t["y"] = [float(v) for v in yj[i][0]]
    return dict(op="lh", terms=[t])


def shrink(case):
    yield from G.shrink_candidates(case, plainify)


# ---------------------------------------------------------------------------------------------------
# generation
# ---------------------------------------------------------------------------------------------------
def _maybe_defaults(rng, t):
    # run the DEFAULTS of `Likelihood` (L = vjp of the transformation, R = transpose, M = L o R) on the exact
    # transformations of the library
    if t["kind"] in EXACT_T and rng.random() < 0.3:
        t["defaults"] = True
    return t


def gen_plain(rng, kind=None):
    return dict(op="lh", terms=[_maybe_defaults(rng, G.gen_term(rng, kind))])


def gen_composed(rng, kinds=None, nterms=None, freeze=None):
    nterms = nterms or rng.choice([1, 1, 2, 2, 3])
    freeze = (rng.random() < 0.4) if freeze is None else freeze
    lat = G.gen_latent(rng, nterms, freeze)
    nlat = sum(lat["sizes"])
    terms = []
    for i in range(nterms):
        t = G.gen_term(rng, kinds[i] if kinds else None, want_y=False)
        ps = I.primal_spec(t)
        leaves = I.spec_leaves(ps)
        n_first = len(ps["first"]["leaves"]) if ps["wrap"] == "pair" else len(leaves)
        t["model"] = G.gen_model(rng, t, nlat, leaves, n_first)
        _maybe_defaults(rng, t)
        if t["kind"] in EXACT_T and not t.get("defaults") and rng.random() < 0.2:
            t["defaults"] = "outer"     # defaults of `Likelihood` on the whole amended object
        if rng.random() < 0.2 and (nterms == 1 or lat["wrap"] != "arr"):
            # chain of two forward models (`amend` of an amended likelihood): a linear re-parametrisation first
            t["model"]["pre"] = [[(rng.randint(-4, 4) / 4.0 if (rng.random() < 0.5 or i == j_) else 0.0)
                                  for j_ in range(nlat)] for i in range(nlat)]
            t["model"].pop("lazy", None)
        if nterms > 1 and lat["wrap"] == "arr":
            # LikelihoodSum joins the summands' domains with `|` (dict union): forward models that declare an
            # array domain (jft.Model) are rejected by its constructor -- not an input the property speaks about
            t["model"].pop("lazy", None)
        terms.append(t)
    case = dict(op="lh", terms=terms, latent=lat, x=G.dys(rng, nlat, -1, 1))
    if freeze:
        k = rng.randrange(len(lat["sizes"]))
        case["freeze"] = [k]
    if nterms > 1 and rng.random() < 0.3:
        case["sumctor"] = True
    return case


def gen_herm_term(rng, kind, want_y=True, cplx=True, dof_per_element=False):
    """Gaussian / Student-t with dense HERMITIAN (complex data) or real symmetric (real data) noise operators
    (callables, std_inv = H, cov_inv = H H) on one array leaf"""
    n = rng.choice([2, 2, 3])
    shape = rng.choice([[n], [n, 1], [1, n]])
    H = G.gen_herm(rng, n)
    if not cplx:
        H = [[[v[0], 0.0] for v in r] for r in H]
    t = dict(kind=kind, par=dict(herm=H), tree=dict(wrap="arr", leaves=[dict(shape=shape, cplx=True) if cplx else dict(shape=shape)]))
    nr = 2 * n if cplx else n
    t["data"] = G.dys(rng, nr, -2, 2)
    if kind == "studentt":
        # scalar dof commutes with the dense operator; per-element dof does not: known finding C12-studentt-dense-noise-dof
        t["par"]["dof"] = [1.5 + 0.75 * i for i in range(n)] if dof_per_element else G.dys(rng, 1, 1, 6, 4)
    if want_y:
        t["y"] = G.dys(rng, nr, -2, 2)
    return t


def gen_ccomposed(rng, kinds=None, ctype=None, holo=None, nterms=None, freeze=None, cplx_data=False, herm=False,
                  defaults="random"):
    """compositions over a latent tree with COMPLEX leaves and complex-valued forward models"""
    nterms = nterms or (len(kinds) if kinds else rng.choice([1, 1, 1, 2, 2, 3]))
    freeze = (rng.random() < 0.3) if freeze is None else freeze
    lat = G.gen_clatent(rng, nterms, freeze)
    terms = []
    for i in range(nterms):
        kind = kinds[i] if kinds else rng.choice(["gaussian", "gaussian", "studentt", "vcgauss", "vcgauss"] + G.KINDS)
        if herm and kind in ("gaussian", "studentt"):
            t = gen_herm_term(rng, kind, want_y=False)
        else:
            t = G.gen_term(rng, kind, want_y=False)
            if kind in ("gaussian", "studentt", "vcgauss") and (cplx_data or rng.random() < 0.6):
                # complex data: re-draw the data with the doubled real coordinates
                G.cplx_tree(t["tree"])
                t["data"] = G.dys(rng, G.tree_real(t["tree"]), -2, 2)
        ps = I.primal_spec(t)
        leaves = I.spec_leaves(ps)
        n_first = len(ps["first"]["leaves"]) if ps["wrap"] == "pair" else len(leaves)
        t["model"] = G.gen_cmodel(rng, t, lat, leaves, n_first, ctype=ctype, holo=holo)
        if nterms > 1 and lat["wrap"] == "arr":
            t["model"].pop("lazy", None)
        if t["kind"] in EXACT_T:
            r = rng.random()
            if defaults != "random":
                if defaults:
                    t["defaults"] = defaults
            elif r < 0.2:
                t["defaults"] = True
            elif r < 0.45:
                t["defaults"] = "outer"
        terms.append(t)
    case = dict(op="lh", terms=terms, latent=lat, x=G.dys(rng, sum(G.lat_real_sizes(lat)), -1, 1))
    if freeze:
        case["freeze"] = [rng.randrange(len(lat["sizes"]))]
    if nterms > 1 and rng.random() < 0.3:
        case["sumctor"] = True
    return case


def nontrivial(case):
    return case.get("latent") is not None or len(case["terms"][0].get("y", [])) >= 2


def load_corpus():
    import glob
    import json
    import os
    from core.ctx import VERIF
    out = []
    for p in sorted(glob.glob(os.path.join(VERIF, "corpus", ID, "*.json"))):
        try:
            rec = json.load(open(p))
            out.append(rec.get("case", rec))
        except Exception:
            pass
    return out


def stat_case(ctx, case):
    for t in case["terms"]:
        ctx.stat("kind=" + t["kind"])
        ctx.stat("tree=" + t["tree"]["wrap"])
        if any(l.get("cplx") for l in t["tree"]["leaves"]):
            ctx.stat("complex-data")
        if sum(FI._leaf_elems(t)) > 1:
            ctx.stat("batched/multi-element")
        if t.get("model"):
            for a in t["model"]["acts"]:
                ctx.stat("act=" + a)
            if t["model"].get("lazy"):
                ctx.stat("model=jft.Model")
            if t["model"].get("pre") is not None:
                ctx.stat("model=chain(amend.amend)")
        if t.get("defaults"):
            ctx.stat("Likelihood-defaults" + ("(outer)" if t["defaults"] == "outer" else ""))
        if t.get("par", {}).get("herm"):
            ctx.stat("noise=dense-hermitian")
        if t.get("model") and t["model"].get("ctype"):
            ctx.stat("cmodel=" + t["model"]["ctype"])
            if any(l.get("cplx") for l in t["tree"]["leaves"]):
                ctx.stat(f"cmodel->complex-data:{t['kind']}")
    if case.get("latent") is None:
        ctx.stat("mode=plain")
    else:
        ctx.stat("mode=composed")
        ctx.stat(f"nterms={len(case['terms'])}")
        ctx.stat("latent=" + case["latent"]["wrap"])
        if any(case["latent"].get("cplx") or []):
            ctx.stat("latent-complex")
        if case.get("freeze"):
            ctx.stat("partial-freeze")


def compare_case(ctx, case, out_impl, out_model, tol=None):
    """class-T comparison of the dense matrices; returns True when they agree"""
    ctx.case(case, nontrivial(case))
    if "error" in out_impl or "error" in out_model:
        if out_impl.get("error") != out_model.get("error"):
            ctx.disagree(case, {"error": out_impl.get("error")}, {"error": out_model.get("error")},
                         "model / implementation: one side raised")
            return False
        return True
    ok = True
    for key in ("M", "L", "R"):
        mm = dec(out_model[key])
        a = out_impl[key]
        if mm.size == 0 and a.size == 0:
            continue
        if mm.shape != a.shape:
            mm = mm.reshape(a.shape) if mm.size == a.size else mm
        if not close(a, mm, tol=tol):
            ctx.disagree(case, {key: dev(a, mm)}, {key: "model"},
                         f"dense {key}: implementation vs Lean model (max dev {dev(a, mm)})")
            ok = False
    if "Tval" in out_impl and out_model.get("T") is not None:
        tv = dec(out_model["T"])
        if not close(out_impl["Tval"], tv, tol=tol):
            ctx.disagree(case, {"T": dev(out_impl["Tval"], tv)}, {"T": "model"},
                         f"transformation values: implementation vs Lean model ({dev(out_impl['Tval'], tv)})")
            ok = False
    return ok


def _work(case):
    """everything that needs JAX for one case (runs in a forked worker): driver line, dense matrices, oracle"""
    import warnings
    warnings.filterwarnings("ignore")
    import time
    t0 = time.process_time()
    with precision(case):
        res = _work1(case)
    res["secs"] = time.process_time() - t0
    return res


def _work1(case):
    res = dict(line=None, line_err=None)
    NOISE[0] = 0.0
    if model_supported(case):
        try:
            res["line"] = driver_line(case, term_y_and_J(case))
        except Exception as e:
            res["line_err"] = f"{type(e).__name__}: {e}"
    o = impl(case)
    try:
        res["fails"] = oracle_all(case, o)
    except Exception as e:   # harness bug: surface it, do not hide it as a pass
        res["fails"] = []
        res["oracle_err"] = f"{type(e).__name__}: {str(e)[:300]}"
    res["impl"] = {k: v for k, v in o.items() if not k.startswith("_") and k in ("M", "L", "R", "T", "Tval", "error", "msg")}
    res["noise"] = NOISE[0]
    return res


def _selftest(_):
    return FI.selftest(I.jx())


def _silence():
    import logging
    import warnings
    warnings.filterwarnings("ignore")
    logging.getLogger("NIFTy").setLevel(logging.ERROR)
    logging.getLogger("nifty").setLevel(logging.ERROR)
    logging.getLogger("jax").setLevel(logging.ERROR)




def run(ctx):
    import multiprocessing as mp
    import os
    rng = ctx.rng
    cases = load_corpus()
    ctx.extra["corpus_cases"] = len(cases)
    # every implementation first (targeted stream), then free generation, then compositions
    for k in G.KINDS:
        for _ in range(ctx.n(2, 10)):
            cases.append(gen_plain(rng, k))
    for _ in range(ctx.n(6, 100)):
        cases.append(gen_plain(rng))
    for _ in range(ctx.n(16, 180)):
        cases.append(gen_composed(rng))
    # round 2: complex-valued forward models in front of every likelihood that takes complex data, every stage type
    for k in ("gaussian", "studentt", "vcgauss"):
        for ci, ct in enumerate(G.CTYPES):
            for _ in range(ctx.n(1, 4)):
                # the defaults of `Likelihood` on the whole composition ("outer") / on the base (True) in a fixed rota
                cases.append(gen_ccomposed(rng, kinds=[k], ctype=ct, cplx_data=True, freeze=False,
                                           defaults=["outer", None, True, "outer", None][ci]))
    for _ in range(ctx.n(6, 80)):
        cases.append(gen_ccomposed(rng))
    # dense Hermitian (non-real) noise operators: plain and behind a complex forward model (oracle only)
    for _ in range(ctx.n(1, 6)):
        cases.append(dict(op="lh", terms=[gen_herm_term(rng, "gaussian")]))
        cases.append(dict(op="lh", terms=[_maybe_defaults(rng, gen_herm_term(rng, "studentt"))]))
        cases.append(gen_ccomposed(rng, kinds=[rng.choice(["gaussian", "studentt"])], herm=True))
        cases.append(dict(op="lh", terms=[gen_herm_term(rng, rng.choice(["gaussian", "studentt"]), cplx=False)]))
    for _ in range(ctx.n(1, 3)):
        cases.append(dict(op="lh", terms=[gen_herm_term(rng, "studentt", cplx=rng.random() < 0.5, dof_per_element=True)]))
    # float32: the same generators, run in workers with jax's default configuration (x64 off)
    cases32 = [gen_plain(rng, k) for k in G.KINDS for _ in range(ctx.n(1, 4))]
    cases32 += [gen_composed(rng) for _ in range(ctx.n(3, 30))]
    cases32 += [gen_ccomposed(rng) for _ in range(ctx.n(4, 30))]
    for c in cases32:
        c["f32"] = True
    n64 = len(cases)
    # JAX work in forked workers (forked before this process imports jax)
    nw = int(os.environ.get("C12_WORKERS", "6" if ctx.quick else "8"))
    cases = cases + cases32
    I.prune_cache()
    with mp.get_context("fork").Pool(nw, initializer=_silence) as pool:
        st_async = pool.apply_async(_selftest, (0,))
        results = pool.map(_work, cases, chunksize=1)
        st = st_async.get()
    if os.environ.get("C12_TIMING"):      # development aid only (never part of the evidence: not deterministic)
        import sys
        tot = sum(r.get("secs", 0.0) for r in results)
        top = sorted(((r.get("secs", 0.0), "+".join(t["kind"] for t in c["terms"]) + ("/f32" if c.get("f32") else ""))
                      for c, r in zip(cases, results)), reverse=True)[:12]
        print(f"C12_TIMING total worker cpu {tot:.0f}s; slowest: " + ", ".join(f"{k}={v:.0f}s" for v, k in top), file=sys.stderr)
    ctx.extra["cases_float64"], ctx.extra["cases_float32"] = n64, len(cases32)
    ctx.extra["noise_float64"] = max([r.get("noise", 0.0) for r in results[:n64]] + [0.0])
    ctx.extra["noise_float32"] = max([r.get("noise", 0.0) for r in results[n64:]] + [0.0])
    # self-test of the independent Fisher closed forms (a test, labelled as such)
    bad = [(n, v) for n, v in st if not v < 1e-7]
    ctx.extra["fisher_selftest"] = {n: float(v) for n, v in st}
    if bad:
        ctx.broke("correspondence", "harness Fisher closed forms fail their own expected-Hessian self-test", str(bad))
    lines, idx = [], []
    for i, r in enumerate(results):
        if r["line"] is not None:
            lines.append(r["line"])
            idx.append(i)
        elif r["line_err"]:
            ctx.broke("correspondence", "driver_line", r["line_err"])
        if r.get("oracle_err"):
            ctx.broke("correspondence", "oracle crashed", r["oracle_err"])
    outs = ctx.model(DRIVER, lines)
    model_out = {i: o for i, o in zip(idx, outs)}
    for i, (c, r) in enumerate(zip(cases, results)):
        stat_case(ctx, c)
        for cc, w, s in r["fails"]:
            ctx.counterexample(cc, w, s)
            ctx.stat("oracle-fail:" + s["check"])
        if c.get("f32"):
            ctx.stat("float32")
        if i in model_out:
            compare_case(ctx, c, r["impl"], model_out[i], tol=TOL32 if c.get("f32") else None)
        else:
            ctx.case(c, nontrivial(c))
            ctx.stat("oracle-only")


def search(ctx):
    """targeted search when a proof or the correspondence broke: the hypotheses the theorems need"""
    rng = ctx.rng
    for _ in range(ctx.n(40, 200)):
        for k in ("categorical", "vcgauss", "ndvc", "gaussian"):
            c = gen_plain(rng, k)
            for cc, w, s in oracle_all(c):
                ctx.counterexample(cc, w, s)
        for c in (gen_composed(rng), gen_ccomposed(rng)):
            for cc, w, s in oracle_all(c):
                ctx.counterexample(cc, w, s)
        if ctx.counterexamples:
            return
