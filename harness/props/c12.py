"""C12 — JAX likelihoods factor their metric and equal the Fisher information (DESIGN.md §5 C12, design.d/C12.md).

Tie, class T: the REAL nifty.re likelihood objects (plain, amended with generated forward models, summed, partially
frozen) are probed densely (M, L, R by unit vectors; transformation values and Jacobian) and compared with the Lean
model (Driver/C12.lean over Model/LikelihoodRe.lean, Float) computed from the same parameters.
Oracle, real code only: M = L R, R = L^H, L = (Jac T)^H (exact transformations) or E_d[(Jac T)^H Jac T] = M
(transformations documented as local approximations), M = Fisher information of the documented distribution
(closed forms written independently in _c12_fisher.py, themselves self-tested against expected Hessians).
"""
import copy
import struct

import numpy as np

from props import _c12_fisher as FI
from props import _c12_gen as G
from props import _c12_impl as I

ID = "C12"
LEAN_MODULES = ["NiftyVerif.Core.Proto", "NiftyVerif.Model.LikelihoodRe", "NiftyVerif.Props.C12"]
DRIVER = "Driver/C12.lean"
OBLIGATIONS = ["NiftyVerif.C12." + t for t in (
    "R_eq_Lh", "default_metric_eq_L_R",
    "L_Lh_eq_M_gaussian", "L_Lh_eq_M_studentt", "L_Lh_eq_M_poisson", "L_Lh_eq_M_vcgauss", "L_Lh_eq_M_vcstudt",
    "categorical_factor", "softmax_group_sum", "L_Lh_eq_M_categorical", "categorical_global_sum_defect",
    "L_is_pullback_gaussian", "L_is_pullback_studentt", "L_is_pullback_poisson",
    "expected_pullback_vcgauss_partial",
    "M_is_fisher_poisson", "M_is_fisher_gaussian", "M_is_fisher_vcgauss", "M_is_fisher_categorical",
    "with_model_factor", "sum_factor", "partial_factor", "with_model_fisher", "sum_fisher", "partial_fisher",
)]
RULE = ("cases = real likelihood objects built from generated JSON: 7 implementations x (scalar | batched | Vector-pytree "
        "data, real | complex) x (plain | amended with linear/non-linear forward model | sum of 2-3 | partially frozen); "
        "non-trivial = parameter dimension >= 2 or a composition; distinct by canonical JSON of the case")
TRUSTED_BASE = [
    "Lean 4.33 kernel; axioms propext/Classical.choice/Quot.sound only (audited every run)",
    "hand-written model Model/LikelihoodRe.lean tied to likelihood_impl.py / likelihood.py only by this differential check "
    "(dense M, L, R, transformation values, tolerance 1e-9 relative)",
    "jax.vjp / jax.linearize / jax.linear_transpose / jacfwd, eigh-based solve/sqrtm/logm: executed, not modelled",
    "Fisher information = expected Hessian with data moments substituted (exact for these families); Student-t closed "
    "forms (theta+1)/(theta+3), 2 theta/(theta+3) from the literature, checked by quadrature in the harness self-test",
    "Fisher information transforms as J^T F J under reparametrisation, adds over independent data, restricts to the "
    "liquid block under freezing (standard; used to state preservation under amend / sum / partial)",
    "IEEE rounding outside the model (class T)",
]
ASSUMPTIONS = [
    "noise_cov_inv / noise_std_inv generated diagonal and mutually consistent (the constructor does not check this)",
    "Categorical probed on the logits shape (its declared lsm_tangents_shape is the data shape)",
    "NDVariableCovarianceGaussian: model driver supports d <= 2 (closed-form 2x2 sqrt/inverse); d = 3 oracle only; "
    "Fisher compared on symmetric matrix directions",
]

TOL = 1e-9


# ---------------------------------------------------------------------------------------------------
# helpers
# ---------------------------------------------------------------------------------------------------
def f2b(x):
    return struct.unpack("<Q", struct.pack("<d", float(x)))[0]


def b2f(n):
    return struct.unpack("<d", struct.pack("<Q", int(n)))[0]


def enc(a):
    a = np.asarray(a, dtype=float)
    if a.ndim == 1:
        return [f2b(x) for x in a]
    return [[f2b(x) for x in r] for r in a]


def dec(a):
    if a is None:
        return None
    if len(a) and isinstance(a[0], list):
        return np.array([[b2f(x) for x in r] for r in a], dtype=float).reshape(len(a), -1)
    return np.array([b2f(x) for x in a], dtype=float)


def close(a, b, scale=1.0):
    a, b = np.asarray(a, dtype=float), np.asarray(b, dtype=float)
    if a.shape != b.shape:
        return False
    if a.size == 0:
        return True
    if not (np.all(np.isfinite(a)) and np.all(np.isfinite(b))):
        return False
    ref = max(np.abs(b).max(), np.abs(a).max(), scale)
    return bool(np.abs(a - b).max() <= TOL * ref)


def dev(a, b):
    a, b = np.asarray(a, dtype=float), np.asarray(b, dtype=float)
    if a.shape != b.shape:
        return f"shape {a.shape} vs {b.shape}"
    if a.size == 0:
        return "0"
    return f"{np.abs(a - b).max():.3e}"


def term_y_and_J(case):
    """per term: forward value y_k (real coordinates) and dense Jacobian J_k of the HARNESS forward model"""
    jax = I.jx()
    out = []
    if case.get("latent") is None:
        t = case["terms"][0]
        y = np.asarray(t["y"], dtype=float)
        return [(y, None)]
    x = jax.numpy.asarray(np.asarray(case["x"], dtype=float))
    for t in case["terms"]:
        y = np.asarray(I.forward_flat(t, x))
        J = np.asarray(jax.jacfwd(lambda v, t=t: I.forward_flat(t, v))(x))
        out.append((y, J))
    return out


def liquid_of(case):
    lat = case.get("latent")
    if lat is None:
        return list(range(I.spec_size(I.primal_spec(case["terms"][0]))))
    frozen = case.get("freeze") or []
    offs = np.cumsum([0] + lat["sizes"])
    return [int(i) for k, n in enumerate(lat["sizes"]) if k not in frozen for i in range(offs[k], offs[k] + n)]


def _expand(term, vals):
    """per-data-element (or scalar) values -> per real coordinate of the data tree"""
    if vals is None:
        return None
    n = sum(FI._leaf_elems(term))
    return FI._expand_cplx(term, FI._bcast(vals, n))


def driver_line(case):
    """the JSON object for Driver/C12.lean"""
    yj = term_y_and_J(case)
    terms = []
    for t, (y, J) in zip(case["terms"], yj):
        k = t["kind"]
        d = dict(kind=k, y=enc(y), J=None if J is None else enc(J))
        if k in ("gaussian", "studentt"):
            cov, std = _expand(t, t["par"].get("cov")), _expand(t, t["par"].get("std"))
            d["cov"] = None if cov is None else enc(cov)
            d["std"] = None if std is None else enc(std)
            if k == "studentt":
                d["dof"] = enc(_expand(t, t["par"]["dof"]))
        elif k == "vcgauss":
            sidx, cx, off = [], [], 0
            for l in t["tree"]["leaves"]:
                n = G.nelem(l["shape"])
                sidx += list(range(off, off + n)) * (2 if l.get("cplx") else 1)
                cx += [bool(l.get("cplx"))] * n
                off += n
            d["sidx"], d["cx"] = sidx, cx
            d["data"] = enc(t["data"])
        elif k == "vcstudt":
            d["dof"] = enc(FI._bcast(t["par"]["dof"], sum(FI._leaf_elems(t))))
        elif k == "categorical":
            d["grp"] = cat_groups(t)
        elif k == "ndvc":
            d["d"] = t["d"]
            d["cov"] = bool(t["covariance"])
            d["B"] = sum(G.nelem(l["shape"][:-1]) for l in t["tree"]["leaves"])
        terms.append(d)
    n = len(case["x"]) if case.get("latent") is not None else len(yj[0][0])
    return dict(op="lh", n=n, terms=terms, liquid=liquid_of(case))


def cat_groups(t):
    """group id (which categorical distribution) of every logits coordinate: one group per slice along `axis`, per leaf"""
    ax, K = t["axis"], t["K"]
    grp, base = [], 0
    for l in t["tree"]["leaves"]:
        shp = list(l["shape"])          # extent 1 along axis
        nb = G.nelem(shp)
        ids = np.arange(nb).reshape(shp)
        full = list(shp)
        full[ax] = K
        grp += [int(v) + base for v in np.broadcast_to(ids, full).ravel()]
        base += nb
    return grp


def model_supported(case):
    return all(not (t["kind"] == "ndvc" and t["d"] > 2) for t in case["terms"])


# ---------------------------------------------------------------------------------------------------
# adapters to the real code
# ---------------------------------------------------------------------------------------------------
EXACT_T = ("gaussian", "studentt", "poisson")
EXPECT_T = ("vcgauss", "ndvc")


def has_T(case):
    return all(t["kind"] in EXACT_T + EXPECT_T for t in case["terms"])


def impl(case, want=None):
    """dense matrices of the real object; exceptions -> {"error": kind}"""
    try:
        bases = I.build_bases(case)
        b = I.assemble(case, bases)
        want = want or (("M", "L", "R", "T") if has_T(case) else ("M", "L", "R"))
        out = I.probe(b, want)
        out["_bases"] = bases
        return out
    except Exception as e:  # a seeded bug must show up as a disagreement, not as a harness crash
        return {"error": type(e).__name__, "msg": str(e)[:200]}


def expected_gram(case, yj, bases):
    """E_d[(Jac T)^T (Jac T)] over the documented data distribution at the current parameters, exactly:
    Jac T is affine in the data of each term, terms are independent, so
    E = G(d = mean) + sum over terms, over the columns c of a square root of the data covariance: (J(mean+c)-J(mean))^2"""
    means, cols = {}, []
    for ti, (t, (y, _)) in enumerate(zip(case["terms"], yj)):
        if t["kind"] not in EXPECT_T:
            continue
        nd = len(t["data"])
        means[ti] = np.asarray(y[:nd], dtype=float)
        if t["kind"] == "vcgauss":
            sd = FI._expand_cplx(t, 1.0 / y[nd:])
            for i in range(nd):
                c = np.zeros(nd)
                c[i] = sd[i]
                cols.append((ti, c))
        else:
            d = t["d"]
            B = nd // d
            mats = y[nd:].reshape(B, d, d)
            for bb in range(B):
                S = mats[bb] if t["covariance"] else np.linalg.inv(mats[bb])
                C = np.linalg.cholesky(0.5 * (S + S.T))
                for kk in range(d):
                    c = np.zeros(nd)
                    c[bb * d:(bb + 1) * d] = C[:, kk]
                    cols.append((ti, c))
    stacks = {ti: [m] for ti, m in means.items()}
    for ti, c in cols:
        for tj, m in means.items():
            stacks[tj].append(m + c if tj == ti else m)
    Js = I.transformation_jacobians(case, bases, [(ti, np.array(v)) for ti, v in sorted(stacks.items())])
    J0 = Js[0]
    Gm = J0.T @ J0
    for v in range(1, Js.shape[0]):
        J1 = Js[v] - J0
        Gm = Gm + J1.T @ J1
    return Gm


def sym_projector(term):
    """projector of the real coordinates of an ndvc term onto (mean, symmetric matrices)"""
    d = term["d"]
    B = sum(G.nelem(l["shape"][:-1]) for l in term["tree"]["leaves"])
    n = B * d + B * d * d
    P = np.zeros((n, n))
    P[:B * d, :B * d] = np.eye(B * d)
    for b in range(B):
        o = B * d + b * d * d
        for r in range(d):
            for c in range(d):
                P[o + r * d + c, o + r * d + c] += 0.5
                P[o + r * d + c, o + c * d + r] += 0.5
    return P


def commuting_directions(term, y):
    """columns spanning (all mean directions) + (matrix directions I and A per block): on these the log-Euclidean
    transformation of NDVariableCovarianceGaussian is exact in expectation for every d"""
    d = term["d"]
    B = sum(G.nelem(l["shape"][:-1]) for l in term["tree"]["leaves"])
    n = B * d + B * d * d
    cols = [np.eye(n)[:, i] for i in range(B * d)]
    for b in range(B):
        o = B * d + b * d * d
        for Mx in (np.eye(d), y[o:o + d * d].reshape(d, d)):
            c = np.zeros(n)
            c[o:o + d * d] = Mx.ravel()
            cols.append(c)
    return np.array(cols).T


# ---------------------------------------------------------------------------------------------------
# the property, on the real code only
# ---------------------------------------------------------------------------------------------------
def _sig(case, check, **kw):
    kinds = sorted({t["kind"] for t in case["terms"]})
    s = dict(check=check, kinds="+".join(kinds),
             composed=case.get("latent") is not None, nterms=len(case["terms"]),
             frozen=bool(case.get("freeze")))
    s.update(kw)
    return s


def oracle_all(case, o=None):
    """list of (what, signature) for every part of the property that fails on the real code"""
    fails = []
    o = impl(case) if o is None else o
    if "error" in o:
        return [(f"real code raised {o['error']}: {o.get('msg', '')}", _sig(case, "raises", error=o["error"]))]
    M, L, R = o["M"], o["L"], o["R"]
    kinds = {t["kind"] for t in case["terms"]}
    cplx = any(l.get("cplx") for t in case["terms"] for l in t["tree"]["leaves"])
    # 1. M = L R
    if L.shape[1] != R.shape[0] or not close(M, L @ R):
        fails.append((f"metric != left_sqrt_metric o right_sqrt_metric (max dev {dev(M, L @ R) if L.shape[1] == R.shape[0] else 'shape'})",
                      _sig(case, "M=LR")))
    # 1b. M = L L^H (the factorisation itself, independent of how R is obtained)
    if not close(M, L @ L.T):
        fails.append((f"metric != L L^H (max dev {dev(M, L @ L.T)})", _sig(case, "M=LLh")))
    # 2. R = L^H
    if not close(R, L.T):
        fails.append((f"right_sqrt_metric is not the conjugate transpose of left_sqrt_metric ({dev(R, L.T)})",
                      _sig(case, "R=Lh")))
    yj = term_y_and_J(case)
    liquid = liquid_of(case)
    # 3. pull-back
    if has_T(case):
        T = o["T"]
        if kinds <= set(EXACT_T):
            if not close(L, T.T):
                fails.append((f"left_sqrt_metric is not the pull-back (Jac transformation)^H ({dev(L, T.T)})",
                              _sig(case, "pullback")))
        else:
            try:
                Gm = expected_gram(case, yj, o["_bases"])
            except Exception as e:
                Gm = None
                fails.append((f"transformation raised {type(e).__name__}", _sig(case, "raises", error=type(e).__name__)))
            if Gm is not None:
                nd_big = [t for t in case["terms"] if t["kind"] == "ndvc" and t["d"] >= 2]
                if case.get("latent") is None and nd_big:
                    # exact in expectation only along directions commuting with the matrix parameter
                    D = commuting_directions(case["terms"][0], yj[0][0])
                    if not close(D.T @ Gm @ D, D.T @ M @ D):
                        fails.append(("E_d[(Jac T)^H Jac T] != metric on mean/commuting directions "
                                      f"({dev(D.T @ Gm @ D, D.T @ M @ D)})", _sig(case, "expected_pullback", part="commuting")))
                    P = sym_projector(case["terms"][0])
                    if not close(P @ Gm @ P, P @ M @ P):
                        fails.append((f"E_d[(Jac T)^H Jac T] != metric on symmetric matrix directions ({dev(P @ Gm @ P, P @ M @ P)})",
                                      _sig(case, "expected_pullback", part="noncommuting", d_ge_2=True)))
                elif not nd_big:
                    if not close(Gm, M):
                        fails.append((f"E_d[(Jac T)^H Jac T] != metric ({dev(Gm, M)})",
                                      _sig(case, "expected_pullback", cplx=cplx)))
    # 4. Fisher information of the documented distribution (independent closed forms)
    Fm = None
    for t, (y, J) in zip(case["terms"], yj):
        Fk = FI.fisher(t, y)
        if t["kind"] == "ndvc":
            P = sym_projector(t)
            Fk = P @ Fk @ P
        Fk = Fk if J is None else J.T @ Fk @ J
        Fm = Fk if Fm is None else Fm + Fk
    Fm = Fm[np.ix_(liquid, liquid)]
    Mc = M
    if case.get("latent") is None and case["terms"][0]["kind"] == "ndvc":
        P = sym_projector(case["terms"][0])
        Mc = P @ M @ P
    elif "ndvc" in kinds:
        # composed: the harness forward model produces symmetric matrices, J maps into the symmetric subspace
        Mc = M
    if not close(Mc, Fm):
        fails.append((f"metric != Fisher information of the documented distribution ({dev(Mc, Fm)})", _sig(case, "fisher")))
    return fails


def oracle(case):
    """first failing part that is not a listed known finding (so that a replay of a new defect stays a violation)"""
    fails = oracle_all(case)
    if not fails:
        return None
    try:
        from core import findings
        kf = findings.load(ID)
        for w, s in fails:
            if findings.match(kf, dict(signature=s)) is None:
                return (w, s)
    except Exception:
        pass
    return fails[0]


def plainify(case, i):
    """term i on its own, without forward model, at the forward value"""
    yj = term_y_and_J(case)
    t = copy.deepcopy(case["terms"][i])
    t.pop("model", None)
    t["y"] = [float(v) for v in yj[i][0]]
    return dict(op="lh", terms=[t])


def shrink(case):
    yield from G.shrink_candidates(case, plainify)


# ---------------------------------------------------------------------------------------------------
# generation
# ---------------------------------------------------------------------------------------------------
def gen_plain(rng, kind=None):
    return dict(op="lh", terms=[G.gen_term(rng, kind)])


def gen_composed(rng, kinds=None, nterms=None, freeze=None):
    nterms = nterms or rng.choice([1, 1, 2, 2, 3])
    freeze = (rng.random() < 0.4) if freeze is None else freeze
    lat = G.gen_latent(rng, nterms, freeze)
    nlat = sum(lat["sizes"])
    terms = []
    for i in range(nterms):
        t = G.gen_term(rng, kinds[i] if kinds else None, want_y=False)
        ps = I.primal_spec(t)
        leaves = I.spec_leaves(ps)
        n_first = len(ps["first"]["leaves"]) if ps["wrap"] == "pair" else len(leaves)
        t["model"] = G.gen_model(rng, t, nlat, leaves, n_first)
        terms.append(t)
    case = dict(op="lh", terms=terms, latent=lat, x=G.dys(rng, nlat, -1, 1))
    if freeze:
        k = rng.randrange(len(lat["sizes"]))
        case["freeze"] = [k]
    if nterms > 1 and rng.random() < 0.3:
        case["sumctor"] = True
    return case


def nontrivial(case):
    return case.get("latent") is not None or len(case["terms"][0].get("y", [])) >= 2


def load_corpus():
    import glob
    import json
    import os
    from core.ctx import VERIF
    out = []
    for p in sorted(glob.glob(os.path.join(VERIF, "corpus", ID, "*.json"))):
        try:
            rec = json.load(open(p))
            out.append(rec.get("case", rec))
        except Exception:
            pass
    return out


def stat_case(ctx, case):
    for t in case["terms"]:
        ctx.stat("kind=" + t["kind"])
        ctx.stat("tree=" + t["tree"]["wrap"])
        if any(l.get("cplx") for l in t["tree"]["leaves"]):
            ctx.stat("complex-data")
        if sum(FI._leaf_elems(t)) > 1:
            ctx.stat("batched/multi-element")
        if t.get("model"):
            for a in t["model"]["acts"]:
                ctx.stat("act=" + a)
            if t["model"].get("lazy"):
                ctx.stat("model=jft.Model")
    if case.get("latent") is None:
        ctx.stat("mode=plain")
    else:
        ctx.stat("mode=composed")
        ctx.stat(f"nterms={len(case['terms'])}")
        ctx.stat("latent=" + case["latent"]["wrap"])
        if case.get("freeze"):
            ctx.stat("partial-freeze")


def compare_case(ctx, case, out_impl, out_model):
    """class-T comparison of the dense matrices; returns True when they agree"""
    ctx.case(case, nontrivial(case))
    if "error" in out_impl or "error" in out_model:
        if out_impl.get("error") != out_model.get("error"):
            ctx.disagree(case, {"error": out_impl.get("error")}, {"error": out_model.get("error")},
                         "model / implementation: one side raised")
            return False
        return True
    ok = True
    for key in ("M", "L", "R"):
        mm = dec(out_model[key])
        a = out_impl[key]
        if mm.size == 0 and a.size == 0:
            continue
        if mm.shape != a.shape:
            mm = mm.reshape(a.shape) if mm.size == a.size else mm
        if not close(a, mm):
            ctx.disagree(case, {key: dev(a, mm)}, {key: "model"},
                         f"dense {key}: implementation vs Lean model (max dev {dev(a, mm)})")
            ok = False
    if "Tval" in out_impl and out_model.get("T") is not None:
        tv = dec(out_model["T"])
        if not close(out_impl["Tval"], tv):
            ctx.disagree(case, {"T": dev(out_impl["Tval"], tv)}, {"T": "model"},
                         f"transformation values: implementation vs Lean model ({dev(out_impl['Tval'], tv)})")
            ok = False
    return ok


def run(ctx):
    rng = ctx.rng
    # self-test of the independent Fisher closed forms (a test, labelled as such)
    st = FI.selftest(I.jx())
    bad = [(n, v) for n, v in st if not v < 1e-7]
    ctx.extra["fisher_selftest"] = {n: float(v) for n, v in st}
    if bad:
        ctx.broke("correspondence", "harness Fisher closed forms fail their own expected-Hessian self-test", str(bad))
    cases = load_corpus()
    ncorp = len(cases)
    n_plain, n_comp = ctx.n(70, 700), ctx.n(60, 600)
    # every implementation, targeted streams first (batched categorical, complex data, pytrees), then free generation
    for k in G.KINDS:
        for _ in range(ctx.n(4, 30)):
            cases.append(gen_plain(rng, k))
    for _ in range(n_plain - 4 * len(G.KINDS) if ctx.quick else n_plain):
        cases.append(gen_plain(rng))
    for _ in range(n_comp):
        cases.append(gen_composed(rng))
    ctx.extra["corpus_cases"] = ncorp
    lines, idx = [], []
    for i, c in enumerate(cases):
        if model_supported(c):
            try:
                lines.append(driver_line(c))
                idx.append(i)
            except Exception as e:
                ctx.broke("correspondence", "driver_line", f"{type(e).__name__}: {e}")
    outs = ctx.model(DRIVER, lines)
    model_out = {i: o for i, o in zip(idx, outs)}
    for i, c in enumerate(cases):
        stat_case(ctx, c)
        o = impl(c)
        fails = oracle_all(c, o)
        for w, s in fails:
            ctx.counterexample(c, w, s)
            ctx.stat("oracle-fail:" + s["check"])
        if i in model_out:
            compare_case(ctx, c, o, model_out[i])
        else:
            ctx.case(c, nontrivial(c))
            ctx.stat("oracle-only(d=3)")


def search(ctx):
    """targeted search when a proof or the correspondence broke: the hypotheses the theorems need"""
    rng = ctx.rng
    for _ in range(ctx.n(40, 200)):
        for k in ("categorical", "vcgauss", "ndvc", "gaussian"):
            c = gen_plain(rng, k)
            for w, s in oracle_all(c):
                ctx.counterexample(c, w, s)
        c = gen_composed(rng)
        for w, s in oracle_all(c):
            ctx.counterexample(c, w, s)
        if ctx.counterexamples:
            return
