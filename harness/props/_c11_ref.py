"""C11 oracle reference: the *definition* side of the property, independent of NIFTy and of the Lean model.
  * -log pdf of each distribution from scipy.stats (only differences between two positions are used),
  * Fisher information closed forms from the literature (validated numerically against scipy.stats pdfs by
    `selftest()` — exact summation for Poisson/Bernoulli, quadrature for Gaussian / Student-t / inverse gamma),
  * Fisher information / -log pdf of scaled, summed, model-composed likelihoods and of the standard Hamiltonian by
    the chain rule with analytic Jacobians of the (simple, known) model functions.
"""
import numpy as np
from . import _c11_gen as G


# ---- model functions (numpy, analytic derivative) ------------------------------------------------
def f_val_der(f, x):
    t = f["f"]
    if t == "id":
        return x, np.ones_like(x)
    if t == "scal":
        return f["c"] * x, np.full_like(x, f["c"])
    if t == "diag":
        v = np.array(f["v"], dtype=float)
        v = np.concatenate([v] * (len(x) // len(v)))
        return v * x, v
    if t == "exp":
        return np.exp(x), np.exp(x)
    if t == "expscal":
        return np.exp(f["c"] * x), f["c"] * np.exp(f["c"] * x)
    if t == "sigmoid":
        # NIFTy documents sigmoid as 0.5 + 0.5 tanh(x)
        return 0.5 + 0.5 * np.tanh(x), 0.5 / np.cosh(x) ** 2
    if t == "sqr":
        return x * x, 2 * x
    raise ValueError(t)


# ---- leaves: -log pdf (up to x-independent constants) and Fisher information in local coordinates ----
def leaf_ref(l, y, n):
    """y: local real coordinates -> (neg log pdf up to const, Fisher matrix)"""
    from scipy import stats
    k = l["k"]
    if k == "gauss":
        cplx = bool(l.get("cplx"))
        m = 2 * n if cplx else n
        if l.get("d") is None:
            d = np.zeros(m)
        elif cplx:
            d = np.concatenate([np.array(l["d"][0], float), np.array(l["d"][1], float)])
        else:
            d = np.array(l["d"], float)
        if l["icov"] == "csand":
            # N = Bᴴ diag(w) B with a complex-linear bun B; in real coordinates Jᵀ diag(w, w) J
            from . import _c11_cplx as C
            J = C.chain_ref(l["bunops"], np.zeros(m), True, {"shape": [n], "dist": [1.0]})[1]
            w = np.array(l["diag"], float)
            N = J.T @ np.diag(np.concatenate([w, w])) @ J
            r = y - d
            return 0.5 * r @ N @ r, N
        if l["icov"] == "sand":
            A = np.array(l["bun"], float)
            N = A.T @ np.diag(np.array(l["diag"], float)) @ A
            r = y - d
            return 0.5 * r @ N @ r, N
        if l["icov"] == "none":
            w = np.ones(m)
        elif l["icov"] == "scal":
            w = np.full(m, l["c"])
        else:
            w = np.concatenate([np.array(l["diag"], float)] * (2 if cplx else 1))
        return -np.sum(stats.norm.logpdf(d, loc=y, scale=1 / np.sqrt(w))), np.diag(w)
    if k == "poisson":
        d = np.array(l["d"])
        return -np.sum(stats.poisson.logpmf(d, y)), np.diag(1 / y)
    if k == "bernoulli":
        d = np.array(l["d"])
        return -np.sum(stats.bernoulli.logpmf(d, y)), np.diag(1 / (y * (1 - y)))
    if k == "categorical":
        d = np.array(l["d"], float).reshape(-1)
        # one-hot categorical: -log p(d|x) = -sum d log x ; Fisher (unconstrained probabilities, E d = x): diag(1/x)
        return -np.sum(d * np.log(y)), np.diag(1 / y)
    if k == "studentt":
        th = np.array(l["theta"], float) if isinstance(l["theta"], list) else np.full(n, l["theta"])
        return -np.sum(stats.t.logpdf(y, df=th)), np.diag((th + 1) / (th + 3))
    if k == "invgamma":
        al = np.array(l["alpha"], float) if isinstance(l["alpha"], list) else np.full(n, l["alpha"])
        be = np.array(l["beta"], float)
        # the energy is (alpha+1) log x + beta/x: -log pdf of InvGamma(alpha, beta) in x.  alpha <= 0 is allowed by the
        # code (improper prior), so the formula is written out instead of scipy's (needs a > 0); checked in selftest.
        return np.sum((al + 1) * np.log(y) + be / y), np.diag((al + 1) / y ** 2)
    if k == "varcov":
        if l["cplx"]:
            a, b, i = y[:n], y[n:2 * n], y[2 * n:]
            v = -np.sum(stats.norm.logpdf(a, 0, 1 / np.sqrt(i))) - np.sum(stats.norm.logpdf(b, 0, 1 / np.sqrt(i)))
            return v, np.diag(np.concatenate([i, i, 1 / i ** 2]))
        r, i = y[:n], y[n:]
        return -np.sum(stats.norm.logpdf(r, 0, 1 / np.sqrt(i))), np.diag(np.concatenate([i, 0.5 / i ** 2]))
    if k == "sgamma":
        if l.get("cplx"):
            a, b = np.array(l["r"][0], float), np.array(l["r"][1], float)
            v = -np.sum(stats.norm.logpdf(a, 0, 1 / np.sqrt(y))) - np.sum(stats.norm.logpdf(b, 0, 1 / np.sqrt(y)))
            return v, np.diag(1 / y ** 2)
        r = np.array(l["r"], float)
        return -np.sum(stats.norm.logpdf(r, 0, 1 / np.sqrt(y))), np.diag(0.5 / y ** 2)
    raise ValueError(k)


def tree_ref(case, e, x, off, N):
    """-> (neg log pdf up to const, Fisher N×N) of the composite at flat real position x"""
    n = G.npix(case["dom"])
    k = e["k"]
    if k == "scale":
        v, F = tree_ref(case, e["e"], x, off, N)
        return e["c"] * v, e["c"] * F
    if k == "ham":
        v, F = tree_ref(case, e["e"], x, off, N)
        return v + 0.5 * np.sum(x * x), F + np.eye(N)
    if k == "sum":
        v, F = 0., np.zeros((N, N))
        for s in e["es"]:
            v1, F1 = tree_ref(case, s, x, off, N)
            v, F = v + v1, F + F1
        return v, F
    if k == "chain" and e["e"]["k"] in ("sum", "scale", "chain", "lin", "ham"):
        y, d = x.copy(), np.ones(N)
        for kk, (o, m) in off.items():
            y[o:o + m], d[o:o + m] = f_val_der(e["f"].get(kk, {"f": "id"}), x[o:o + m])
        v, F = tree_ref(case, e["e"], y, off, N)
        return v, np.diag(d) @ F @ np.diag(d)
    if k == "cmodel":
        # complex model chains (NumPy definition side in _c11_cplx): inner energy lives on the chains' outputs
        from . import _c11_cplx as C
        keys = sorted({kk for l in G.leaves(e["e"]) for kk in G.leaf_keys(l)})
        ys, blocks, off_in, o2 = [], [], {}, 0
        for kk in keys:
            o, m = off[kk]
            cin = m == 2 * n
            y, Jk, _, _ = C.chain_ref(e["ops"].get(kk, []), x[o:o + m], cin, case["dom"])
            off_in[kk] = (o2, len(y))
            blocks.append((o2, o, m, Jk))
            ys.append(y)
            o2 += len(y)
        J = np.zeros((o2, N))
        for r0, o, m, Jk in blocks:
            J[r0:r0 + Jk.shape[0], o:o + m] = Jk
        v, F = tree_ref(case, e["e"], np.concatenate(ys), off_in, o2)
        return v, J.T @ F @ J
    if k == "vmodel":
        A, B = np.array(e["A"], float), np.array(e["B"], float)
        bb = np.exp(B @ x)
        v, F = leaf_ref(e["e"], np.concatenate([A @ x, bb]), n)
        J = np.vstack([A, np.diag(bb) @ B])
        return v, J.T @ F @ J
    leaf = e["e"] if k in ("chain", "lin") else e
    keys = G.leaf_keys(leaf)
    idx = []
    for kk in keys:
        o, m = off[kk]
        idx += list(range(o, o + m))
    P = np.zeros((len(idx), N))
    P[np.arange(len(idx)), idx] = 1
    y = x[idx]
    J = P
    if k == "chain":
        ys, ds = [], []
        for kk in keys:
            o, m = off[kk]
            yv, dv = f_val_der(e["f"].get(kk, {"f": "id"}), x[o:o + m])
            ys.append(yv)
            ds.append(dv)
        y = np.concatenate(ys)
        J = np.diag(np.concatenate(ds)) @ P
    elif k == "lin":
        A = np.array(e["A"], float)
        y = A @ y
        J = A @ P
    v, F = leaf_ref(leaf, y, n)
    return v, J.T @ F @ J


def reference(case, which="pos"):
    off, N = G.key_offsets(case)
    x = np.array(G.flatx(case, which), float)
    return tree_ref(case, case["e"], x, off, N)


# ---- validation of the closed forms against scipy.stats (tests, labelled as such) ------------------
def selftest():
    """Fisher closed forms vs. E[d²(-log p)/dx²] computed from scipy.stats pdfs. Returns list of (name, relerr)."""
    from scipy import stats, integrate
    out = []

    def d2(fun, x, h):
        return (fun(x + h) - 2 * fun(x) + fun(x - h)) / h ** 2

    for lam in (0.3, 2.0, 11.0):
        ks = np.arange(0, 200)
        F = np.sum(stats.poisson.pmf(ks, lam) * np.array([d2(lambda t: -stats.poisson.logpmf(k, t), lam, 1e-3 * lam) for k in ks]))
        out.append(("poisson", abs(F * lam - 1)))
    for p in (0.1, 0.5, 0.83):
        F = sum(stats.bernoulli.pmf(k, p) * d2(lambda t: -stats.bernoulli.logpmf(k, t), p, 1e-4) for k in (0, 1))
        out.append(("bernoulli", abs(F * p * (1 - p) - 1)))
    for th in (0.7, 3.0, 12.5):
        F = integrate.quad(lambda d: stats.t.pdf(d - 0.3, th) * d2(lambda t: -stats.t.logpdf(d - t, th), 0.3, 1e-3),
                           -np.inf, np.inf, limit=200)[0]
        out.append(("studentt", abs(F * (th + 3) / (th + 1) - 1)))
    for w in (0.4, 3.0):
        F = integrate.quad(lambda d: stats.norm.pdf(d, 0.2, 1 / np.sqrt(w)) *
                           d2(lambda t: -stats.norm.logpdf(d, t, 1 / np.sqrt(w)), 0.2, 1e-3), -np.inf, np.inf)[0]
        out.append(("gauss", abs(F / w - 1)))
    for i in (0.5, 2.5):   # variable covariance: parameter = inverse variance i, data r ~ N(0, 1/i): Fisher 1/(2 i²)
        F = integrate.quad(lambda r: stats.norm.pdf(r, 0, 1 / np.sqrt(i)) *
                           d2(lambda t: -stats.norm.logpdf(r, 0, 1 / np.sqrt(t)), i, 1e-3 * i), -np.inf, np.inf)[0]
        out.append(("varcov", abs(F * 2 * i * i - 1)))
    for al, x in ((0.5, 1.3), (3.0, 0.4)):
        # InverseGammaEnergy: x is the parameter (a variance-like scale), the "data" enters through beta;
        # for beta ~ Gamma(shape alpha+1, scale x) (e.g. beta = d²/2, d ~ N(0,x), alpha+1 = 1/2) the energy
        # (alpha+1) log x + beta/x is -log p(beta|x) up to beta-only terms and its Fisher information is (alpha+1)/x²
        e = lambda be, t: (al + 1) * np.log(t) + be / t
        F = integrate.quad(lambda be: stats.gamma.pdf(be, al + 1, scale=x) * d2(lambda t: e(be, t), x, 1e-3 * x), 0, np.inf)[0]
        out.append(("invgamma", abs(F * x * x / (al + 1) - 1)))
        # and as a density in x: differences of the energy equal differences of -log invgamma.pdf
        v = (e(1.7, x) - e(1.7, 2 * x)) - (-stats.invgamma.logpdf(x, al, scale=1.7) + stats.invgamma.logpdf(2 * x, al, scale=1.7))
        out.append(("invgamma-logpdf", abs(v)))
    return out
