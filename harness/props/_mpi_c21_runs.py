"""Runtime part of C21 (tests, not proofs): tiny VI runs executed in FRESH processes.

usage: python _mpi_c21_runs.py <repo> <mode> <seed>     prints one JSON line
  classic   nifty.cl optimize_kl (2 iterations, mirrored samples)       -> digest of mean + samples + RNG stack depth
  jax       nifty.re optimize_kl (2 iterations)                          -> digest of samples, final key, key schedule check
  jaxmaps   nifty.re optimize_kl for residual_map/kl_map in vmap/lmap/smap x jit on/off -> max relative deviation
"""
import hashlib
import json
import sys


def _hex(a):
    import numpy as np
    return [float(t).hex() for t in np.asarray(a, dtype=np.float64).ravel()]


def classic(seed):
    import numpy as np
    import nifty.cl as ift
    dom = ift.RGSpace(4)
    A = ift.FieldAdapter(dom, "a")
    B = ift.FieldAdapter(dom, "b")
    op = A.exp() * B.tanh() + A
    d = ift.makeField(dom, np.array([0.3, -1.2, 0.7, 2.1]))
    lh = ift.GaussianEnergy(d, inverse_covariance=ift.ScalingOperator(dom, 4., float)) @ op
    ift.random.push_sseq_from_seed(seed)
    ic = ift.GradientNormController(iteration_limit=4)
    mini = ift.NewtonCG(ift.GradientNormController(iteration_limit=2))
    sl, mean = ift.optimize_kl(lh, 2, 2, mini, ic, nonlinear_sampling_minimizer=None, output_directory=None,
                               return_final_position=True, plot_energy_history=False, plot_minisanity_history=False)
    out = {k: _hex(v.val.asnumpy()) for k, v in sorted(mean.to_dict().items())}
    out["samples"] = [[_hex(v.val.asnumpy()) for _, v in sorted(s.to_dict().items())] for s in sl.iterator()]
    out["next_draw"] = _hex(ift.random.current_rng().normal(size=3))
    depth = len(ift.random._sseq)
    ift.random.pop_sseq()
    return dict(digest=hashlib.sha1(json.dumps(out, sort_keys=True).encode()).hexdigest(), depth=depth)


def _jax_setup():
    import jax
    jax.config.update("jax_enable_x64", True)
    import jax.numpy as jnp
    import nifty.re as jft
    dom = {"a": jax.ShapeDtypeStruct((4,), jnp.float64), "b": jax.ShapeDtypeStruct((4,), jnp.float64)}
    signal = jft.Model(lambda x: jnp.exp(x["a"]) * jnp.tanh(x["b"]) + x["a"], domain=dom)
    data = jnp.array([0.3, -1.2, 0.7, 2.1])
    lh = jft.Gaussian(data, noise_cov_inv=lambda x: 4. * x).amend(signal)
    return jax, jnp, jft, lh


def _jax_run(jax, jnp, jft, lh, seed, n_it=2, **kw):
    key = jax.random.PRNGKey(seed)
    key, sk = jax.random.split(key)
    pos = jft.Vector(jft.random_like(sk, lh.domain)) * 0.1
    mk = dict(name=None, xtol=1e-8, cg_kwargs=dict(name=None, miniter=2), maxiter=4)
    samples, state = jft.optimize_kl(
        lh, pos, n_total_iterations=n_it, n_samples=2, key=key,
        draw_linear_kwargs=dict(cg=jft.conjugate_gradient.static_cg, cg_name=None,
                                cg_kwargs=dict(miniter=2, absdelta=1e-12, maxiter=30)),
        nonlinearly_update_kwargs=dict(minimize=jft.optimize._static_newton_cg, minimize_kwargs=mk),
        kl_kwargs=dict(minimize_kwargs=dict(name=None, xtol=1e-8, cg_kwargs=dict(name=None), maxiter=4)),
        sample_mode=kw.pop("sample_mode", "nonlinear_resample"), odir=None, resume=False, **kw)
    return key, samples, state


def _flat(jax, samples):
    import numpy as np
    leaves = jax.tree_util.tree_leaves((samples.pos, samples.samples))
    return np.concatenate([np.asarray(l, dtype=np.float64).ravel() for l in leaves])


def _record_keys(jax, jnp, jft, lh, seed, modes):
    """run OptimizeVI with the given per-iteration sample modes and RECORD the key every `draw_samples` call receives;
    returns (recorded keys, keys predicted by the model: sk_i = split(key_i)[1], key_{i+1} = split(key_i)[0],
    final key ok, samples)"""
    import numpy as np
    rec = []
    orig = jft.OptimizeVI.draw_samples

    def spy(self, samples, *, key, **kw):
        rec.append(np.asarray(jax.random.key_data(key)).tolist())
        return orig(self, samples, key=key, **kw)
    jft.OptimizeVI.draw_samples = spy
    try:
        key0, samples, state = _jax_run(jax, jnp, jft, lh, seed, n_it=len(modes), sample_mode=lambda i: modes[i])
    finally:
        jft.OptimizeVI.draw_samples = orig
    k, want = key0, []
    for _ in modes:
        k, sk = jax.random.split(k, 2)
        want.append(np.asarray(jax.random.key_data(sk)).tolist())
    final_ok = bool(np.array_equal(jax.random.key_data(state.key), jax.random.key_data(k)))
    return rec, want, final_ok, samples


def jaxkeys(seed):
    """tie of the key-schedule model (Model/Rng.lean keyAt/runKeys, theorem vi_key_schedule) to OptimizeVI.update"""
    jax, jnp, jft, lh = _jax_setup()
    out = {}
    ok = True
    for name, modes in (("resample-only", ["linear_resample", "nonlinear_resample", "linear_resample"]),
                        ("with-reuse", ["linear_resample", "nonlinear_update", "linear_sample", "nonlinear_resample"])):
        rec, want, final_ok, _ = _record_keys(jax, jnp, jft, lh, seed, modes)
        out[name] = dict(recorded=rec, predicted=want, final_ok=final_ok)
        ok = ok and rec == want and final_ok
    return dict(key_schedule_ok=ok, runs=out)


MAIN_MODES = ["linear_resample", "nonlinear_update", "nonlinear_resample"]


def jaxdigest(seed):
    jax, jnp, jft, lh = _jax_setup()
    rec, want, final_ok, samples = _record_keys(jax, jnp, jft, lh, seed, MAIN_MODES)
    return dict(digest=hashlib.sha1(json.dumps(_hex(_flat(jax, samples))).encode()).hexdigest())


def jaxrun(seed, maps=False):
    """main run: a 3-iteration schedule that contains an iteration WITHOUT fresh randomness, with the sampling keys
    recorded; `maps`: additionally the jitted maps against each other (quick tier)"""
    import numpy as np
    jax, jnp, jft, lh = _jax_setup()
    rec, want, final_ok, samples = _record_keys(jax, jnp, jft, lh, seed, MAIN_MODES)
    flat = _flat(jax, samples)
    extra = {}
    if maps:
        _, s0, _ = _jax_run(jax, jnp, jft, lh, seed, residual_map="lmap", kl_map="vmap", jit=True)
        ref = _flat(jax, s0)
        devs = {"lmap/vmap/jit=True": 0.0}
        for rmap, kmap in (("smap", "smap"),):   # quick: default lmap/vmap against the sequential map
            try:
                _, s1, _ = _jax_run(jax, jnp, jft, lh, seed, residual_map=rmap, kl_map=kmap, jit=True)
                devs[f"{rmap}/{kmap}/jit=True"] = float(np.max(np.abs(_flat(jax, s1) - ref)) / (np.max(np.abs(ref)) + 1e-300))
            except Exception as e:  # noqa: BLE001
                devs[f"{rmap}/{kmap}/jit=True"] = "error:" + type(e).__name__ + ":" + str(e)[:120]
        extra = dict(deviations=devs, worst=max([v for v in devs.values() if not isinstance(v, str)] + [0.0]))
    return dict(extra, digest=hashlib.sha1(json.dumps(_hex(flat)).encode()).hexdigest(),
                recorded_keys=rec, predicted_keys=want, key_schedule_ok=bool(rec == want and final_ok))


def jaxmaps(seed, quick=False):
    import numpy as np
    jax, jnp, jft, lh = _jax_setup()
    ref = None
    out = {}
    worst = 0.0
    combos = [(r, "vmap", j) for r in ("vmap", "lmap", "smap") for j in (True, False)] + \
             [("smap", "lmap", False), ("smap", "smap", False), ("lmap", "smap", True)]
    if quick:
        combos = [("vmap", "vmap", True), ("lmap", "vmap", True), ("smap", "vmap", True), ("lmap", "smap", True),
                  ("vmap", "vmap", False)]
    for rmap, kmap, jit in combos:
        try:
            _, samples, _ = _jax_run(jax, jnp, jft, lh, seed, residual_map=rmap, kl_map=kmap, jit=jit)
            flat = _flat(jax, samples)
        except Exception as e:  # noqa: BLE001
            out[f"{rmap}/{kmap}/jit={jit}"] = "error:" + type(e).__name__ + ":" + str(e)[:120]
            continue
        if ref is None:
            ref = flat
        dev = float(np.max(np.abs(flat - ref)) / (np.max(np.abs(ref)) + 1e-300))
        out[f"{rmap}/{kmap}/jit={jit}"] = dev
        worst = max(worst, dev)
    return dict(deviations=out, worst=worst)


if __name__ == "__main__":
    repo, mode, seed = sys.argv[1], sys.argv[2], int(sys.argv[3])
    sys.path.insert(0, repo)
    print("RESULT " + json.dumps({"classic": classic, "jax": jaxrun, "jaxq": lambda s: jaxrun(s, True), "jaxd": jaxdigest, "jaxkeys": jaxkeys, "jaxmaps": jaxmaps, "jaxmaps_quick": lambda s: jaxmaps(s, True)}[mode](seed)))
