#!/bin/bash
# seed_eval.sh <name> [property]: apply seeded/<name>/patch.diff to a scratch worktree of /repo HEAD, run the property's
# quick check against it (NIFTY_REPO), record whether it raised a VIOLATION, remove the worktree. /repo is never touched.
set -u
NAME=$1; P=${2:-${NAME%%_*}}
WT=/tmp/eval_$NAME
git -C /repo worktree add -f $WT HEAD -q 2>/dev/null
cd $WT && git apply /verif/seeded/$NAME/patch.diff || { echo "$NAME: patch does not apply to HEAD"; git -C /repo worktree remove --force $WT; exit 2; }
cd /verif
T0=$(date +%s)
NIFTY_REPO=$WT VERIF_SEED=${VERIF_SEED:-0} /venv/bin/python harness/vcheck.py $P --tier ${TIER:-quick} > /tmp/eval_$NAME.log 2>&1; RC=$?
T1=$(date +%s)
VIOL=$(grep -c "^VIOLATION" /tmp/eval_$NAME.log)
NFI=$(grep -c "no-failing-input-found" /tmp/eval_$NAME.log)
echo "$NAME property=$P rc=$RC violations=$VIOL no_failing_input=$NFI wall=$((T1-T0))s"
grep "^VIOLATION" /tmp/eval_$NAME.log | head -3
REPLAY=$(grep "^VIOLATION" /tmp/eval_$NAME.log | head -1 | sed 's/.*replay=\([^ ]*\).*/\1/')
WHAT=""
[ -n "$REPLAY" ] && [ -f "/verif/$REPLAY" ] && WHAT=$(/venv/bin/python -c "import json;d=json.load(open('/verif/$REPLAY'));print((d.get('what') or str([b['name'] for b in d.get('broken',[])][:4]))[:300].replace('\"',\"'\"))")
EVF=eval.json; [ "$P" != "${NAME%%_*}" ] && EVF=eval_$P.json
cat > /verif/seeded/$NAME/$EVF <<EOT
{"property": "$P", "check": "harness/vcheck.py $P --tier ${TIER:-quick} (NIFTY_REPO=scratch worktree with the patch)", "seed": ${VERIF_SEED:-0},
 "exit_code": $RC, "violation_lines": $VIOL, "no_failing_input_found": $NFI, "detected": $([ $RC -eq 1 ] && echo true || echo false),
 "first_replay_says": "$WHAT", "wall_s": $((T1-T0))}
EOT
git -C /repo worktree remove --force $WT
# restore regenerated files that depend on the mutated tree
cd /verif && git checkout -q -- lean/NiftyVerif/Gen 2>/dev/null
exit 0
