#!/venv/bin/python
"""baseline_check.py <repo_dir> [-n JOBS] [pytest selection args...]
Run the repository's test suite (same options as /root/.vp/BASELINE.json, optionally parallel via xdist) in <repo_dir>
and report every test of BASELINE.stable_pass that did not pass. Exit 0 iff none."""
import json
import os
import subprocess
import sys
import tempfile
import xml.etree.ElementTree as ET


def main():
    repo = sys.argv[1]
    args = sys.argv[2:]
    jobs = "8"
    if args[:1] == ["-n"]:
        jobs = args[1]
        args = args[2:]
    base = json.load(open("/root/.vp/BASELINE.json"))
    stable = set(base["stable_pass"])
    out = tempfile.mktemp(suffix=".xml", prefix="junit_", dir="/tmp")
    cmd = ["/venv/bin/python", "-m", "pytest", "-q", "-p", "no:cacheprovider", "--timeout=900",
           "--continue-on-collection-errors", f"--junitxml={out}", "-n", jobs] + args
    env = dict(os.environ)
    env.pop("NIFTY_VERIF", None)
    p = subprocess.run(cmd, cwd=repo, env=env, capture_output=True, text=True)
    tail = (p.stdout or "")[-600:]
    root = ET.parse(out).getroot()
    os.unlink(out)
    passed, failed = set(), {}
    for tc in root.iter("testcase"):
        name = f"{tc.get('classname')}::{tc.get('name')}"
        bad = [c.tag for c in tc if c.tag in ("failure", "error", "skipped")]
        if bad:
            failed[name] = bad[0]
        else:
            passed.add(name)
    selected = args and not all(a.startswith("-") for a in args)
    if selected:
        # only judge the stable tests that were collected by this selection
        seen = passed | set(failed)
        missing = sorted(t for t in stable if t in failed)
        print(f"ran {len(seen)} tests (selection); stable tests failing: {len(missing)}")
    else:
        missing = sorted(t for t in stable if t not in passed)
        print(f"ran {len(passed) + len(failed)} tests; stable_pass={len(stable)}; stable tests not passing: {len(missing)}")
    # under heavy machine load single tests hit the 900 s timeout: re-run what did not pass, alone, before judging
    if missing and len(missing) <= 25:
        still = []
        for t in missing:
            mod, name = t.split("::", 1)
            path = mod.replace(".", "/") + ".py"
            q = subprocess.run(["/venv/bin/python", "-m", "pytest", "-q", "-p", "no:cacheprovider", "--timeout=1800",
                                f"{path}::{name}"], cwd=repo, env=env, capture_output=True, text=True)
            if q.returncode != 0:
                still.append(t)
            else:
                print("  (passed when re-run alone):", t)
        missing = still
        print(f"after re-running alone: stable tests not passing: {len(missing)}")
    for t in missing[:40]:
        print("  NOT PASSING:", t, failed.get(t, "not run"))
    print(tail.strip().split("\n")[-1])
    sys.exit(0 if not missing else 1)


if __name__ == "__main__":
    main()
