#!/usr/bin/env python3
"""Assemble MANIFEST.json from manifest.d/Cxx.json fragments and known_findings.json from findings.d/*.json.
Properties without a fragment are listed under not_applicable with the reason given in manifest.d/_unclaimed.json
(or 'not yet claimed')."""
import glob
import json
import os

VERIF = os.path.dirname(os.path.dirname(os.path.abspath(__file__)))
PY = "/venv/bin/python"


def main():
    props = [json.loads(l) for l in open(os.path.join(VERIF, "properties.jsonl"))]
    frags = {}
    for p in sorted(glob.glob(os.path.join(VERIF, "manifest.d", "C*.json"))):
        f = json.load(open(p))
        frags[f["property_id"]] = f
    unclaimed_path = os.path.join(VERIF, "manifest.d", "_unclaimed.json")
    unclaimed = json.load(open(unclaimed_path)) if os.path.exists(unclaimed_path) else {}
    base = json.load(open(os.path.join(VERIF, "manifest.d", "_base.json")))
    checks, na = [], []
    for p in props:
        pid = p["id"]
        f = frags.get(pid)
        if f is None:
            na.append(dict(property_id=pid, reason=unclaimed.get(pid, "not claimed yet: model, theorems and correspondence "
                                                                 "check for this property are not built; the technique is "
                                                                 "applicable (DESIGN.md §5)")))
            continue
        checks.append(dict(
            property_id=pid,
            quick_cmd=f"{PY} harness/vcheck.py {pid} --tier quick",
            thorough_cmd=f"{PY} harness/vcheck.py {pid} --tier thorough",
            evidence_file=f"evidence/{pid}.json",
            replay_cmd_template=f"{PY} harness/vcheck.py {pid} --replay {{path}}",
            engine="lean4-proof+correspondence",
            level_claimed=dict(category="proof", text=f["level_text"], design_ref=f.get("design_ref", f"DESIGN.md §5 {pid}")),
            level_note=f["level_note"],
            technique=f.get("technique", "Lean 4 theorems about an executable model + differential correspondence check"),
        ))
    man = dict(base)
    man["checks"] = checks
    man["not_applicable"] = na
    with open(os.path.join(VERIF, "MANIFEST.json"), "w") as fo:
        json.dump(man, fo, indent=1)
    # known findings
    fl = []
    for p in sorted(glob.glob(os.path.join(VERIF, "findings.d", "*.json"))):
        d = json.load(open(p))
        fl += d if isinstance(d, list) else [d]
    kf = dict(comment="Genuine defects of /repo found by the checks. kind=known: recorded, not repaired (suppresses exactly "
                      "the matching replay signature and nothing else). kind=fixed: repaired by the named fix: commit in "
                      "/repo (suppresses nothing). Assembled from findings.d/ by tools/mkmanifest.py; never written at run time.",
              findings=fl)
    with open(os.path.join(VERIF, "known_findings.json"), "w") as fo:
        json.dump(kf, fo, indent=1)
    print(f"MANIFEST.json: {len(checks)} checks, {len(na)} not claimed; known_findings.json: {len(fl)} entries")


if __name__ == "__main__":
    main()
