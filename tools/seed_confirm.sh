#!/bin/bash
# seed_confirm.sh <Cxx> [variant]  — confirm a seeded change produced in /tmp/seed_<Cxx>[_variant]/_seed:
#   demo passes on the clean worktree, fails with the patch, existing stable tests still pass with the patch.
# On success copies patch.diff, demo.py, meta.json (+ confirm.json) to /verif/seeded/<Cxx>[_variant]/.
set -u
P=$1; V=${2:-}; NAME=$P${V:+_$V}
WT=/tmp/seed_$NAME
cd $WT || exit 2
git checkout -q -- nifty 2>/dev/null
/venv/bin/python _seed/demo.py > /tmp/seedconf_${NAME}_clean.log 2>&1; RC_CLEAN=$?
git apply _seed/patch.diff || { echo "patch does not apply"; exit 2; }
/venv/bin/python _seed/demo.py > /tmp/seedconf_${NAME}_mut.log 2>&1; RC_MUT=$?
if [ "${SKIP_SUITE:-0}" = "1" ]; then SUITE="skipped"; RC_SUITE=0; else
/verif/tools/baseline_check.py $WT -n ${JOBS:-5} > /tmp/seedconf_${NAME}_suite.log 2>&1; RC_SUITE=$?
SUITE=$(grep "stable tests not passing" /tmp/seedconf_${NAME}_suite.log | tail -1); fi
git checkout -q -- nifty
echo "$NAME demo_clean_rc=$RC_CLEAN demo_mutated_rc=$RC_MUT suite_rc=$RC_SUITE ($SUITE)"
if [ $RC_CLEAN -eq 0 ] && [ $RC_MUT -ne 0 ] && [ $RC_SUITE -eq 0 ]; then
  mkdir -p /verif/seeded/$NAME
  cp _seed/patch.diff _seed/demo.py /verif/seeded/$NAME/
  [ -f _seed/meta.json ] && cp _seed/meta.json /verif/seeded/$NAME/meta.json
  cat > /verif/seeded/$NAME/confirm.json <<EOT
{"property": "$P", "confirmed_by": "tools/seed_confirm.sh in a scratch worktree of /repo HEAD",
 "demo_on_clean_tree_rc": $RC_CLEAN, "demo_with_patch_rc": $RC_MUT,
 "existing_suite_with_patch": "$SUITE"}
EOT
  echo "CONFIRMED -> /verif/seeded/$NAME"
else
  echo "NOT CONFIRMED"; tail -5 /tmp/seedconf_${NAME}_mut.log; exit 1
fi
