#!/usr/bin/env python3
"""apply_fixes.py [--dry] : for every findings.d entry with kind=fixed and commit=PENDING, apply its fix diff to /repo as one
`fix:` commit and record the commit hash in the findings file. Several findings may share one diff (committed once)."""
import glob
import json
import os
import subprocess
import sys

VERIF = os.path.dirname(os.path.dirname(os.path.abspath(__file__)))
REPO = "/repo"
dry = "--dry" in sys.argv


def sh(*a, **k):
    return subprocess.run(a, capture_output=True, text=True, **k)


done = {}
for p in sorted(glob.glob(os.path.join(VERIF, "findings.d", "*.json"))):
    data = json.load(open(p))
    entries = data if isinstance(data, list) else [data]
    changed = False
    for e in entries:
        if e.get("kind") != "fixed" or e.get("commit") not in ("PENDING", None, ""):
            continue
        fix = e.get("fix")
        if not fix:
            print("no fix file for", e.get("id"))
            continue
        if fix in done:
            e["commit"] = done[fix]
            changed = True
            continue
        diff = os.path.join(VERIF, fix)
        chk = sh("git", "-C", REPO, "apply", "--check", diff)
        if chk.returncode != 0:
            print(f"CANNOT APPLY {fix}: {chk.stderr.strip()[:300]}")
            continue
        if dry:
            print("would apply", fix)
            continue
        sh("git", "-C", REPO, "apply", diff)
        files = sh("git", "-C", REPO, "diff", "--name-only").stdout.split()
        sh("git", "-C", REPO, "add", *files)
        msg = f"fix: {e['what']}"
        title = msg if len(msg) <= 100 else msg[:97] + "..."
        body = f"{e['what']}\n\nProperty {e['property']} (finding {e['id']})."
        c = sh("git", "-C", REPO, "commit", "-q", "-m", title, "-m", body)
        if c.returncode != 0:
            print("commit failed", c.stderr[:300])
            continue
        h = sh("git", "-C", REPO, "rev-parse", "--short", "HEAD").stdout.strip()
        done[fix] = h
        e["commit"] = h
        changed = True
        print(f"{h} {fix}")
    if changed and not dry:
        with open(p, "w") as f:
            json.dump(data, f, indent=1)
