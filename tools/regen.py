#!/venv/bin/python
"""Regenerate every lean/NiftyVerif/Gen/*.lean from /repo's current working tree by running all translators registered
in harness/props/*.py (the same functions each check runs first). Used by MANIFEST.setup_cmd before `lake build`."""
import glob
import importlib
import os
import sys

VERIF = os.path.dirname(os.path.dirname(os.path.abspath(__file__)))
sys.path.insert(0, os.path.join(VERIF, "harness"))
sys.path.insert(0, VERIF)
REPO = os.environ.get("NIFTY_REPO", "/repo")
sys.path.insert(0, REPO)
seen = set()
for p in sorted(glob.glob(os.path.join(VERIF, "harness", "props", "c[0-9][0-9].py"))):
    name = os.path.basename(p)[:-3]
    try:
        mod = importlib.import_module(f"props.{name}")
    except Exception as e:
        print(f"regen: cannot import {name}: {type(e).__name__}: {e}")
        continue
    for tr in getattr(mod, "TRANSLATORS", []):
        key = (getattr(tr, "__module__", ""), getattr(tr, "__name__", str(tr)))
        if key in seen:
            continue
        seen.add(key)
        try:
            out = tr(REPO)
            print(f"regen: {key[0]}.{key[1]} -> {out}")
        except Exception as e:
            print(f"regen: {key} FAILED: {type(e).__name__}: {e}")
