#!/usr/bin/env python3
"""Regenerate the generated tail of DESIGN.md (everything after the marker line) from design.d/*.md, findings.d/*.json and
seeded/*/{meta,eval*}.json. The hand-written part above the marker is left untouched."""
import glob
import json
import os

VERIF = os.path.dirname(os.path.dirname(os.path.abspath(__file__)))
MARK = "<!-- GENERATED BELOW: tools/mkdesign.py — do not edit by hand -->"


def main():
    path = os.path.join(VERIF, "DESIGN.md")
    text = open(path).read()
    head = text.split(MARK)[0].rstrip() + "\n\n" + MARK + "\n\n"
    out = [head]
    out.append("## 11. Findings (genuine defects of `/repo` found by the checks)\n\n")
    out.append("Assembled from `findings.d/`. *fixed* = repaired by the named `fix:` commit in `/repo` (suppresses nothing); "
               "*known* = recorded, the check prints `KNOWN-FINDING` for exactly this signature and still reports any other "
               "violation.\n\n| id | property | kind | commit | what |\n|---|---|---|---|---|\n")
    for p in sorted(glob.glob(os.path.join(VERIF, "findings.d", "*.json"))):
        d = json.load(open(p))
        for e in (d if isinstance(d, list) else [d]):
            out.append(f"| {e.get('id')} | {e.get('property')} | {e.get('kind')} | {e.get('commit', '')} | "
                       f"{str(e.get('what', '')).replace('|', '/')} |\n")
    out.append("\n## 12. Seeded changes (written by independent sub-agents from the property text only) and which check catches them\n\n")
    out.append("Each directory `seeded/<name>/` holds `patch.diff`, `demo.py` (passes on the clean tree, fails with the patch), "
               "`meta.json`, `confirm.json` (what was re-run to confirm it) and `eval*.json` (the registered quick check run "
               "against a scratch worktree carrying the patch, via `NIFTY_REPO`).\n\n"
               "| seed | property checked | detected | how | what the change is |\n|---|---|---|---|---|\n")
    for d in sorted(glob.glob(os.path.join(VERIF, "seeded", "*"))):
        name = os.path.basename(d)
        meta = {}
        if os.path.exists(os.path.join(d, "meta.json")):
            try:
                meta = json.load(open(os.path.join(d, "meta.json")))
            except Exception:
                meta = {}
        evs = sorted(glob.glob(os.path.join(d, "eval*.json")))
        if not evs:
            out.append(f"| {name} | – | not yet evaluated | | {str(meta.get('summary', ''))[:200].replace('|', '/')} |\n")
        for ev in evs:
            e = json.load(open(ev))
            how = "failing input replayed" if e.get("detected") and not e.get("no_failing_input_found") else (
                "broken proof/correspondence (no-failing-input-found)" if e.get("detected") else "MISSED")
            if e.get("detected") and e.get("no_failing_input_found") and e.get("violation_lines", 0) > e.get("no_failing_input_found", 0):
                how = "failing input replayed"
            out.append(f"| {name} | {e.get('property')} | {'yes' if e.get('detected') else 'NO'} | {how}: "
                       f"{str(e.get('first_replay_says', ''))[:160].replace('|', '/')} | "
                       f"{str(meta.get('summary', ''))[:220].replace('|', '/')} |\n")
    out.append("\n## 13. Per-property notes as built (from `design.d/`)\n\n")
    for p in sorted(glob.glob(os.path.join(VERIF, "design.d", "C*.md"))):
        body = open(p).read().strip()
        # demote headings so they nest under this section
        body = "\n".join(("##" + l if l.startswith("#") else l) for l in body.split("\n"))
        out.append(body + "\n\n")
    with open(path, "w") as f:
        f.write("".join(out))
    print("DESIGN.md regenerated:", sum(len(x) for x in out), "chars")


if __name__ == "__main__":
    main()
