#!/usr/bin/env python3
"""runall.py [--tier quick|thorough] [--seeds 0,1] [--jobs 4] [ids...]
Run the registered checks (MANIFEST.json) in parallel and print one line per (property, seed): exit code, wall time,
VIOLATION / KNOWN-FINDING lines. Used by the coordinator before committing evidence; not itself a registered check."""
import argparse
import json
import os
import subprocess
import sys
import time
from concurrent.futures import ThreadPoolExecutor

VERIF = os.path.dirname(os.path.dirname(os.path.abspath(__file__)))


def one(pid, tier, seed, env_extra):
    env = dict(os.environ, VERIF_SEED=str(seed), **env_extra)
    t = time.time()
    p = subprocess.run(["/venv/bin/python", "harness/vcheck.py", pid, "--tier", tier], cwd=VERIF, env=env,
                       capture_output=True, text=True)
    lines = [l for l in (p.stdout + p.stderr).split("\n")
             if l.startswith(("VIOLATION", "KNOWN-FINDING")) or "broken" in l[:12] or "Traceback" in l or "infrastructure" in l]
    return pid, seed, p.returncode, time.time() - t, lines, (p.stdout + p.stderr)[-1500:]


def main():
    ap = argparse.ArgumentParser()
    ap.add_argument("--tier", default="quick")
    ap.add_argument("--seeds", default="0")
    ap.add_argument("--jobs", type=int, default=4)
    ap.add_argument("--repo", default=None)
    ap.add_argument("ids", nargs="*")
    a = ap.parse_args()
    man = json.load(open(os.path.join(VERIF, "MANIFEST.json")))
    ids = a.ids or [c["property_id"] for c in man["checks"]]
    env_extra = {"NIFTY_REPO": a.repo} if a.repo else {}
    jobs = [(pid, a.tier, int(s), env_extra) for s in a.seeds.split(",") for pid in ids]
    bad = 0
    with ThreadPoolExecutor(a.jobs) as ex:
        for pid, seed, rc, dt, lines, tail in ex.map(lambda j: one(*j), jobs):
            print(f"{pid} seed={seed} rc={rc} {dt:6.1f}s " + " | ".join(lines[:4]))
            if rc == 2:
                print("   ", tail.replace("\n", "\n    ")[-800:])
            bad += rc != 0
    sys.exit(1 if bad else 0)


if __name__ == "__main__":
    main()
